"""writes /verif/MANIFEST.json from vcheck.props (run after changing props: python -m vcheck.manifest)"""

import json
import os

from vcheck import props

HERE = os.path.dirname(os.path.dirname(os.path.abspath(__file__)))

CATEGORY = {"proof": "proof", "other": "other"}


def build():
    checks = []
    for pid in sorted(props.PROPS):
        cfg = props.PROPS[pid]
        checks.append(
            {
                "property_id": pid,
                "quick_cmd": f"./check {pid} --tier quick",
                "thorough_cmd": f"./check {pid} --tier thorough",
                "evidence_file": f"/verif/evidence/{pid}.json",
                "replay_cmd_template": f"./check {pid} --replay {{path}}",
                "engine": "pyvc",
                "level_claimed": {"category": CATEGORY[cfg["level"]], "text": cfg["level_text"], "design_ref": cfg.get("design_ref", f"DESIGN.md section 4, {pid}")},
                "level_note": cfg["level_note"],
                "technique": cfg["technique"],
            }
        )
    all_ids = [json.loads(l)["id"] for l in open(os.path.join(HERE, "properties.jsonl"))]
    na = [{"property_id": i, "reason": props.NOT_APPLICABLE.get(i, "check not built yet in this round (contract-based verification is planned, see DESIGN.md section 4)")} for i in all_ids if i not in props.PROPS]
    m = {
        "version": 1,
        "setup_cmd": "./setup.sh",
        "hooks": {
            "guard": "SANGER_TOL_AGP_TPF_UTILS_VERIF",
            "enable": "no hook is compiled into /repo: contracts are sidecars under /verif/specs keyed by qualified name, the bounded tier wraps the real functions in the check's own process; the checks export SANGER_TOL_AGP_TPF_UTILS_VERIF=1 for uniformity only",
            "baseline_off_cmd": "cd /repo && /venv/bin/python -m pytest -ra -q -p no:cacheprovider --timeout=900",
            "source_commits": [],
            "add_only": True,
        },
        "engines": [
            {"name": "pyvc", "path": "/verif/pyvc", "serves_properties": sorted(props.PROPS), "kind_free_text": "verification-condition generator over the real Python AST (forward symbolic execution, loop cutting by sidecar invariants, modular calls by contract), obligations discharged by z3 5.1 with cvc5 as second solver"},
            {"name": "bounded", "path": "/verif/bounded", "serves_properties": sorted(p for p in props.PROPS if props.PROPS[p].get("bounded")), "kind_free_text": "run-time oracles transcribed from the property statements, driven over enumerated small scopes of the real code (stand-in and replay source; never counted as proved)"},
        ],
        "checks": checks,
        "not_applicable": na,
        "notes": "Contract-based deductive verification of the real code; see DESIGN.md. Known findings: known_findings.json.",
    }
    with open(os.path.join(HERE, "MANIFEST.json"), "w") as fh:
        json.dump(m, fh, indent=1)
    return m


if __name__ == "__main__":
    m = build()
    import jsonschema

    jsonschema.validate(m, json.load(open("/root/.vp/MANIFEST.schema.json")))
    print("MANIFEST.json written:", len(m["checks"]), "checks,", len(m["not_applicable"]), "not applicable")
