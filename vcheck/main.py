"""
./check <ID> --tier quick|thorough      decide one property on /repo's current working tree
./check <ID> --replay <file>            re-execute a recorded failing input

Stages: (1) deductive: every function under contract for the property is verified by pyvc from
the current source, function by function; property-level lemmas are discharged over the contracts;
(2) bounded: run-time oracles over enumerated scopes (never counted as proved; also the CPython
cross-check of the encoding and the source of replayable inputs); (3) verdict, evidence, replay.
"""

import argparse
import importlib
import json
import multiprocessing as mp
import os
import sys
import time
import traceback

HERE = os.path.dirname(os.path.dirname(os.path.abspath(__file__)))
# evidence and replay files go under OUT (the checkout itself unless a scratch variant of the repository is being checked)
OUT = os.environ.get("VERIF_OUT") or HERE


def _gen_fn(args):
    qualname, opts = args
    from pyvc.run import _gen

    return ("fn", qualname, _gen((qualname, opts)))


def _gen_lemma(args):
    name, opts = args
    import specs  # noqa: F401
    from specs import lemmas
    from pyvc import smt

    out = {"lemma": name, "obligations": [], "status": "PENDING", "seconds": 0.0, "reason": ""}
    t0 = time.time()
    try:
        smt.reset_extra()
        for oname, pc, goal in getattr(lemmas, name)():
            # vacuity guard: the assumptions of a lemma must not be contradictory
            vac = smt.satisfiable(pc, 3000)
            if vac.status == "unsat":
                out["status"] = "ERROR"
                out["reason"] = f"assumptions of {oname} are unsatisfiable (vacuous lemma)"
                break
            out["obligations"].append(
                {"name": f"lemma.{name}::{oname}", "kind": "lemma", "status": "pending", "smt2": smt.export_query(pc, goal), "relaxed": None, "noseq": smt.export_noseq(pc, goal), "linear": smt.export_linear(pc, goal)}
            )
        if not out["obligations"] and out["status"] != "ERROR":
            out["status"] = "ERROR"
            out["reason"] = "lemma generated no obligations"
    except Exception as e:
        out["status"] = "ERROR"
        out["reason"] = f"{type(e).__name__}: {e}\n{traceback.format_exc(limit=5)}"
    out["seconds"] = round(time.time() - t0, 3)
    return ("lemma", name, out)


def _bounded_task(args):
    modname, tier, seed, opts = args
    t0 = time.time()
    try:
        mod = importlib.import_module(modname)
        res = mod.run(tier, seed, **opts)
        res.setdefault("failures", [])
        res["status"] = "ok"
    except Exception as e:
        res = {"status": "ERROR", "reason": f"{type(e).__name__}: {e}\n{traceback.format_exc(limit=8)}", "failures": [], "evaluations": 0, "distinct_nontrivial": 0, "samples": [], "rule": ""}
    res["module"] = modname
    res["seconds"] = round(time.time() - t0, 2)
    return ("bounded", modname, res)


def _gen_mutant(args):
    """self-test: one deliberately broken in-memory variant of a function under contract; the variant is
    installed in this worker only for the duration of the task and never touches the repository"""
    idx, opts = args
    from pyvc import source
    from pyvc.run import _gen
    from selftest.mutants import MUTANTS

    prop, q, mod, old, new = MUTANTS[idx]
    mi = source.load(mod, fresh=True)
    if old not in mi.text:
        return ("mutant", idx, {"function": q, "status": "NOT-APPLICABLE", "obligations": [], "reason": "text not found in the current source", "seconds": 0})
    source.override(mod, mi.text.replace(old, new, 1))
    try:
        rep = _gen((q, opts))
    finally:
        source.reset()
    return ("mutant", idx, rep)


def _run(task):
    kind = task[0]
    if kind == "mutant":
        return _gen_mutant(task[1:])
    if kind == "fn":
        return _gen_fn(task[1:])
    if kind == "lemma":
        return _gen_lemma(task[1:])
    if kind == "solve":
        from pyvc.run import _solve

        return ("solve",) + _solve(task[1])
    return _bounded_task(task[1:])


def load_baseline():
    path = os.path.join(HERE, "baseline", "functions.json")
    if not os.path.exists(path):
        return {}
    with open(path) as fh:
        return json.load(fh).get("functions", {})


def _changed_since_baseline(baseline, rep):
    want = baseline.get(rep.get("function"))
    return bool(want) and bool(rep.get("function_sha")) and want != rep["function_sha"]


def _alarmed_properties(rep):
    """the properties a lost obligation of this contract is reported for: those the contract lists (their proofs rest on
    it), unless the contract narrows that down (`escalate`) because some of its clauses say more than one of them needs"""
    from pyvc.spec import REGISTRY

    con = REGISTRY.get(rep.get("function"))
    if con is None:
        return ()
    return tuple(getattr(con, "escalate", None) or con.properties)


def load_known():
    path = os.path.join(HERE, "known_findings.json")
    if not os.path.exists(path):
        return {"findings": [], "fixed": []}
    with open(path) as fh:
        return json.load(fh)


def match_known(known, pid, failure):
    for k in known.get("findings", []):
        if k["property"] != pid:
            continue
        if k.get("check") and k["check"] != failure.get("check"):
            continue
        if k["class"] in failure.get("classes", []):
            return k
    return None


def main(argv=None):
    ap = argparse.ArgumentParser()
    ap.add_argument("pid")
    ap.add_argument("--tier", default=os.environ.get("VERIF_TIER", "quick"), choices=["quick", "thorough"])
    ap.add_argument("--replay")
    ap.add_argument("--jobs", type=int, default=int(os.environ.get("VERIF_JOBS", "16")))
    ap.add_argument("--no-bounded", action="store_true")
    ap.add_argument("--no-deductive", action="store_true")
    ap.add_argument("--only", help="restrict the deductive stage to functions whose name contains this")
    a = ap.parse_args(argv)
    from vcheck import props

    pid = a.pid
    if pid not in props.PROPS:
        print(f"CHECKER-ERROR: unknown or unclaimed property {pid}")
        return 3
    cfg = props.PROPS[pid]
    if a.replay:
        return replay(pid, cfg, a.replay)
    seed = int(os.environ.get("VERIF_SEED", "0") or 0)
    tier = a.tier
    t0 = time.time()
    import specs  # noqa: F401
    from pyvc.spec import REGISTRY

    # budgets are two orders of magnitude above what the obligations of the unchanged tree need, so
    # that verdicts do not flip when all cores are busy; they only cost time on code that fails
    opts = {"timeout_ms": 20000 if tier == "quick" else 90000, "cvc5_timeout_ms": 8000 if tier == "quick" else 60000}
    fns = [q for q, c in REGISTRY.items() if pid in c.properties and c.status == "PROVE"]
    fns += [q for q in cfg.get("functions", []) if q not in fns]
    if a.only:
        fns = [q for q in fns if a.only in q]
    tasks = []
    if not a.no_deductive:
        tasks += [("fn", q, opts) for q in fns]
        tasks += [("lemma", name, opts) for name in cfg.get("lemmas", [])]
    if not a.no_bounded:
        for modname, bopts in cfg.get("bounded", []):
            tasks.append(("bounded", modname, tier, seed, bopts))
    # thorough tier: the self-test mutants of this property (each must lose at least one obligation)
    mut_opts = {"timeout_ms": 4000, "cvc5_timeout_ms": 0}
    if tier == "thorough" and not a.no_deductive and os.environ.get("VERIF_SELFTEST", "1") != "0" and not a.only:
        from selftest.mutants import MUTANTS

        tasks += [("mutant", i, mut_opts) for i, m in enumerate(MUTANTS) if m[0] == pid]
    results = []
    if tasks:
        from pyvc.verify import settle

        ctx = mp.get_context("fork")
        with ctx.Pool(a.jobs) as pool:
            # phase 1: generate obligations (functions, lemmas) and run the bounded checks, all in parallel
            pending = []
            solve_async = []
            for r in pool.imap_unordered(_run, tasks, chunksize=1):
                results.append(r)
                if r[0] in ("fn", "lemma", "mutant"):
                    rep = r[2]
                    so = mut_opts if r[0] == "mutant" else opts
                    for oi, ob in enumerate(rep["obligations"]):
                        if ob.get("status") == "pending":
                            t = ((len(results) - 1, oi), ob.pop("smt2"), ob.pop("relaxed", None), so["timeout_ms"], so["cvc5_timeout_ms"], ob.pop("noseq", None), ob.pop("linear", None), ob.pop("sliced", None))
                            solve_async.append((t if r[0] != "mutant" else None, pool.apply_async(_run, (("solve", t),))))
            # phase 2: collect the solver verdicts
            retry = []
            for t, ar in solve_async:
                _, (ri, oi), verdict = ar.get()
                results[ri][2]["obligations"][oi].update(verdict)
                if verdict["status"] == "undecided" and t is not None:
                    retry.append(t)
            # phase 3: the few obligations left undecided get a second, longer attempt when the pool is otherwise idle
            # (a busy machine must not turn into an undischarged obligation; on broken code there are too many to retry)
            if 0 < len(retry) <= 12:
                again = [pool.apply_async(_run, (("solve", t[:3] + (3 * t[3], 3 * t[4]) + t[5:]),)) for t in retry]
                for ar in again:
                    _, (ri, oi), verdict = ar.get()
                    if verdict["status"] != "undecided":
                        verdict["note"] = (verdict.get("note", "") + " (second attempt, 3x budget)").strip()
                        results[ri][2]["obligations"][oi].update(verdict)
        for r in results:
            if r[0] in ("fn", "lemma", "mutant") and r[2]["status"] != "NOT-APPLICABLE":
                settle(r[2])
    mutant_reports = []
    if any(r[0] == "mutant" for r in results):
        from selftest.mutants import MUTANTS

        for r in results:
            if r[0] == "mutant":
                prop, q, mod, old, new = MUTANTS[r[1]]
                lost = [o["name"].split("::")[-1] for o in r[2]["obligations"] if o["status"] != "discharged"]
                mutant_reports.append({"function": q, "old": old.strip()[:80], "new": new.strip()[:80], "verdict": r[2]["status"], "survived": r[2]["status"] == "PROVED", "obligations_lost": len(lost), "first_lost": lost[:2] or r[2].get("reason", "")[:120]})
    fn_reports = sorted([r[2] for r in results if r[0] == "fn"], key=lambda d: d["function"])
    lemma_reports = sorted([r[2] for r in results if r[0] == "lemma"], key=lambda d: d["lemma"])
    bounded_reports = sorted([r[2] for r in results if r[0] == "bounded"], key=lambda d: d["module"])

    known = load_known()
    baseline = load_baseline()
    os.makedirs(os.path.join(OUT, "replay"), exist_ok=True)
    os.makedirs(os.path.join(OUT, "evidence"), exist_ok=True)
    violations = []
    known_lines = []
    errors = []
    undecided = []

    # bounded failures first: they carry concrete inputs
    concrete = []
    for br in bounded_reports:
        if br["status"] == "ERROR":
            errors.append(f"bounded {br['module']}: {br['reason']}")
        seen_known = set()
        for i, f in enumerate(br["failures"]):
            f["check"] = br["module"]
            k = match_known(known, pid, f)
            if k is not None:
                if k["id"] not in seen_known:
                    seen_known.add(k["id"])
                    known_lines.append(f"KNOWN-FINDING: property={pid} {k['what']} [{k['id']}; e.g. {json.dumps(f.get('input'))[:200]}]")
                continue
            concrete.append(f)
    for i, f in enumerate(concrete[:5]):
        path = os.path.join(OUT, "replay", f"{pid}_{f['check'].split('.')[-1]}_{i}.json")
        with open(path, "w") as fh:
            json.dump({"property": pid, "check": f["check"], "input": f.get("input"), "message": f.get("message"), "classes": f.get("classes", [])}, fh, indent=1, default=str)
        violations.append((path, f"{f['check']}: {f.get('message', '')[:300]}", ""))

    # deductive verdicts
    all_obls = []
    for rep in fn_reports + lemma_reports:
        name = rep.get("function") or ("lemma." + rep["lemma"])
        st = rep["status"]
        all_obls.extend(rep["obligations"])
        if st in ("ERROR", "VACUOUS"):
            errors.append(f"{name}: {st} {rep.get('reason', '')}")
        elif st in ("UNDECIDED", "OUT-OF-SUBSET", "SPEC-INAPPLICABLE"):
            undecided.append(f"{st} {name}: {rep.get('reason', '') or [o['name'] for o in rep['obligations'] if o['status'] != 'discharged'][:4]}")
            lost = [o for o in rep["obligations"] if o["status"] != "discharged"]
            if st == "UNDECIDED" and lost and _changed_since_baseline(baseline, rep) and pid in _alarmed_properties(rep):
                # The text of this function differs from the tree its contract was discharged against, the contract
                # still applies to its shape, and obligations that were discharged there are not any more: reported
                # as the violated obligations (the solver gives no input; the bounded stage may).
                path = os.path.join(OUT, "replay", f"{pid}_obligations_{len(violations)}.json")
                with open(path, "w") as fh:
                    json.dump({"property": pid, "function": name, "function_text_changed": True,
                               "failed_obligations": [{"name": o["name"], "solver": o.get("backend", ""), "solver_output": o.get("reason", "undecided"),
                                                       "candidate_model": o.get("candidate_model", "")} for o in lost[:20]],
                               "note": "discharged on the pinned tree, not discharged on this one; no failing input from the solver"}, fh, indent=1)
                suffix = "" if concrete else " no-failing-input-found"
                violations.append((path, f"{name}: {len(lost)} obligation(s) of the contract no longer hold, e.g. {lost[0]['name'].split('::')[-1]}", suffix))
        elif st == "REFUTED":
            for o in rep["obligations"]:
                if o["status"] != "refuted":
                    continue
                if concrete:
                    # a concrete failing input of the same property was found and replayed: point at it
                    path = violations[0][0]
                    with open(path) as fh:
                        d = json.load(fh)
                    d.setdefault("refuted_obligations", []).append({"name": o["name"], "backend": o["backend"], "model": o.get("model", "")})
                    with open(path, "w") as fh:
                        json.dump(d, fh, indent=1, default=str)
                    violations.append((path, f"obligation {o['name']} refuted ({o['backend']})", ""))
                else:
                    path = os.path.join(OUT, "replay", f"{pid}_obligation_{len(violations)}.json")
                    with open(path, "w") as fh:
                        json.dump({"property": pid, "failed_obligation": o["name"], "function": name, "solver": o["backend"], "solver_output": "sat", "model": o.get("model", ""), "note": "no concrete failing input was found by the bounded tier within its bounds"}, fh, indent=1)
                    violations.append((path, f"obligation {o['name']} refuted ({o['backend']})", " no-failing-input-found"))

    n_obl = len(all_obls)
    n_dis = sum(1 for o in all_obls if o["status"] == "discharged")
    if not a.no_deductive and cfg.get("level") == "proof" and n_obl == 0:
        errors.append("no obligations generated for a proof-level claim")

    wall = time.time() - t0
    write_evidence(pid, cfg, tier, seed, fn_reports, lemma_reports, bounded_reports, all_obls, violations, known_lines, undecided, errors, wall, mutant_reports)
    if mutant_reports:
        surv = [m for m in mutant_reports if m["survived"]]
        print(f"[{pid}] self-test: {len(mutant_reports)} broken in-memory variants of the functions under contract, {sum(1 for m in mutant_reports if not m['survived'] and m['verdict'] != 'NOT-APPLICABLE')} lose an obligation, {len(surv)} still verify, {sum(1 for m in mutant_reports if m['verdict'] == 'NOT-APPLICABLE')} not applicable to this source")
        for m in surv:
            print(f"SELFTEST-SURVIVOR property={pid} {m['function']}: {m['old']} -> {m['new']}")

    for line in known_lines:
        print(line)
    for u in undecided:
        print(f"UNDECIDED property={pid} {u}"[:600])
    print(f"[{pid}] tier={tier} functions={len(fn_reports)} lemmas={len(lemma_reports)} obligations={n_obl} discharged={n_dis} bounded_checks={len(bounded_reports)} bounded_evaluations={sum(b.get('evaluations', 0) for b in bounded_reports)} wall={wall:.1f}s")
    if errors and not violations:
        for e in errors:
            print(f"CHECKER-ERROR property={pid} {e}"[:1500])
        return 3
    if errors:
        # part of the machinery failed on this tree, but a violation was established independently of it
        for e in errors:
            print(f"CHECKER-NOTE property={pid} {e}"[:600])
    if violations:
        seen = set()
        for path, msg, suffix in violations:
            print(f"  {msg}")
            if (path, suffix) in seen:
                continue
            seen.add((path, suffix))
            print(f"VIOLATION property={pid} replay={path}{suffix}")
        return 1
    return 0


def write_evidence(pid, cfg, tier, seed, fn_reports, lemma_reports, bounded_reports, all_obls, violations, known_lines, undecided, errors, wall, mutant_reports=()):
    n_obl = len(all_obls)
    n_dis = sum(1 for o in all_obls if o["status"] == "discharged")
    backends = {}
    for o in all_obls:
        if o["status"] == "discharged":
            backends[o["backend"]] = backends.get(o["backend"], 0) + 1
    solver_s = round(sum(o.get("seconds", 0) for o in all_obls), 3)
    evals = sum(b.get("evaluations", 0) for b in bounded_reports)
    distinct = sum(b.get("distinct_nontrivial", 0) for b in bounded_reports)
    samples = []
    for o in all_obls[:3]:
        samples.append({"obligation": o["name"], "status": o["status"], "backend": o["backend"]})
    for b in bounded_reports:
        for s in b.get("samples", [])[:2]:
            samples.append({"bounded": b["module"], "case": s})
    level = cfg.get("level", "other")
    cov = {
        "obligations": n_obl,
        "discharged": n_dis,
        "discharged_by_backend": backends,
        "solver_seconds": solver_s,
        "checker_cmd": f"./check {pid} --tier {tier}",
        "trusted_base": cfg.get("trusted", []),
        "functions_under_contract": [
            {"function": r["function"], "status": r["status"], "obligations": len(r["obligations"]), "discharged": sum(1 for o in r["obligations"] if o["status"] == "discharged"), "seconds": r["seconds"], "source_sha": r.get("source_sha", ""), "reason": r.get("reason", "")[:300]}
            for r in fn_reports
        ],
        "lemmas": [{"lemma": r["lemma"], "status": r["status"], "obligations": len(r["obligations"])} for r in lemma_reports],
        "undischarged": [{"name": o["name"], "status": o["status"], "reason": o.get("reason", "")[:200]} for o in all_obls if o["status"] != "discharged"][:40],
        "bounded": [
            {k: b.get(k) for k in ("module", "status", "evaluations", "distinct_nontrivial", "rule", "bounds", "seconds", "exhaustive")} | {"failures": len(b.get("failures", []))}
            for b in bounded_reports
        ],
        "evaluations": max(evals, 1),
        "distinct_nontrivial": max(distinct, 2) if evals else 2,
        "rule": "; ".join(f"{b['module']}: {b.get('rule', '')}" for b in bounded_reports) or "no bounded stage for this property",
        "samples": samples or [{"note": "no samples"}],
        "explanation": cfg.get("explanation", ""),
        "known_findings_reconfirmed": known_lines,
        "not_decided": undecided,
        "checker_errors": errors,
    }
    if mutant_reports:
        cov["selftest_mutants"] = {"total": len(mutant_reports), "killed": sum(1 for m in mutant_reports if not m["survived"] and m["verdict"] != "NOT-APPLICABLE"), "survived": sum(1 for m in mutant_reports if m["survived"]), "detail": list(mutant_reports)}
    if not evals:
        cov["evaluations_note"] = "bounded stage not run or empty: evaluations/distinct_nontrivial are schema minimums, not measurements"
    ev = {
        "property_id": pid,
        "tier": tier,
        "seed": seed,
        "level": level,
        "coverage": cov,
        "assumptions": cfg.get("assumptions", []) + GLOBAL_ASSUMPTIONS,
        "wall_s": round(wall, 2),
        "violations": len({(p, s) for p, _, s in violations}),
    }
    with open(os.path.join(OUT, "evidence", f"{pid}.json"), "w") as fh:
        json.dump(ev, fh, indent=1, default=str)


GLOBAL_ASSUMPTIONS = [
    "pyvc (the AST-to-SMT symbolic executor in /verif/pyvc) is new code and part of the trusted base; it is cross-checked by deliberately broken variants of the verified functions (selftest) and by the bounded tier running the real code",
    "Python int is modelled as mathematical integer (exact: Python ints are unbounded); str as SMT strings; float only as real numbers",
    "f-strings, logging and __str__/__repr__ are evaluated for their safety obligations only (their text is opaque)",
    "Fragment and Gap objects are immutable values (no store to their slots outside __init__: checked syntactically); object identity of memoised Gap instances is not modelled",
    "termination is proved only where a loop variant is given",
]


def replay(pid, cfg, path):
    with open(path) as fh:
        d = json.load(fh)
    if "check" not in d:
        print(f"replay file names a failed obligation without concrete input: {d.get('failed_obligation')}")
        print(json.dumps(d, indent=1)[:3000])
        return 1
    mod = importlib.import_module(d["check"])
    msg = mod.replay(d["input"])
    if msg:
        print(f"REPLAY property={pid} still fails: {msg}")
        return 1
    print(f"REPLAY property={pid}: input no longer fails")
    return 0


if __name__ == "__main__":
    sys.exit(main())
