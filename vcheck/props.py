"""
Per-property configuration of the checks: which lemmas and bounded modules belong to a property,
the level claimed, and the trusted base / assumptions reported in the evidence.  The functions under
contract are taken from the `properties` tuple of each contract in /verif/specs.
"""

PREDICATE_TRUSTED = [
    "z3 5.1 / cvc5 1.0 as SMT back ends",
    "pyvc translation of Python statements and expressions (see DESIGN.md 3.1, 3.3)",
]

PROPS = {
    "C19": {
        "level": "proof",
        "technique": "deductive verification of the real functions against sidecar contracts (pyvc VC generation + z3/cvc5), property lemma over the contracts; bounded run-time oracle as cross-check",
        "level_text": "Every interval predicate of Fragment and the all-vs-all scan are proved, for all integers and all assembly sizes, to meet contracts transcribed from the statement; the consistency clauses (symmetry, exactly one of overlap/abut/gap, length = size of intersection) are a lemma over those contracts. The CLI report text is checked by a bounded oracle only.",
        "level_note": "Trusted: the pyvc encoding of Python (DESIGN.md 3.1/3.3), the SMT solvers, list.extend/generator axioms. asm_format.report_overlaps output formatting is bounded, not proved.",
        "lemmas": ["c19_predicates_consistent"],
        "bounded": [("bounded.c19", {})],
        "trusted": PREDICATE_TRUSTED + ["list.extend of a generator over Scaffold.fragments() equals the fragment rows in order (builtin axiom)"],
        "assumptions": ["asm_format.report_overlaps (text output) is exercised by the bounded tier only"],
        "explanation": "interval predicates and the all-vs-all scan proved against contracts taken from the statement; CLI report bounded",
    },
    "C11": {
        "level": "other",
        "technique": "deductive verification of junction_tuple/reverse against contracts + reversal-invariance lemma; bounded recount of cuts/breaks/joins on generated remapping runs",
        "level_text": "Proved: the junction encoding names exactly the two facing contig ends in a canonical order, is invariant under whole-scaffold reversal and injective on unordered end pairs (lemma over the contracts). The equality of the reported counts with an independent recount over whole remapping runs is bounded.",
        "level_note": "Trusted: pyvc encoding, SMT solvers. Scaffold.fragment_junction_set / make_stats / cut counting over the pipeline are covered by the bounded tier only.",
        "lemmas": ["c11_junction_reversal_invariant"],
        "bounded": [],
        "trusted": PREDICATE_TRUSTED,
        "assumptions": [],
        "explanation": "junction encoding proved reversal-invariant and injective on unordered pairs of facing ends; the counts over whole remapping runs are bounded",
    },
}

NOT_APPLICABLE = {}
