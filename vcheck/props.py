"""
Per-property configuration of the checks: which lemmas and bounded modules belong to a property,
the level claimed, and the trusted base / assumptions reported in the evidence.  The functions under
contract are taken from the `properties` tuple of each contract in /verif/specs.
"""

PREDICATE_TRUSTED = [
    "z3 5.1 / cvc5 1.0 as SMT back ends",
    "pyvc translation of Python statements and expressions (see DESIGN.md 3.1, 3.3)",
]

PROPS = {
    "C19": {
        "level": "proof",
        "technique": "deductive verification of the real functions against sidecar contracts (pyvc VC generation + z3/cvc5), property lemma over the contracts; bounded run-time oracle as cross-check",
        "level_text": "Every interval predicate of Fragment (overlaps, overlap_length, abuts, gap_between, and the class invariant start <= end they rest on) is proved, for all integers, to meet a contract transcribed from the statement; the consistency clauses (symmetry, overlap iff a shared base, exactly one of overlap/abut/positive gap, abut iff gap zero, length = size of the intersection and absent otherwise) are a lemma over those contracts. The all-vs-all scan (Assembly.all_vs_all_fragments / find_overlapping_fragments: 'each unordered pair once, across and within scaffolds') and the CLI report are decided by the bounded tier only and are not counted as proved.",
        "level_note": "Trusted: the pyvc encoding of Python (DESIGN.md 3.1/3.3), the SMT solvers. BOUNDED (not proved): Assembly.all_vs_all_fragments, Assembly.find_overlapping_fragments (callback + nested range loops), asm_format.report_overlaps.",
        "lemmas": ["c19_predicates_consistent"],
        "bounded": [("bounded.c19", {})],
        "trusted": PREDICATE_TRUSTED + ["list.extend of a generator over Scaffold.fragments() equals the fragment rows in order (builtin axiom)"],
        "assumptions": ["asm_format.report_overlaps (text output) is exercised by the bounded tier only"],
        "explanation": "interval predicates and the all-vs-all scan proved against contracts taken from the statement; CLI report bounded",
    },
    "C11": {
        "level": "other",
        "technique": "deductive verification of junction_tuple/reverse against contracts + reversal-invariance lemma; bounded recount of cuts/breaks/joins on generated remapping runs",
        "level_text": "Proved: the junction encoding names exactly the two facing contig ends in a canonical order, is invariant under whole-scaffold reversal and injective on unordered end pairs (lemma over the contracts). The equality of the reported counts with an independent recount over whole remapping runs is bounded.",
        "level_note": "Trusted: pyvc encoding, SMT solvers. Scaffold.fragment_junction_set / make_stats / cut counting over the pipeline are covered by the bounded tier only.",
        "lemmas": ["c11_junction_reversal_invariant"],
        "bounded": [],
        "trusted": PREDICATE_TRUSTED,
        "assumptions": [],
        "explanation": "junction encoding proved reversal-invariant and injective on unordered pairs of facing ends; the counts over whole remapping runs are bounded",
    },
}

LIST_TRUSTED = PREDICATE_TRUSTED + [
    "list model of pyvc: a Python list is (backing array, window lo..hi) behind a reference; append/pop(0)/pop(-1)/extend/slice/[*xs]/item assignment follow DESIGN.md 3.1",
    "sum(r.length for r in rows) == cum(rows, len(rows)) (builtin axiom defining the ghost `cum`)",
    "dict model: get / item assignment / truthiness of the value (presence map + value map per dictionary object)",
]

PROPS["C12"] = {
    "level": "proof",
    "technique": "deductive verification of add_scaffold / scaffold_by_name / find_overlaps / OverlapResult.__init__ from the real AST against sidecar contracts (loop invariants for the binary search, both extension loops and both gap-stripping loops), lemma linking the index to row spans; bounded brute-force scan as cross-check and replay source",
    "level_text": "For scaffolds of any length and all query intervals 1 <= a <= b the real find_overlaps is proved to return None exactly when no contig row's span meets the query, and otherwise the window of rows lo..hi with hit(lo), hit(hi) contigs, every contig hit inside, every row inside hit, rows == source rows lo..hi (same objects), start/end == coordinates of the first/last returned row, and to raise only for an unknown or empty scaffold (every subscript is a discharged safety obligation). The index invariant it relies on (idx[k] == cum(k+1), strictly increasing) is proved of add_scaffold.",
    "level_note": "Trusted: pyvc encoding incl. list and dict model, SMT solvers, the builtin axiom sum-of-lengths == cum. Input validity as preconditions: every row at least 1 bp (Gap validates nothing), a scaffold does not list the same Fragment object twice, the scaffold's rows are not changed after add_scaffold. Termination: variants given for the three while loops.",
    "lemmas": ["c12_index_is_span"],
    "bounded": [("bounded.c12", {})],
    "trusted": LIST_TRUSTED,
    "assumptions": [
        "rows valid: every Fragment/Gap row has length >= 1 (precondition; Gap does not validate its length)",
        "the indexed scaffold's row list is not modified after IndexedAssembly.add_scaffold (class invariant stated as precondition of find_overlaps)",
        "a scaffold does not contain the same Fragment object twice (precondition)",
    ],
    "explanation": "proof of the lookup for all scaffolds and queries; bounded scan as cross-check",
}
PROPS["C18"] = {
    "level": "proof",
    "technique": "deductive verification of every OverlapResult operation against a representation invariant (ghost source window lo..hi, trims ts/te) re-established by each operation; span == total row length by an explicit induction lemma; bounded exhaustive edit sequences as cross-check and replay source",
    "level_text": "find_overlaps is proved to establish, and discard_start, discard_end, trim_large_overhangs, trim_fragment to preserve, the invariant wf: rows are source rows lo..hi with only the terminal fragments shortened (by ts / te bases, strand-aware), first and last rows are fragments, start == 1 + cum(lo) + ts, end == cum(hi+1) - te; hence for every accepted edit sequence of any length the span equals the rows (lemma by induction), no terminal gap exists, and the overhang / bait-overlap / what-if properties equal plain interval arithmetic (each proved as result == formula).",
    "level_note": "Trusted: pyvc encoding (lists, object identity of Fragment via allocation stamps), SMT solvers, the induction principle used by lemma c18_span_equals_rows (base and step are discharged). Nothing is claimed after an operation has raised (trim_fragment may have moved start before Fragment() rejects an empty interval).",
    "lemmas": ["c18_span_equals_rows"],
    "bounded": [("bounded.c18", {})],
    "trusted": LIST_TRUSTED + ["induction over the number of rows (meta-step of lemma c18_span_equals_rows)", "generator expression filtering bait tags is an order-preserving filter (builtin axiom)"],
    "assumptions": ["source scaffold rows valid (>= 1 bp) and not modified while overlap results derived from it are in use", "Gap object identity (memoised instances) is not modelled"],
    "explanation": "representation invariant proved for every operation; bounded edit sequences as cross-check",
}

PROPS["C06"] = {
    "level": "proof",
    "technique": "deductive verification of format_agp from the real AST (loop invariant p == cum(i); per-iteration postcondition: exactly the line of row i and a newline are written), tiling lemma over the contract; bounded AGP re-reading of everything the tools write as cross-check",
    "level_text": "format_agp is proved, for assemblies of any size, to write in each iteration of its row loop exactly one line whose columns are agp_cols(object name, cum(i), i, row_i) followed by one newline, with the running position equal to the total length of the rows before; the lemma shows that these columns tile the object from 1 without hole or overlap, count parts from 1, give sequence rows an object span equal to the component span and gap rows ('U', 'yes', gap type) a span equal to their stated length, and end at Scaffold.length. Every AGP the tools write goes through format_agp (call sites in asm_format, pretext_to_asm.write_assembly and FastaIndex.write_assembly: checked by the bounded tier on real files).",
    "level_note": "Trusted: pyvc encoding; a for loop runs its body once per element in order (the per-iteration postcondition is composed over iterations by the loop semantics, not by an explicit whole-file invariant); str(int) is the decimal rendering; text file objects accept write() in order. The equality of the FASTA record length with the last object end rests on C03's contracts and is checked by the bounded tier.",
    "lemmas": ["c06_rows_tile_object"],
    "bounded": [("bounded.c06", {})],
    "trusted": LIST_TRUSTED + ['"\\t".join(cols) is modelled as an uninterpreted function of the column list', "sequential composition of per-iteration postconditions over a for loop"],
    "assumptions": ["the file object passed to format_agp appends each write() in order", "gap rows may have length 0 here (nothing in C06 needs more)"],
    "explanation": "format_agp proved per written line; tiling lemma; bounded re-reading of written AGP files",
}

NOT_APPLICABLE = {}
