"""
Per-property configuration of the checks: which lemmas and bounded modules belong to a property,
the level claimed, and the trusted base / assumptions reported in the evidence.  The functions under
contract are taken from the `properties` tuple of each contract in /verif/specs.
"""

PREDICATE_TRUSTED = [
    "z3 5.1 / cvc5 1.0 as SMT back ends",
    "pyvc translation of Python statements and expressions (see DESIGN.md 3.1, 3.3)",
]

PROPS = {
    "C19": {
        "level": "proof",
        "technique": "deductive verification of the real functions against sidecar contracts (pyvc VC generation + z3/cvc5), property lemma over the contracts; bounded run-time oracle as cross-check",
        "level_text": "Every interval predicate of Fragment (overlaps, overlap_length, abuts, gap_between, and the class invariant start <= end they rest on) is proved, for all integers, to meet a contract transcribed from the statement; the consistency clauses (symmetry, overlap iff a shared base, exactly one of overlap/abut/positive gap, abut iff gap zero, length = size of the intersection and absent otherwise) are a lemma over those contracts. The scan is proved for every assembly: Scaffold.fragments yields exactly the Fragment rows, each at the position given by the number of Fragment rows before it; Assembly.find_overlapping_fragments (with all_vs_all_fragments executed in place, since it takes the comparison as a callback) flattens all scaffolds into one list in which every fragment row of every scaffold stands at its own position with its scaffold (positions of scaffold t lie in [tot[t], tot[t+1]) and follow the row order), compares every i < j, and returns None exactly when no pair overlaps, otherwise a list with as many entries as there are overlapping pairs i < j in which each such pair stands at the position given by the number of overlapping pairs before it - so every unordered pair that overlaps (by the proved predicate: same contig name and a shared base) is reported once and nothing else is. The report of the command line, asm_format.report_overlaps, is proved to write one heading and then exactly one block per pair it is handed, in order, to STDERR and nothing to STDOUT (what a block says is text and opaque to the proof). The two lines of glue in asm_format.process_fh that hand the scan's result to the report (only with --qc-overlaps, only if there is a pair) and the wording of the blocks are decided by the bounded tier only.",
        "level_note": "Trusted: the pyvc encoding of Python (DESIGN.md 3.1/3.3), the SMT solvers. The three counting functions (fragment rows before a row, overlapping partners before j, overlapping pairs before row i) are defined by their recurrences, assumed as preconditions (conservative definitions). That distinct pairs have distinct positions and that positions below the total are all taken follows from the recurrences by induction; that step is argued in DESIGN.md, not discharged. The console streams behind click.echo are ghost objects (trusted model: one chunk appended per call). BOUNDED (not proved): asm_format.process_fh (dispatch), the text of the report.",
        "lemmas": ["c19_predicates_consistent"],
        "bounded": [("bounded.c19", {})],
        "trusted": PREDICATE_TRUSTED + ["xs.extend(f(x) for x in ys) adds what xs.extend([f(x) for x in ys]) adds; a list comprehension without condition is the element-wise image of its list (DESIGN.md 3.1)"],
        "assumptions": ["asm_format.process_fh (dispatch between parser, scan, report and writer) and the wording of the report are exercised by the bounded tier only"],
        "explanation": "interval predicates, the all-vs-all scan and the report loop proved against contracts taken from the statement; the dispatch glue of the command line and the report text bounded",
    },
    "C11": {
        "level": "other",
        "technique": "deductive verification of junction_tuple/reverse against contracts + reversal-invariance lemma; bounded recount of cuts/breaks/joins on generated remapping runs",
        "level_text": "Proved: the junction encoding names exactly the two facing contig ends in a canonical order, is invariant under whole-scaffold reversal and injective on unordered end pairs (lemma over the contracts); a new statistics object starts with cuts, breaks and joins at zero, no input assembly and the prefix it is given (AssemblyStats.__init__). The equality of the reported counts with an independent recount over whole remapping runs is bounded.",
        "level_note": "Trusted: pyvc encoding, SMT solvers. Scaffold.fragment_junction_set / make_stats / cut counting over the pipeline are covered by the bounded tier only.",
        "lemmas": ["c11_junction_reversal_invariant"],
        "bounded": [("bounded.c11", {})],
        "trusted": PREDICATE_TRUSTED,
        "assumptions": [],
        "explanation": "junction encoding proved reversal-invariant and injective on unordered pairs of facing ends; the counts over whole remapping runs are bounded",
    },
}

LIST_TRUSTED = PREDICATE_TRUSTED + [
    "list model of pyvc: a Python list is (backing array, window lo..hi) behind a reference; append/pop(0)/pop(-1)/extend/slice/[*xs]/item assignment follow DESIGN.md 3.1",
    "sum(r.length for r in rows) == cum(rows, len(rows)) (builtin axiom defining the ghost `cum`)",
    "dict model: get / item assignment / truthiness of the value (presence map + value map per dictionary object)",
]

PROPS["C12"] = {
    "level": "proof",
    "technique": "deductive verification of add_scaffold / scaffold_by_name / find_overlaps / OverlapResult.__init__ from the real AST against sidecar contracts (loop invariants for the binary search, both extension loops and both gap-stripping loops), lemma linking the index to row spans; bounded brute-force scan as cross-check and replay source",
    "level_text": "For scaffolds of any length and all query intervals 1 <= a <= b the real find_overlaps is proved to return None exactly when no contig row's span meets the query, and otherwise the window of rows lo..hi with hit(lo), hit(hi) contigs, every contig hit inside, every row inside hit, rows == source rows lo..hi (same objects), start/end == coordinates of the first/last returned row, and to raise only for an unknown or empty scaffold (every subscript is a discharged safety obligation). The index invariant it relies on (idx[k] == cum(k+1), strictly increasing) is proved of add_scaffold.",
    "level_note": "Trusted: pyvc encoding incl. list and dict model, SMT solvers, the builtin axiom sum-of-lengths == cum. Input validity as preconditions: every row at least 1 bp (Gap validates nothing), a scaffold does not list the same Fragment object twice, the scaffold's rows are not changed after add_scaffold. Termination: variants given for the three while loops.",
    "lemmas": ["c12_index_is_span"],
    "bounded": [("bounded.c12", {})],
    "trusted": LIST_TRUSTED,
    "assumptions": [
        "rows valid: every Fragment/Gap row has length >= 1 (precondition; Gap does not validate its length)",
        "the indexed scaffold's row list is not modified after IndexedAssembly.add_scaffold (class invariant stated as precondition of find_overlaps)",
        "a scaffold does not contain the same Fragment object twice (precondition)",
    ],
    "explanation": "proof of the lookup for all scaffolds and queries; bounded scan as cross-check",
}
PROPS["C18"] = {
    "level": "proof",
    "technique": "deductive verification of every OverlapResult operation against a representation invariant (ghost source window lo..hi, trims ts/te) re-established by each operation; span == total row length by an explicit induction lemma; bounded exhaustive edit sequences as cross-check and replay source",
    "level_text": "find_overlaps is proved to establish, and discard_start, discard_end, trim_large_overhangs, trim_fragment - and the two premise operations StartOverhangPremise.apply / EndOverhangPremise.apply through which the overhang resolver edits a result - to preserve, the invariant wf: rows are source rows lo..hi with only the terminal fragments shortened (by ts / te bases, strand-aware), first and last rows are fragments, start == 1 + cum(lo) + ts, end == cum(hi+1) - te; hence for every accepted edit sequence of any length the span equals the rows (lemma by induction), no terminal gap exists, and the overhang / bait-overlap / what-if properties equal plain interval arithmetic (each proved as result == formula).",
    "level_note": "Trusted: pyvc encoding (lists, object identity of Fragment via allocation stamps), SMT solvers, the induction principle used by lemma c18_span_equals_rows (base and step are discharged). Nothing is claimed after an operation has raised (trim_fragment may have moved start before Fragment() rejects an empty interval).",
    "lemmas": ["c18_span_equals_rows"],
    "bounded": [("bounded.c18", {})],
    "trusted": LIST_TRUSTED + ["induction over the number of rows (meta-step of lemma c18_span_equals_rows)", "generator expression filtering bait tags is an order-preserving filter (builtin axiom)"],
    "assumptions": ["source scaffold rows valid (>= 1 bp) and not modified while overlap results derived from it are in use", "Gap object identity (memoised instances) is not modelled"],
    "explanation": "representation invariant proved for every operation; bounded edit sequences as cross-check",
}

PROPS["C06"] = {
    "level": "proof",
    "technique": "deductive verification of format_agp from the real AST (loop invariant p == cum(i); per-iteration postcondition: exactly the line of row i and a newline are written), tiling lemma over the contract; bounded AGP re-reading of everything the tools write as cross-check",
    "level_text": "format_agp is proved, for assemblies of any size, to write in each iteration of its row loop exactly one line whose columns are agp_cols(object name, cum(i), i, row_i) followed by one newline, with the running position equal to the total length of the rows before; the lemma shows that these columns tile the object from 1 without hole or overlap, count parts from 1, give sequence rows an object span equal to the component span and gap rows ('U', 'yes', gap type) a span equal to their stated length, and end at Scaffold.length. Every AGP the tools write goes through format_agp (call sites in asm_format, pretext_to_asm.write_assembly and FastaIndex.write_assembly: checked by the bounded tier on real files).",
    "level_note": "Trusted: pyvc encoding; a for loop runs its body once per element in order (the per-iteration postcondition is composed over iterations by the loop semantics, not by an explicit whole-file invariant); str(int) is the decimal rendering; text file objects accept write() in order. The equality of the FASTA record length with the last object end rests on C03's contracts and is checked by the bounded tier.",
    "lemmas": ["c06_rows_tile_object"],
    "bounded": [("bounded.c06", {})],
    "trusted": LIST_TRUSTED + ['"\\t".join(cols) is modelled as an uninterpreted function of the column list', "sequential composition of per-iteration postconditions over a for loop"],
    "assumptions": ["the file object passed to format_agp appends each write() in order", "gap rows may have length 0 here (nothing in C06 needs more)"],
    "explanation": "format_agp proved per written line; tiling lemma; bounded re-reading of written AGP files",
}

FASTA_TRUSTED = LIST_TRUSTED + [
    "ghost model of the FASTA file: a record with faidx layout (offset, residues per line, bytes per line, length) has residue g at byte offset + (g // rpl) * mll + g % rpl; seek/read/tell of a binary file move and read that cursor (external contracts ext.FastaFH.*)",
    "io.BytesIO as (kind, first, n, cursor) of one contiguous run; write() is checked for contiguity (external contracts ext.BytesIO.*)",
    "abstract bytes values (kind, first residue, length): file residues, their reverse complement, filler runs, line terminators",
    "a generator is modelled as the list of what it yields (its body and its consumers touch disjoint state)",
    "floor division and modulo by fresh witnesses q, r with a == b*q + r (exact)",
    "revcomp_bytes_io turns residues [first, first+n) into their reverse complement (TRUSTED model; the table is decided by lemma c14_complement_table)",
]

INDEX_TRUSTED = [
    "ghost model of a binary file read line by line (specs/fasta_index.py): a list of line values with first byte, second-to-last byte, length, length without the terminator (rstrip(b'\\r\\n')), header name (line[1:].split()[0].decode()), and ghost byte offset / residue count defined by the recurrences in the precondition; iterating the file yields the lines in order and tell() is the offset after the line handed out (ext.Path.open, ext.LineFile.tell)",
    "re.finditer(rb'[ACGTacgt]+', bytes) is modelled as the list of maximal runs of the ghost predicate acgt over the residues of the buffer (engine model acgt_runs); any other pattern is out of the subset",
    "ghost functions rec_header / rec_number are given by their characteristic properties (they exist for every file that starts with a header line)",
    "closures are executed in their defining scope (nonlocal rebinding as in PEP 3104); `with file.open('rb') as fh` is modelled as the binding only",
    "per-record statement: each closing of a record is proved to add exactly the entry and scaffold of that record and to leave earlier ones in place; the statement over all records follows by the loop semantics (one closing per header line after the first and one after the last line), not by a cumulative invariant",
    "induction over the rows of a record (meta-step of lemma c04_rows_tile_by_running_total)",
]

PROPS["C03"] = {
    "level": "other",
    "technique": "deductive verification of sequence_bytes / fwd_chunks / rev_chunks / get_gap_iter / get_sequence_iter / write_scaffold / write_assembly against contracts over a ghost FASTA layout and output-column model; bounded byte-level comparison incl. the pretext-to-asm CLI",
    "level_text": "Proved for all layouts, intervals, buffer sizes and line lengths: sequence_bytes reads exactly residues start..end (every read is checked to sit on the next expected residue, inside one line and inside the record); the chunk iterators deliver the row in pieces of 1..buffer_size residues that abut and cover it (last-first and reverse-complemented for minus rows; gaps as filler runs summing to the gap length); write_scaffold consumes every chunk completely and in order, never writes an empty or over-long line, ends with a complete line and writes exactly Scaffold.length residues; write_assembly writes one such record per scaffold in order. The index the streamer reads through is the one index_fasta_file is proved to build (C04 contract: quintuple and tiling per record). Not proved (bounded): the byte-for-byte content equality through real files, record-name uniqueness (inherited from C10), and the end-to-end CLI.",
    "level_note": "The link from the abstract bytes model to real file bytes (io semantics, bytes.translate, slicing) is trusted; content equality with real files is checked by the bounded tier. pretext_to_asm.write_assembly (same object passed to both writers) is bounded.",
    "lemmas": ["c03_chunks_cover_the_row"],
    "bounded": [("bounded.c03", {})],
    "trusted": FASTA_TRUSTED + INDEX_TRUSTED,
    "assumptions": ["rows lie within the indexed sequences (precondition of write_scaffold)", "text encoding of the record header is opaque"],
    "explanation": "streaming core proved over a ghost file model; real bytes and the CLI bounded",
}
PROPS["C13"] = {
    "level": "other",
    "technique": "allocation-size obligations inside the contracts of the streaming functions (every chunk and every read is at most buffer_size), buffer-size-free postconditions; bounded byte identity over buffer sizes and tracemalloc peaks",
    "level_text": "Proved: every BytesIO produced by fwd_chunks, rev_chunks and get_gap_iter holds between 1 (0 for the final filler chunk) and buffer_size bytes, each sequence_bytes request spans at most buffer_size residues and each of its reads at most one line, write_scaffold holds one chunk and one piece of at most line_length at a time; the postconditions of all streaming functions do not depend on buffer_size (the delivered residues are start..end for every buffer_size >= 1), which is the independence clause for streaming. Indexing side: the contract of index_fasta_file does not mention buffer_size in any postcondition (entries and rows are the same for every buffer_size >= 1, run merging across flushes is part of the loop invariant) and its loop invariant bounds the sequence buffer by buffer_size residues between lines (plus the line being added). Not decidable by contracts and therefore bounded: real peak memory of CPython (tracemalloc run-time contract), compared across buffer sizes.",
    "level_note": "Real memory behaviour of the interpreter is outside what a contract on source can state.",
    "lemmas": ["c03_chunks_cover_the_row"],
    "bounded": [("bounded.c13", {})],
    "trusted": FASTA_TRUSTED + INDEX_TRUSTED,
    "assumptions": ["memory is measured as the size of the bytes objects the functions construct (ghost length), not the allocator's footprint"],
    "explanation": "size bounds proved in the contracts; peak memory and indexing bounded",
}
PROPS["C14"] = {
    "level": "proof",
    "technique": "deductive verification of Fragment.reverse, Scaffold.reverse (inlined generator, loop invariant), OverlapResult.to_scaffold, rev_chunks / get_sequence_iter; lemmas: reversal is an involution, complement table decided over all 256 bytes from the literals in the source, streaming law by induction over rows; bounded byte-level cross-check",
    "level_text": "Proved: Scaffold.reverse returns the rows in inverse order with every fragment's strand negated and name, interval and tags kept, gaps untouched, source scaffold unchanged (for any number of rows); applying it twice gives back the rows (lemma over the contract); the table IUPAC_COMPLEMENT built from the two literals in the source is an involution on all 256 byte values, equals the IUPAC complement and preserves case (decided by the solver), so reverse_complement twice is the identity; streaming a reversed scaffold is the reverse complement of streaming the original for strands +/- (induction over rows over the chunk contracts). For rows of unknown strand the streaming law fails: known finding C14-strand0-reversal.",
    "level_note": "Trusted: bytes slicing [::-1] reverses and bytes.translate maps bytewise (index algebra of reverse_complement), revcomp_bytes_io model, induction principle. The statement's clause for unknown-strand rows is a recorded known finding, reconfirmed by the bounded tier on every run.",
    "lemmas": ["c14_reverse_is_involution", "c14_complement_table", "c14_stream_of_reversal_is_revcomp"],
    "bounded": [("bounded.c14", {})],
    "trusted": FASTA_TRUSTED + ["seq[::-1].translate(T): reversal then bytewise table lookup", "induction over the rows of a scaffold (meta-step of lemma c14_stream_of_reversal_is_revcomp)"],
    "assumptions": ["strand-0 rows are excluded from the streaming law (known finding)"],
    "explanation": "reversal and complement proved; streaming law by lemma over contracts; bounded bytes",
}

PROPS["C20"] = {
    "level": "other",
    "technique": "obligations generated from the AST of name_natural_key (pattern and numeral table read from the literals, turned into SMT regular-expression queries), shape contracts for the two sort functions; bounded exhaustive ordering oracle",
    "level_text": "Proved for every possible name: each token the split pattern can yield has a value (it is one of the numerals with a non-zero table value, or a non-empty run of decimal digits on which int() succeeds), so the key function never raises; the split has no limit (a third argument of re.split would be one); the pattern has exactly one capturing group, so keys are positionally typed (text at even, int at odd positions) and tuple comparison is total; I/II/III/IV map to 1..4; every run of digits is one token; the output order key is (rank, natural key), so rank takes precedence, and a scaffold built without a rank gets a number from the signature of Scaffold.__init__ (so the key of a parsed or reversed scaffold can be compared). Bounded: that the resulting order is numeric-aware in the sense of the statement for whole names (tokenising oracle over all short names) and that an unloc sorts directly after its chromosome.",
    "level_note": "Trusted: re.split with one capturing group alternates text and group matches; sorted/list.sort are stable total-preorder sorts; Python's \\d is read as [0-9] (int() also accepts the other Unicode decimal digits \\d matches). int() of a decimal string is modelled as always succeeding: CPython refuses strings of more than sys.get_int_max_str_digits() (4300) digits - names with such a digit run are the known finding C20-digit-run-over-int-limit, outside what the proof covers. smart_sort_scaffolds needs every rank to be an int (input validity).",
    "lemmas": [],
    "bounded": [("bounded.c20", {})],
    "trusted": PREDICATE_TRUSTED + ["translation of the re pattern literal to an SMT regular expression via re._parser (ASCII classes)", "re.split / sorted / tuple comparison builtin semantics"],
    "assumptions": ["scaffold ranks are ints when smart_sort_scaffolds is called"],
    "explanation": "totality, typing and rank precedence proved from the literals in the source; order semantics bounded",
}
PROPS["C16"] = {
    "level": "other",
    "technique": "obligations generated from the AST of get_output_filehandle / setup_logging (open mode evaluated for every (clobber, mode) combination, exception path, module-wide frame of file-affecting calls) over a stated file model; bounded CLI runs over subsets of pre-existing files",
    "level_text": "Decided completely over the finite space (clobber, binary flag): with clobber false every output file is opened in exclusive-create mode ('x', never truncating), the FileExistsError of a collision reaches a handler that exits with status 1 after naming the path and is not swallowed; with clobber true the mode is 'w' (complete rewrite); the log file mode follows the same rule; every caller passes its clobber flag through unchanged and no other function of the module performs a file-affecting call. Under the stated model of open() this is the property. The real runs over subsets of existing files are bounded.",
    "level_note": "File model (trusted): open(p,'x') raises FileExistsError and leaves p untouched if it exists; open(p,'w') creates or truncates. The FASTA index cache beside an input FASTA is not an output file of the run (scope note in DESIGN.md).",
    "lemmas": [],
    "bounded": [("bounded.c16", {})],
    "trusted": ["semantics of open modes 'x' and 'w', of logging.basicConfig(filename, filemode) and of sys.exit", "click passes --clobber/--no-clobber as the `clobber` argument of cli()"],
    "assumptions": [],
    "explanation": "mode logic decided over its finite input space from the AST; CLI behaviour bounded",
}
PROPS["C15"] = {
    "level": "other",
    "technique": "deductive verification of check_for_index_files over a ghost path model (existence, mtime), AST-level obligations for the atomic cache writer replace_file and its two users, invariant lemma over these contracts for histories / crash points / interference; bounded histories, crash injection and interleavings on the real code",
    "level_text": "Proved: check_for_index_files returns true iff both cache files exist and both mtimes are strictly greater than the FASTA's (all paths, incl. FileNotFoundError for a missing FASTA); replace_file writes to a process-unique temporary name in the same directory and renames it onto the final name only after the file is closed; write_index and write_assembly write only through it; auto_load is verified path by path against a typestate protocol on the index object (ghost flags): it indexes the file afresh exactly when the cache is not accepted, and otherwise loads the index and then the assembly - load_assembly completes the assembly from the index (records without residues have no AGP line) and therefore requires the index to be loaded first; either way both are filled. run_indexing (shape of its straight-line body checked) derives both caches from the current file and writes both. Lemma over these contracts: the per-file invariant 'exists and strictly newer => complete and current' is preserved by FASTA rewrites (monotone clock), deletions and atomic cache writes of any process, hence holds at every crash point and under interference, and an accepted cache is the current one.",
    "level_note": "Trusted: file-system semantics (rename is atomic, completed operations persist, mtime of a new file is the clock at creation, monotone clock). load_index and load_assembly are TRUSTED stubs (typestate, exceptions, frame; what they read is decided by C04/C05 and the bounded tier), as is the call-site contract of run_indexing. Real scheduling and power-loss reordering are out of reach.",
    "lemmas": ["c15_cache_invariant"],
    "bounded": [("bounded.c15", {})],
    "trusted": PREDICATE_TRUSTED + ["POSIX rename atomicity; Path.stat().st_mtime / Path.exists() read the ghost path model", "monotone clock: a rewritten FASTA gets an mtime not earlier than any existing cache file"],
    "assumptions": ["the FASTA is not rewritten while an indexing run of its old content is still writing caches (histories are sequential with respect to FASTA edits, as in the property's quantifier)"],
    "explanation": "acceptance test and atomic writer proved; invariant lemma over contracts; real crash points and interleavings bounded",
}

PIPE_TRUSTED = LIST_TRUSTED + [
    "sorted(list, key=f): a stable permutation ordered by the key, same total row length (builtin axioms)",
    "object identity of Fragment rows through allocation stamps; Gap identity not modelled",
    "dict model: setdefault (two paths), len (size map kept in step with presence), values() as a list each of whose elements is stored under some present key",
    "list comprehensions [f(x) for x in xs] and zip(xs, ys[, strict=True]) loops: element-wise over the list model",
    "dynamic dispatch: a member overridden in a subclass is resolved by the object's class (class map); references declared exact (constructor results, output assemblies) are not dispatched",
    "a generator method under an `as_list` contract is the list of what it yields (scaffolds_fused_by_name); statement postconditions are proved where they stand and used from there on (cut)",
    "ASSUMED call-site effects (not derived from the bodies): ScaffoldNamer.make_scaffold_name only reads the scaffold it is given, sets name / rank / haplotype state and starts an empty unloc list; Scaffold.fragment_tags returns a new set; ChrNamer.name_chromosomes changes nothing but scaffold names (ChrNamer.__init__, add_scaffold and add_chr_prefix are under contract: frames proved); AssemblyStats.make_stats changes only the statistics object; Assembly.smart_sort_scaffolds permutes the scaffold list in place",
]
PIPE_NOTE = ("Under contract from the pipeline (each per piece / per row / per fused scaffold, i.e. as a postcondition of one loop iteration): find_overlaps, trimming and cutting, "
             "store_fragments_found, add_overhang_premise and the premise what-ifs, scaffolds_fused_by_name, assemblies_with_scaffolds_fused, add_missing_scaffolds_from_input, rename_by_size, label_scaffold. "
             "NOT under contract: OverhangResolver.make_fixes, discard_overhanging_fragments, find_assembly_overlaps (the composition of the steps), the functional behaviour of make_scaffold_name, ChrNamer, AssemblyStats - "
             "the whole-pipeline clause is decided by the bounded tier (PretextView-model generator, exhaustive small scopes + seeded larger ones).")

PROPS["C01"] = {
    "level": "other",
    "technique": "deductive verification of the steps that carry conservation (lookup returns source rows, trims produce sub-intervals, the cut QC is a sound gate, cut_fragments' pieces add up, bookkeeping of placed contigs, premises, left-over contigs kept) + bounded base-by-base conservation oracle over PretextView-model and perturbed maps, down to the files the CLI writes",
    "level_text": "Proved: find_overlaps returns a window of the input scaffold's own row objects; discard/trim operations keep rows a sub-run of that window; trim_fragment returns a sub-interval of the trimmed contig under its name; qc_sub_fragments is an exact gate: it returns normally only if the pieces, sorted, abut pairwise, start at the contig's start and end at its end (exact partition), and it raises only if they do not (a consistent set of pieces is never rejected); cut_fragments makes one such piece per overlap result, all sub-intervals, lengths adding up to the contig, the first piece (in contig order) keeping the contig's start and the last its end on either strand; store_fragments_found records every contig row of a placed piece under its (name, start, end), a second sighting marking it as found more than once, and lists the piece as a holder; add_overhang_premise makes exactly one what-if per holder that has the shared contig at an end (start premise for the first row, end premise for the last) and none for a holder that has it in the middle; the premises' bait overlap, what-if overhang, its change and `improves` equal interval arithmetic; applying a premise (Start/EndOverhangPremise.apply, the only way make_fixes changes an overlap result) removes rows at the end the premise is about from its own overlap result, keeps the other end and the bait, and leaves the result well-formed; `makes_worse` holds whenever the result has a single row (the only row of a piece is never given up through a premise); FoundFragment.scaffold_count is the number of holders; add_missing_scaffolds_from_input keeps every contig the map did not place, whole and in order, in a left-over scaffold, and raises nothing of its own (only naming may fail). Bounded: the composition over the whole run (every base of every input contig in exactly one output fragment across all output assemblies; errors instead of silent loss for perturbed maps).",
    "level_note": PIPE_NOTE,
    "lemmas": [],
    "bounded": [("bounded.c01", {})],
    "trusted": PIPE_TRUSTED,
    "assumptions": ["overlap results handed to cut_fragments are non-empty (holds by construction in find_assembly_overlaps: bounded)"],
    "explanation": "key local lemmas proved, composition bounded",
}
PROPS["C02"] = {
    "level": "other",
    "technique": "deductive verification of the local arithmetic of the layout heuristics (error length, large-overhang rule, cut-to-bait in trim_fragment for both strands, orientation of to_scaffold) + bounded layout oracle on PretextView-model edit scripts",
    "level_text": "Proved: error_length == 1 + floor(bp per texel); trim_large_overhangs discards the first row iff its overhang exceeds the error length and its overlap with the bait is shorter than the error length (unless it is the only row of a bait longer than the error length), and the last row by the same rule applied to what is left (iff); cut_fragments hands trim_fragment the keep flags so that, in contig order, the first piece keeps the contig's start and the last its end on either strand (the site of the repaired defect 54286d9); `improves` (remove a shared terminal contig only if more than one row is left, the absolute overhang shrinks and no overhang beyond -3 error lengths results) equals interval arithmetic; trim_fragment cuts a terminal contig exactly to the bait boundary in scaffold coordinates for either strand (start == bait.start / end == bait.end whenever it cuts) and leaves a sub-interval; fragment_start_if_trimmed is the start such a cut would give; to_scaffold reverses iff the bait is on the minus strand. Bounded: that every PretextView-model script completes and the interior of each piece ends up as one collinear run (the statement's main clause), incl. cuts inside reverse-strand contigs (defect fixed in 54286d9, regression R-C02).",
    "level_note": PIPE_NOTE,
    "lemmas": [],
    "bounded": [("bounded.c02", {})],
    "trusted": PIPE_TRUSTED + ["bp_per_texel is read as the real number the header literal denotes (no IEEE rounding)"],
    "assumptions": [],
    "explanation": "local arithmetic proved, layout clause bounded",
}
PROPS["C07"] = {
    "level": "other",
    "technique": "deductive verification of Scaffold.append_scaffold (gap inserted iff joining onto existing rows), of the left-over rule of BuildAssembly.add_missing_scaffolds_from_input (per input row), of the fusion loop of BuildAssembly.scaffolds_fused_by_name (per piece: fused under (tag, haplotype - for untagged pieces only -, name), join gap iff joining), of the no-terminal-gap invariant of overlap results, of to_scaffold; bounded gap oracle over remapping runs",
    "level_text": "Proved: append_scaffold inserts the given gap exactly when a gap is given and the scaffold already has rows, keeps the existing rows and appends the other scaffold's rows in order; find_overlaps and every trimming operation leave first and last rows that are contigs (no output piece begins or ends with a gap); to_scaffold keeps or exactly reverses the rows; scaffolds_fused_by_name skips pieces without rows and appends every other piece to the fused scaffold of its key (tag, haplotype - for untagged pieces only -, name) - created with the piece's name, tag, haplotype and rank when the key is new - behind the join gap exactly when that scaffold already had rows, keeping its earlier rows and every other fused scaffold (per iteration of the fusion loop). add_missing_scaffolds_from_input walks every input scaffold row by row (per-row postcondition over the inlined generator): a contig the map placed adds nothing, a contig it did not place is appended to the left-over scaffold (named after the input scaffold, rank 3) preceded by nothing when the previously appended contig is the row just before it, by the input gap rows - all of them, in order - when only gap rows lie between the two, and by the join gap otherwise - the sites of the repaired defects 0f837d3 / 7fa0cee / 51684fd are under contract. Bounded: the gap rule over whole runs (adjacency only where the input had it, input gap only between its own neighbours, join gap elsewhere) - the two sites of the repaired defects (0f837d3, 7fa0cee).",
    "level_note": PIPE_NOTE,
    "lemmas": [],
    "bounded": [("bounded.c07", {})],
    "trusted": PIPE_TRUSTED,
    "assumptions": [],
    "explanation": "join primitive and terminal-row invariant proved, pipeline gap rule bounded",
}
PROPS["C08"] = {
    "level": "other",
    "technique": "lemma over the proved contracts of find_overlaps and trim_large_overhangs (an unedited scaffold is found whole and nothing is trimmed), per-row contract of add_missing_scaffolds_from_input (left-over pieces keep name and input gaps) + bounded null-map oracle",
    "level_text": "Proved (lemma over contracts, real arithmetic on the texel size): for a bait [1, E] with |E - T| < bp per texel on a scaffold of length T whose first and last rows are contigs and whose last contig is at least one texel long, the lookup returns all rows with span [1, T] and the large-overhang rule (error length 1 + floor(bpt)) discards nothing; for a scaffold absent from the map, add_missing_scaffolds_from_input (per input row) keeps the input scaffold's name, leaves abutting contigs abutting and copies exactly the gap rows that lay between two contigs. Bounded: that nothing else in the pipeline changes names, order, gaps or statistics for a null map, and the painted variant.",
    "level_note": PIPE_NOTE,
    "lemmas": ["c08_unedited_scaffold_is_found_whole"],
    "bounded": [("bounded.c08", {})],
    "trusted": PIPE_TRUSTED,
    "assumptions": ["side conditions of the statement (whole, uncut, unpainted, untagged; last contig >= one texel)"],
    "explanation": "lookup/trim lemma proved, rest bounded",
}
PROPS["C09"] = {
    "level": "other",
    "technique": "deductive verification of ScaffoldNamer.label_scaffold (decision table of destination tags, rank, haplotype) and of the routing loop of BuildAssembly.assemblies_with_scaffolds_fused (per fused scaffold: destination assembly and its curated flag) + bounded routing oracle per piece over tagged PretextView-model maps, down to the files the CLI writes",
    "level_text": "Proved: label_scaffold tags a piece FalseDuplicate, Haplotig or Contaminant exactly as its own tags say (in that precedence), tags it Contaminant in Target mode when the Pretext scaffold has no Target tag, gives such pieces rank 3, leaves other pieces untagged with the scaffold's rank, and records the current haplotype; assemblies_with_scaffolds_fused puts every fused scaffold into exactly one output assembly - the assembly of its destination tag if it has one (created not curated), otherwise of its haplotype, otherwise the primary one (both created curated) - appends it there, reuses an assembly that already exists and leaves the other assemblies and all curated flags alone (per iteration of the routing loop; the list of fused scaffolds, the chromosome naming of ChrNamer and the statistics are opaque there; that ChrNamer.add_scaffold writes only the namer's own books - a list and a dictionary made by this call - is proved, not assumed). Bounded: fusion by (tag, haplotype - for untagged pieces only -, name), the file names the CLI derives from the curated flag, Target-mode treatment of sequence absent from the map, name-derived haplotypes. Known findings: C09-name-derived-haplotype, C09-haplotype-prefix-name-shape.",
    "level_note": PIPE_NOTE,
    "lemmas": [],
    "bounded": [("bounded.c09", {})],
    "trusted": PIPE_TRUSTED,
    "assumptions": [],
    "explanation": "tag decision table proved, routing bounded",
}
PROPS["C10"] = {
    "level": "other",
    "technique": "deductive verification of the name counters, of ScaffoldNamer.rename_by_size (names redistributed by non-increasing length) and of the output sort key (rank, natural key) + bounded naming/ordering/CSV oracle over tagged maps",
    "level_text": "Proved: haplotig and unloc names are taken from strictly increasing counters (each number used once), the output order key is (rank, natural name key) with rank first (C20 contracts), label_scaffold assigns rank 3 to special pieces; rename_by_size hands the k-th name (in order of appearance) to the k-th longest scaffold of the list - lengths as Scaffold.length / OverlapResult.length report them at that moment, dispatched on the object's class - and changes nothing but names, and only names of scaffolds of that list (an object whose name differs afterwards stands in the list); rename_haplotigs_by_size / rename_unlocs_by_size apply it to the namer's own haplotig / unloc list and rename nothing outside it; a new ScaffoldNamer starts with both counters at zero (so the first names are H_1 and .._unloc_1), two different empty lists, no current scaffold, no Target tag seen; the configured chromosome prefix is handed by the autosome_prefix setter to both of its users (the namer that builds <prefix>n and the statistics object that writes the CSV) and to nothing else, and the getter returns the namer's copy; ChrNamer starts empty with the prefix it is given, and add_scaffold appends (str(haplotype), scaffold) to the namer's own list, marks the haplotype in its own dictionary and touches nothing else; add_chr_prefix puts the prefix in front of the scaffold's name exactly when the name does not start with it already (so the result always starts with the prefix, applying it twice changes nothing) and changes nothing but that name. Bounded: when rename_by_size is called relative to cuts (known finding), uniqueness of names per assembly, chromosome numbering by size without holes, unloc/haplotig ranking, CSV. Known findings: C10-unloc-rank-precut-length, C10-unloc-number-hole, C10-unloc-only-chromosome-csv.",
    "level_note": PIPE_NOTE,
    "lemmas": [],
    "bounded": [("bounded.c10", {})],
    "trusted": PIPE_TRUSTED,
    "assumptions": [],
    "explanation": "counters and sort key proved, naming rules bounded",
}

PROPS["C05"] = {
    "level": "other",
    "technique": "deductive verification of format_agp / format_tpf (one line per row with the specified columns) and of parse_agp / parse_tpf (per-line postcondition: exactly one row, homed where the line says, built from its columns, or an error), column-level round-trip lemmas; lexing by uninterpreted functions with stated axioms; bounded text round trips and corruptions as cross-check of the lexing axioms",
    "level_text": "Proved for files of any length: every iteration of the writers emits exactly the line of its row (AGP: columns agp_cols; TPF: tpf_cols incl. the TYPE-2/TYPE-3/upper-case-dash gap types) and a newline; every non-blank, non-comment line makes parse_agp / parse_tpf add exactly one row - to the scaffold named by the line (a new scaffold exactly when the name changes), for TPF GAP lines to the current scaffold - whose fields are read from the line's columns (int() of the coordinate columns, strand tables, tags = columns 10.., gap type tables), or raises; blank and comment lines add nothing. Lemmas: the columns written for a row parse back to the same row (AGP incl. tags; TPF for strands +/- and AGP gap types), int(str(n)) == n, the two gap-type translation tables are characterwise inverse. Trusted lexing axioms: a line built as '\\t'.join(columns) + newline splits back into the same columns when the columns are carriable; the TPF name pattern splits name:start-end at the last ':'.  Known finding: C05-scaffold-name-hash.",
    "level_note": "The whole-text statement (byte-for-byte re-formatting, header lines, AGP->TPF->AGP) is the composition of the per-line contracts over the loop semantics plus the lexing axioms; it is cross-checked on real text by the bounded tier, which also validates the axioms against CPython. asm_format.process_fh is dispatch only (bounded).",
    "lemmas": ["c05_agp_columns_roundtrip", "c05_tpf_columns_roundtrip", "c05_gap_type_tables"],
    "bounded": [("bounded.c05", {})],
    "trusted": LIST_TRUSTED + [
        "lexing axioms: re.match(r'\\s*$'), str.startswith('#'), str.rstrip().split('\\t') and the TPF name pattern are uninterpreted functions of the line; '\\t'.join is an uninterpreted function of the column list",
        "int(s) succeeds on [0-9]+ and int(str(n)) == n for n >= 0; str(n) is the decimal rendering",
        "sequential composition of per-iteration postconditions over a for loop",
    ],
    "assumptions": ["carriable assemblies (DESIGN.md C05): names non-empty without tab/newline/CR and not starting with '#', consecutive scaffolds differently named, tags non-empty without whitespace, coordinates and gap lengths >= 0"],
    "explanation": "writers and parsers proved per line at column level; text-level composition and lexing axioms bounded",
}

PROPS["C17"] = {
    "level": "other",
    "technique": "order-insensitivity obligations by self-composition of the one loop over a set that feeds the output (tag loop of make_scaffold_name, executed for two distinct tags in both orders from the real AST), syntactic frame over the package for every other place where a set's iteration order could reach a value; functional contracts of the streaming/formatting stages (results are functions of their arguments, independent of buffer_size); bounded reruns under different hash seeds, working directories, cache states and input formats",
    "level_text": "Proved: for any two distinct non-empty tags and any state, running the real loop body of make_scaffold_name for them in either order either raises in both orders or ends in the same state (all 3.7k pairs of paths), so by adjacent transpositions the outcome does not depend on the iteration order of the tag set, i.e. on PYTHONHASHSEED; no other function of the package iterates, star-unpacks, joins or lists a set (syntactic frame, re-scanned on every run); the contracts of format_agp/format_tpf, the chunk iterators and write_scaffold define their output as a function of their arguments with no dependence on buffer_size (C03/C13). Bounded: working directory, cold/warm cache, in-process order of invocations, FASTA vs AGP vs TPF input, the 12 specimens.",
    "level_note": "An order dependence exists for an empty-string tag (a falsy haplotype name): outside the domain (PretextView writes no empty tag column), stated as a precondition. Text of TaggingError messages depends on the set order but is not written to an output file. Process environment (cwd, cache state) is only reachable by the bounded tier.",
    "lemmas": [],
    "bounded": [("bounded.c17", {})],
    "trusted": PIPE_TRUSTED + ["re.fullmatch(pattern, s) holds iff s is in the language of the pattern (ASCII classes)", "str.lower is a function of the string", "dict.setdefault semantics"],
    "assumptions": ["tags are non-empty strings; haplotype names recorded so far are non-empty"],
    "explanation": "hash-seed independence proved for the only set-ordered loop + frame; environment factors bounded",
}


PROPS["C04"] = {
    "level": "proof",
    "technique": "deductive verification of index_fasta_file from the real AST (three loops, two closures sharing nonlocal state) against a ghost model of the file and of the ACGT runs; of random access through the index (sequence_bytes over the faidx layout); lemmas over the contracts (layout, running totals by induction, stream-back); bounded exhaustive oracle over small files x all buffer sizes as cross-check and replay source",
    "level_text": "Proved for every file that starts with a header line, whose header lines carry a name and in which the first sequence line of a record is not blank (any number of records and lines - records without any sequence line included: entry (0, offset, 0, terminator width) and a scaffold without rows -, LF or CRLF, final newline or not, any buffer size >= 1): whenever index_fasta_file closes a record - at the next header line or after the last line - it adds exactly one index entry, under a name that was not present (so a duplicate name can only end in the ValueError), holding (residues on the record's sequence lines, byte offset after the header line, residues on the first sequence line, that plus the terminator width read off the header line), and exactly one scaffold of that name whose rows describe the record completely and in order: fragment rows name:start-end (1-based, forward, no tags) exactly over the maximal ACGT runs, gap rows (type scaffold) exactly over the stretches between them, alternating, run merging across buffer flushes included (invariant over the open region); earlier entries and scaffolds are left alone; a file without records never returns normally; no TypeError / IndexError / AttributeError / KeyError can occur; the sequence buffer never holds more than buffer_size residues between lines. Lemma (induction): those row coordinates are the running totals of the row lengths and the total is the record length. Random access: for every faidx entry with residues_per_line >= 1 and a terminator of at least one byte and every 1 <= start <= end <= length, sequence_bytes returns exactly residues start..end (each read on the next expected residue, inside one line, inside the record); FastaInfo stores the four numbers as given; get_fasta_seq returns the whole record through the interval 1..length and, for a record without residues (which has no line width to do arithmetic with), no residues without asking sequence_bytes - the callee's precondition is an obligation of the caller, which is how the ZeroDivisionError of the pinned tree shows up as a refuted obligation; lemmas: the layout function is the faidx layout, and a derived assembly that tiles the record streams back position by position.",
    "level_note": "Trusted: the ghost models of file iteration, bytes lines, io.BytesIO and re.finditer (listed under trusted_base) - their agreement with CPython is what the bounded tier checks on every run (all files with up to 3 records of up to 7-10 residues x 24 layouts x every buffer size against an independent faidx / tiling oracle); uniform line width within a record is needed only to read 'bytes per full line' as the length of every full line (the number stored is first-line residues + terminator width, as proved).",
    "lemmas": ["c04_random_access_layout", "c04_rows_tile_by_running_total", "c04_derived_assembly_streams_back"],
    "bounded": [("bounded.c04", {})],
    "trusted": FASTA_TRUSTED + INDEX_TRUSTED,
    "assumptions": ["well-formed FASTA as in the statement: starts with a header line, header lines have a name, the first sequence line of a record is not empty"],
    "explanation": "indexing pass and random access proved over ghost models of the file; bounded exhaustive cross-check",
}

NOT_APPLICABLE = {}
