"""python -m vcheck.baseline: record, for every function under contract, a hash of its text (ast.unparse, so layout and
comments do not count) on the tree the contracts were written and discharged against.  The checks use it for one
thing only: an obligation that is not discharged is reported as the *violated* obligation (rather than as undecided)
only if the text of its function differs from this record - on an unchanged function a solver timeout can never
turn into an alarm."""

import ast
import hashlib
import json
import os

HERE = os.path.dirname(os.path.dirname(os.path.abspath(__file__)))


def current():
    import specs  # noqa: F401
    from pyvc import source
    from pyvc.spec import REGISTRY

    out = {}
    for q, c in REGISTRY.items():
        if c.status != "PROVE":
            continue
        try:
            mi, fn = source.find_function(q)
        except KeyError:
            continue
        out[q] = hashlib.sha256(ast.unparse(fn).encode()).hexdigest()[:16]
    return out


if __name__ == "__main__":
    import subprocess

    d = {"repo_commit": subprocess.run(["git", "-C", os.environ.get("VERIF_REPO") or "/repo", "rev-parse", "HEAD"], capture_output=True, text=True).stdout.strip(),
         "functions": current()}
    with open(os.path.join(HERE, "baseline", "functions.json"), "w") as fh:
        json.dump(d, fh, indent=1, sort_keys=True)
    print(f"baseline/functions.json: {len(d['functions'])} functions at {d['repo_commit'][:8]}")
