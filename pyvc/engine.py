"""
pyvc engine: forward symbolic execution of the real Python AST with loop cutting by
sidecar invariants and modular calls (a caller sees a callee's contract only).

Result of an expression evaluation: a list of (state, Val); exceptional continuations
are appended to an accumulator `exc` as Outcome('raise', state, exception name).
"""

import ast
import inspect

import z3

from . import smt, source
from .spec import (
    _plus,
    _minus,
    CLASSES,
    NS,
    REGISTRY,
    LoopSpec,
    SpecInapplicable,
    class_map,
    conj,
    dict_maps,
    field_map,
    field_owner,
    find_contract,
    list_maps,
    set_list,
    set_maps,
    subclasses,
    class_mro,
    unview,
    view,
    ObjView,
    RowView,
    ListView,
    OptView,
    DictView,
    SetView,
)
from .values import (
    BYTES,
    LINE,
    SPAN,
    TLine,
    BOOL,
    FRAG,
    GAP,
    INT,
    NONE,
    NONE_VAL,
    REAL,
    ROW,
    STR,
    STRSEQ,
    STRLIST,
    TStrList,
    TMatch,
    Frame,
    State,
    TConst,
    TDict,
    TFunc,
    TList,
    TOpt,
    TRef,
    TRow,
    TSet,
    TTuple,
    Val,
    fresh_val,
    mk_bool,
    mk_int,
    mk_str,
    pack,
    sort_key,
    unpack,
)


class OutOfSubset(Exception):
    """the function uses a construct the engine does not model: undecided, never a violation"""


class Outcome:
    __slots__ = ("kind", "st", "val")

    def __init__(self, kind, st, val=None):
        self.kind = kind  # normal | break | continue | return | raise | genbreak
        self.st = st
        self.val = val


class Obligation:
    def __init__(self, fn, name, kind, pc, goal, line, axioms=None):
        self.fn = fn
        self.name = name
        self.kind = kind
        self.pc = list(pc)
        self.goal = goal
        self.line = line
        self.verdict = None
        self.axioms = axioms

    def key(self):
        return f"{self.fn}::{self.name}"


def to_val(ty, x, st=None):
    """spec-side value (view / raw z3 / python literal) -> Val of type ty"""
    if isinstance(x, Val):
        return x
    if isinstance(ty, TTuple) and isinstance(x, tuple):
        return Val(ty, tuple(to_val(t, xi) for t, xi in zip(ty.elems, x)))
    if x is None:
        return NONE_VAL
    if isinstance(x, bool):
        return mk_bool(x)
    if isinstance(x, int):
        return mk_int(x)
    if isinstance(x, str):
        return mk_str(x)
    return Val(ty, unview(x))


MUTATING_LIST_METHODS = {"append", "pop", "extend", "remove", "sort", "insert", "clear"}


class Engine:
    def __init__(self, opts=None):
        self.opts = opts or {}
        self.obligations = []
        self.fn = None  # contract under verification
        self.discovery = 0  # >0: dry run (no obligations recorded)
        self.disc_locals = None
        self.disc_maps = None
        self.disc_refs = None
        self.loop_ids = {}  # id(ast loop) -> ordinal
        self.warnings = []
        self.prune_ms = self.opts.get("prune_ms", 600)
        self.mi = None
        self.axioms = None
        self.inline_stack = []
        self.pre_ns = None

    # ------------------------------------------------------------------
    # obligations

    def oblige(self, st, name, kind, goal, line):
        if self.discovery:
            return
        if isinstance(goal, bool):
            goal = z3.BoolVal(goal)
        if z3.is_true(goal):
            return
        self.obligations.append(Obligation(self.fn.short, f"{kind}:{name}@L{line}", kind, st.pc, goal, line, self.axioms))

    def feasible(self, st, extra=None):
        pc = st.pc + ([extra] if extra is not None else [])
        return smt.feasible(pc, self.prune_ms)

    def guard(self, st, exc, excname, safe, what, line):
        """operation that raises `excname` unless `safe`: fork an exceptional outcome when
        that is (possibly) feasible, and continue on the safe path."""
        if isinstance(safe, bool):
            safe = z3.BoolVal(safe)
        if z3.is_true(safe):
            return st
        bad = z3.Not(safe)
        if self.feasible(st, bad):
            s2 = st.clone()
            s2.assume(bad)
            s2.ghost["raise_site"] = f"{what}@L{line}"
            exc.append(Outcome("raise", s2, excname))
        st.assume(safe)
        return st

    # ------------------------------------------------------------------
    # truthiness

    def truth(self, st, v):
        ty = v.ty
        if ty == BYTES:
            return v.z[2].z > 0
        if isinstance(ty, TMatch):
            kind, _, pattern = v.z[0].partition(":")
            if kind == "fullmatch":
                # exact: the subject is in the language of the pattern (ASCII reading of the classes)
                from . import regex

                try:
                    return z3.InRe(v.z[1], regex.to_z3(pattern)[0])
                except regex.Unsupported:
                    pass
            return smt.bool_fn(f"re.match({v.z[0]!r})")(v.z[1])
        if ty == BOOL:
            return v.z
        if ty == INT:
            return v.z != 0
        if ty == REAL:
            return v.z != 0
        if ty == STR:
            return z3.Length(v.z) > 0
        if ty == NONE:
            return z3.BoolVal(False)
        if isinstance(ty, TRef) and self.defines_truthiness(ty.cls):
            raise OutOfSubset(f"truthiness of a {ty.cls} object: the class (or a subclass) defines __len__ / __bool__")
        if isinstance(ty, (TRow, TRef, TFunc, TConst)):
            return z3.BoolVal(True)
        if isinstance(ty, TList):
            lv = ListView(st, v.z, ty.elem)
            return lv.len > 0
        if isinstance(ty, TTuple):
            return z3.BoolVal(len(v.z) > 0)
        if ty == BYTES:
            return v.z[2].z > 0
        if ty in (STRSEQ, STRLIST):
            return z3.Length(v.z) > 0
        if isinstance(ty, TOpt):
            ov = OptView(st, v.z, ty.inner)
            inner = unpack(ty.inner, TOpt(ty.inner).sort().val(v.z))
            return z3.And(z3.Not(ov.is_none), self.truth(st, inner))
        if isinstance(ty, TDict):
            size = st.hmap(f"DSZ.{sort_key(ty.key)}.{sort_key(ty.val)}", smt.Int, smt.Int)
            return size[v.z] > 0
        if isinstance(ty, TSet):
            size = st.hmap(f"SSZ.{sort_key(ty.elem)}", smt.Int, smt.Int)
            return size[v.z] > 0
        raise OutOfSubset(f"truthiness of {ty}")

    def defines_truthiness(self, cls):
        """objects are truthy unless their class says otherwise: looked up in the real source on every run"""
        for c in set(subclasses(cls)) | set(class_mro(cls)):
            for modname in CLASS_MODULES.get(c, []):
                try:
                    mi = source.load(modname)
                except Exception:
                    continue
                if f"{c}.__len__" in mi.functions or f"{c}.__bool__" in mi.functions:
                    return True
        return False

    def fork(self, st, cond, line=None):
        """[(state, True/False)] for the feasible sides of cond"""
        cond = z3.simplify(cond)
        if z3.is_true(cond):
            return [(st, True)]
        if z3.is_false(cond):
            return [(st, False)]
        out = []
        if self.feasible(st, cond):
            s1 = st.clone()
            s1.assume(cond)
            if line:
                s1.trace.append(f"L{line}:T")
            out.append((s1, True))
        ncond = z3.Not(cond)
        if self.feasible(st, ncond):
            s2 = st.clone()
            s2.assume(ncond)
            if line:
                s2.trace.append(f"L{line}:F")
            out.append((s2, False))
        return out

    # ------------------------------------------------------------------
    # names

    def resolve_global(self, name, mi):
        if name in mi.classes or name in ("Fragment", "Gap", "Scaffold", "OverlapResult", "Assembly", "IndexedAssembly", "FoundFragment", "BytesIO", "ChrNamer", "StartOverhangPremise", "EndOverhangPremise"):
            return Val(TConst(), ("class", name))
        if name in mi.imports:
            tgt = mi.imports[name]
            last = tgt.split(".")[-1]
            if last and last[0].isupper():
                return Val(TConst(), ("class", last))
            if tgt in ("re", "math", "logging", "io", "sys", "os", "string", "textwrap", "click", "yaml", "time"):
                return Val(TConst(), ("module", tgt))
            return Val(TConst(), ("func", tgt))
        if name in mi.functions:
            return Val(TConst(), ("func", f"{mi.modname}.{name}"))
        if name in mi.consts:
            return Val(TConst(), ("const", mi.modname, name))
        if name in BUILTIN_NAMES:
            return Val(TConst(), ("builtin", name))
        return None

    # ------------------------------------------------------------------
    # expressions

    def ev(self, e, st, exc):
        m = getattr(self, "ev_" + type(e).__name__, None)
        if m is None:
            raise OutOfSubset(f"expression {type(e).__name__} at L{getattr(e, 'lineno', '?')}")
        return m(e, st, exc)

    def ev_seq(self, exprs, st, exc):
        """evaluate left to right: list of (state, [vals])"""
        results = [(st, [])]
        for e in exprs:
            nxt = []
            for s, vals in results:
                for s2, v in self.ev(e, s, exc):
                    nxt.append((s2, vals + [v]))
            results = nxt
        return results

    def ev_Constant(self, e, st, exc):
        c = e.value
        if isinstance(c, bool):
            return [(st, mk_bool(c))]
        if isinstance(c, int):
            return [(st, mk_int(c))]
        if isinstance(c, str):
            return [(st, mk_str(c))]
        if c is None:
            return [(st, NONE_VAL)]
        if isinstance(c, float):
            return [(st, Val(REAL, z3.RealVal(repr(c))))]
        if isinstance(c, bytes):
            # bytes values are abstract: (kind, first, n); kind 1 = a run of one filler character,
            # kind 3 = line terminator (see specs/fasta.py)
            if c and set(c) <= set(b"\r\n"):
                return [(st, bytes_val(3, 0, len(c)))]
            if len(set(c)) <= 1:
                return [(st, bytes_val(1, 0, len(c)))]
            # any other bytes literal (a regular expression, ...): python-side constant, meaningful only to the
            # library model that receives it
            return [(st, Val(TConst(), ("bytes", c)))]
        raise OutOfSubset(f"constant {c!r}")

    def ev_Name(self, e, st, exc):
        v = st.lookup(e.id)
        if v is not None and isinstance(v.ty, (TList, TOpt)):
            self.note_list(st, v)
        if v is None:
            v = self.resolve_global(e.id, self.cur_mi(st))
        if v is None:
            raise OutOfSubset(f"unknown name {e.id} at L{e.lineno}")
        return [(st, v)]

    def note_list(self, s, v):
        """representation invariant of the list model: the window is never negative (every list
        operation keeps it: pop is guarded by non-emptiness)"""
        ty = v.ty
        if isinstance(ty, TOpt) and isinstance(ty.inner, TList):
            S = ty.sort()
            lv = ListView(s, S.val(v.z), ty.inner.elem)
            s.assume(z3.Implies(v.z != S.none, lv.lo <= lv.hi))
        elif isinstance(ty, TList):
            lv = ListView(s, v.z, ty.elem)
            s.assume(lv.lo <= lv.hi)

    def cur_mi(self, st):
        fr = st.frames[st.cur]
        return fr.func[0] if fr.func else self.mi

    def ev_Tuple(self, e, st, exc):
        out = []
        starred = [isinstance(x, ast.Starred) for x in e.elts]
        exprs = [x.value if isinstance(x, ast.Starred) else x for x in e.elts]
        for s, vals in self.ev_seq(exprs, st, exc):
            if any(starred):
                # ("Cut", *tags): a tuple of str built from single strings and str sequences
                seq = None
                for v, star in zip(vals, starred):
                    if star and v.ty == STRSEQ:
                        part = v.z
                    elif not star and v.ty == STR:
                        part = z3.Unit(v.z)
                    else:
                        raise OutOfSubset("starred tuple display other than str sequences")
                    seq = part if seq is None else z3.Concat(seq, part)
                out.append((s, Val(STRSEQ, seq)))
            else:
                out.append((s, Val(TTuple([v.ty for v in vals]), tuple(vals))))
        return out

    def ev_GeneratorExp(self, e, st, exc):
        # (x for x in <tuple of str> if x != "<const>"): the subsequence without that string
        if len(e.generators) == 1 and isinstance(e.elt, ast.Name):
            g = e.generators[0]
            if (
                isinstance(g.target, ast.Name)
                and g.target.id == e.elt.id
                and len(g.ifs) == 1
                and isinstance(g.ifs[0], ast.Compare)
                and isinstance(g.ifs[0].ops[0], ast.NotEq)
                and isinstance(g.ifs[0].left, ast.Name)
                and g.ifs[0].left.id == e.elt.id
                and isinstance(g.ifs[0].comparators[0], ast.Constant)
                and isinstance(g.ifs[0].comparators[0].value, str)
            ):
                out = []
                for s, src in self.ev(g.iter, st, exc):
                    if src.ty != STRSEQ:
                        raise OutOfSubset("generator expression over a non-str sequence")
                    r = smt.fresh("filtered", smt.StrSeq)
                    drop = z3.StringVal(g.ifs[0].comparators[0].value)
                    # trusted builtin axiom: order-preserving filter (only what the contracts use)
                    s.assume(z3.Not(z3.Contains(r, z3.Unit(drop))))
                    s.assume(z3.Length(r) <= z3.Length(src.z))
                    s.assume(z3.Implies(z3.Not(z3.Contains(src.z, z3.Unit(drop))), r == src.z))
                    out.append((s, Val(STRSEQ, r)))
                return out
        raise OutOfSubset(f"generator expression at L{e.lineno}")

    def ev_JoinedStr(self, e, st, exc):
        inner = [v.value for v in e.values if isinstance(v, ast.FormattedValue)]
        plain = all(v.format_spec is None and v.conversion == -1 for v in e.values if isinstance(v, ast.FormattedValue))
        out = []
        has_text = any(isinstance(v, ast.Constant) and v.value for v in e.values)
        if plain:
            # f"{a}:{b}" without format specs: exactly the concatenation of str() of the parts (when those
            # are strings or ints; anything else makes the text opaque)
            for s, vals in self.ev_seq(inner, st, exc):
                if all(v.ty in (STR, INT) for v in vals):
                    it = iter(vals)
                    parts = []
                    for piece in e.values:
                        if isinstance(piece, ast.Constant):
                            parts.append(z3.StringVal(piece.value))
                        else:
                            v = next(it)
                            parts.append(v.z if v.ty == STR else int_to_str(v.z))
                    out.append((s, mk_str(parts[0] if len(parts) == 1 else z3.Concat(*parts))))
                else:
                    r = smt.fresh("fstr", smt.Str)
                    if has_text:
                        s.assume(z3.Length(r) > 0)
                    out.append((s, Val(STR, r)))
            return out
        # f-string with format specs: evaluate the embedded expressions for their safety obligations only
        for s, _ in self.ev_seq(inner, st, exc):
            r = smt.fresh("fstr", smt.Str)
            if has_text:
                s.assume(z3.Length(r) > 0)
            out.append((s, Val(STR, r)))
        return out

    def ev_UnaryOp(self, e, st, exc):
        out = []
        for s, v in self.ev(e.operand, st, exc):
            if isinstance(e.op, ast.Not):
                out.append((s, mk_bool(z3.Not(self.truth(s, v)))))
            elif isinstance(e.op, ast.USub):
                if v.ty not in (INT, REAL):
                    raise OutOfSubset("unary minus on non-number")
                out.append((s, Val(v.ty, -v.z)))
            else:
                raise OutOfSubset("unary op")
        return out

    def divmod_w(self, st, a, b):
        """witness encoding of floor division (q, r) with a == b*q + r"""
        return smt.define_divmod(a, b)

    def ev_BinOp(self, e, st, exc):
        out = []
        for s, (a, b) in self.ev_seq([e.left, e.right], st, exc):
            out.append((s, self.binop(s, e.op, a, b, exc, e.lineno)))
        return out

    def unopt_number(self, s, v, exc, what, line):
        """an Optional number used as an arithmetic / ordering operand: TypeError when it is None"""
        if isinstance(v.ty, TOpt) and v.ty.inner in (INT, REAL):
            S = v.ty.sort()
            self.guard(s, exc, "TypeError", v.z != S.none, f"None as operand of {what}", line)
            return Val(v.ty.inner, z3.simplify(S.val(v.z)))
        if v.ty == NONE:
            s2 = s.clone()
            s2.ghost["raise_site"] = f"None as operand of {what}@L{line}"
            exc.append(Outcome("raise", s2, "TypeError"))
            s.assume(z3.BoolVal(False))
            return mk_int(0)
        return v

    def binop(self, s, op, a, b, exc, line):
        if (isinstance(a.ty, TOpt) or a.ty == NONE or isinstance(b.ty, TOpt) or b.ty == NONE) and not (a.ty == STR or b.ty == STR):
            a = self.unopt_number(s, a, exc, type(op).__name__, line)
            b = self.unopt_number(s, b, exc, type(op).__name__, line)
        if a.ty == INT and b.ty == INT:
            if isinstance(op, ast.Add):
                return mk_int(a.z + b.z)
            if isinstance(op, ast.Sub):
                return mk_int(a.z - b.z)
            if isinstance(op, ast.Mult):
                return mk_int(a.z * b.z)
            if isinstance(op, (ast.FloorDiv, ast.Mod)):
                self.guard(s, exc, "ZeroDivisionError", b.z != 0, "division", line)
                q, r = self.divmod_w(s, a.z, b.z)
                return mk_int(q if isinstance(op, ast.FloorDiv) else r)
            if isinstance(op, ast.Div):
                self.guard(s, exc, "ZeroDivisionError", b.z != 0, "division", line)
                return Val(REAL, z3.ToReal(a.z) / z3.ToReal(b.z))
        if a.ty in (INT, REAL) and b.ty in (INT, REAL):
            az = z3.ToReal(a.z) if a.ty == INT else a.z
            bz = z3.ToReal(b.z) if b.ty == INT else b.z
            if isinstance(op, ast.Add):
                return Val(REAL, az + bz)
            if isinstance(op, ast.Sub):
                return Val(REAL, az - bz)
            if isinstance(op, ast.Mult):
                return Val(REAL, az * bz)
            if isinstance(op, ast.Div):
                self.guard(s, exc, "ZeroDivisionError", bz != 0, "division", line)
                return Val(REAL, az / bz)
        if a.ty == STR and b.ty == STR and isinstance(op, ast.Add):
            return mk_str(z3.Concat(a.z, b.z))
        if a.ty == BYTES and b.ty == INT and isinstance(op, ast.Mult):
            kind, first, n = a.z
            # only runs of one filler character can be repeated in the abstract bytes model
            self.oblige(s, "bytes-repetition-of-a-filler-run", "safety", kind.z == 1, line)
            s.assume(kind.z == 1)
            return Val(BYTES, (kind, first, mk_int(z3.If(b.z < 0, 0, n.z * b.z))))
        raise OutOfSubset(f"binary op {type(op).__name__} on {a.ty},{b.ty} at L{line}")

    def ev_BoolOp(self, e, st, exc):
        # value semantics with short circuit: fork on the truthiness of each operand
        is_and = isinstance(e.op, ast.And)
        results = []
        pending = [(st, 0)]
        while pending:
            s, i = pending.pop()
            for s2, v in self.ev(e.values[i], s, exc):
                if i == len(e.values) - 1:
                    results.append((s2, v))
                    continue
                t = self.truth(s2, v)
                for s3, side in self.fork(s2, t, e.lineno):
                    if side == is_and:
                        pending.append((s3, i + 1))
                    else:
                        results.append((s3, v))
        return results

    def ev_IfExp(self, e, st, exc):
        out = []
        for s, c in self.ev(e.test, st, exc):
            for s2, side in self.fork(s, self.truth(s, c), e.lineno):
                out.extend(self.ev(e.body if side else e.orelse, s2, exc))
        return out

    def ev_NamedExpr(self, e, st, exc):
        out = []
        for s, v in self.ev(e.value, st, exc):
            self.assign_name(s, e.target.id, v)
            out.append((s, v))
        return out

    def ev_Lambda(self, e, st, exc):
        return [(st, Val(TFunc(), ("lambda", e, st.cur, self.cur_mi(st))))]

    def ev_Compare(self, e, st, exc):
        out = []
        for s, vals in self.ev_seq([e.left] + list(e.comparators), st, exc):
            conds = []
            for op, a, b in zip(e.ops, vals, vals[1:]):
                conds.append(self.compare(s, op, a, b, exc, e.lineno))
            out.append((s, mk_bool(z3.And(*conds) if len(conds) > 1 else conds[0])))
        return out

    def eq(self, s, a, b):
        """Python == as a formula"""
        if a.ty == BYTES or b.ty == BYTES:
            raise OutOfSubset("comparison of abstract bytes values")
        if a.ty == NONE or b.ty == NONE:
            return self.is_(s, a, b)
        if isinstance(a.ty, TRow) and isinstance(b.ty, TRow):
            # Fragment defines __eq__ over its slots, Gap does not
            ra, rb = RowView(a.z), RowView(b.z)
            return z3.If(z3.Or(ra.is_gap, rb.is_gap), a.z == b.z, z3.Or(a.z == b.z, ra.eqv(rb)))
        if isinstance(a.ty, TTuple) and isinstance(b.ty, TTuple):
            if len(a.z) != len(b.z):
                return z3.BoolVal(False)
            return z3.And(*[self.eq(s, x, y) for x, y in zip(a.z, b.z)]) if a.z else z3.BoolVal(True)
        if isinstance(a.ty, TOpt) or isinstance(b.ty, TOpt):
            if isinstance(a.ty, TOpt) and isinstance(b.ty, TOpt):
                return a.z == b.z
            o, x = (a, b) if isinstance(a.ty, TOpt) else (b, a)
            S = o.ty.sort()
            return z3.And(o.z != S.none, S.val(o.z) == pack(x, o.ty.inner))
        if a.ty in (INT, REAL) and b.ty in (INT, REAL) and a.ty != b.ty:
            az = z3.ToReal(a.z) if a.ty == INT else a.z
            bz = z3.ToReal(b.z) if b.ty == INT else b.z
            return az == bz
        if type(a.ty) is not type(b.ty) and not (isinstance(a.ty, TRef) and isinstance(b.ty, TRef)):
            if a.ty in (INT, BOOL) and b.ty in (INT, BOOL):
                az = z3.If(a.z, 1, 0) if a.ty == BOOL else a.z
                bz = z3.If(b.z, 1, 0) if b.ty == BOOL else b.z
                return az == bz
            return z3.BoolVal(False)
        return a.z == b.z

    def is_(self, s, a, b):
        if a.ty == NONE and b.ty == NONE:
            return z3.BoolVal(True)
        if a.ty == NONE or b.ty == NONE:
            o = b if a.ty == NONE else a
            if isinstance(o.ty, TOpt):
                return o.z == o.ty.sort().none
            return z3.BoolVal(False)
        if isinstance(a.ty, TOpt) or isinstance(b.ty, TOpt):
            return self.eq(s, a, b)
        if type(a.ty) is not type(b.ty):
            return z3.BoolVal(False)
        if isinstance(a.ty, TTuple):
            raise OutOfSubset("identity of tuples")
        return a.z == b.z

    def compare(self, s, op, a, b, exc, line):
        if isinstance(op, ast.Eq):
            return self.eq(s, a, b)
        if isinstance(op, ast.NotEq):
            return z3.Not(self.eq(s, a, b))
        if isinstance(op, ast.Is):
            return self.is_(s, a, b)
        if isinstance(op, ast.IsNot):
            return z3.Not(self.is_(s, a, b))
        if isinstance(op, (ast.Lt, ast.LtE, ast.Gt, ast.GtE)):
            if isinstance(a.ty, TOpt) or isinstance(b.ty, TOpt):
                a = self.unopt_number(s, a, exc, "comparison", line)
                b = self.unopt_number(s, b, exc, "comparison", line)
            if a.ty in (INT, REAL) and b.ty in (INT, REAL):
                az, bz = a.z, b.z
                if a.ty != b.ty:
                    az = z3.ToReal(az) if a.ty == INT else az
                    bz = z3.ToReal(bz) if b.ty == INT else bz
                return {ast.Lt: az < bz, ast.LtE: az <= bz, ast.Gt: az > bz, ast.GtE: az >= bz}[type(op)]
            raise OutOfSubset(f"ordering of {a.ty},{b.ty} at L{line}")
        if isinstance(op, (ast.In, ast.NotIn)):
            f = self.contains(s, b, a, line)
            return f if isinstance(op, ast.In) else z3.Not(f)
        raise OutOfSubset("comparison op")

    def contains(self, s, container, item, line):
        ty = container.ty
        if ty == BYTES:
            raise OutOfSubset(f"membership in an abstract bytes value at L{line}")
        if isinstance(ty, TTuple):
            return z3.Or(*[self.eq(s, item, x) for x in container.z]) if container.z else z3.BoolVal(False)
        if ty == STRSEQ and item.ty == STR:
            return z3.Contains(container.z, z3.Unit(item.z))
        if isinstance(ty, TSet):
            return SetView(s, container.z, ty.elem).has(pack(item, ty.elem))
        if isinstance(ty, TDict):
            return DictView(s, container.z, ty.key, ty.val).has(pack(item, ty.key))
        if isinstance(ty, TConst) and container.z[0] == "strset":
            return z3.Or(*[item.z == z3.StringVal(x) for x in container.z[1]])
        raise OutOfSubset(f"membership in {ty} at L{line}")

    # -- attributes

    def ev_Attribute(self, e, st, exc):
        out = []
        for s, recv in self.ev(e.value, st, exc):
            out.extend(self.get_attr(s, recv, e.attr, exc, e.lineno))
        return out

    ROW_SLOTS = {
        "_name": (STR, smt.fname),
        "_start": (INT, smt.fstart),
        "_end": (INT, smt.fend),
        "_strand": (INT, smt.fstrand),
        "_tags": (STRSEQ, smt.ftags),
        "_length": (INT, smt.rlen),
        "_gap_type": (STR, smt.gtype),
    }

    def get_attr(self, s, recv, attr, exc, line):
        ty = recv.ty
        if isinstance(ty, TRow):
            init = s.ghost.get("init_row")
            if attr in self.ROW_SLOTS:
                t, fn = self.ROW_SLOTS[attr]
                if init is not None and init[0] is recv.z or (init is not None and init[0].eq(recv.z)):
                    if attr not in init[1]:
                        raise OutOfSubset(f"read of unset slot {attr}")
                    return [(s, init[1][attr])]
                if attr in ("_length", "_gap_type"):
                    self.guard(s, exc, "AttributeError", smt.isgap(recv.z), f"{attr} of Fragment", line)
                else:
                    self.guard(s, exc, "AttributeError", z3.Not(smt.isgap(recv.z)), f"{attr} of Gap", line)
                return [(s, Val(t, fn(recv.z)))]
            if attr == "__class__":
                return [(s, Val(TConst(), ("class", "Fragment" if ty.known != "gap" else "Gap")))]
            if attr == "STRAND_STR":
                return [(s, self.class_const(s, "tola.assembly.fragment", "Fragment.STRAND_STR", exc))]
            # property / method of Fragment or Gap: by contract
            return self.row_member(s, recv, attr, exc, line)
        if isinstance(ty, TRef):
            if ty.cls == "TextOut" and attr == "write":
                return [(s, Val(TFunc(), ("textout-write", recv)))]
            con = find_contract(ty.cls, attr)
            # dynamic dispatch: a subclass may override the member (Scaffold.length / OverlapResult.length)
            over = {}
            for c in subclasses(ty.cls):
                cc = find_contract(c, attr)
                if c != ty.cls and cc is not None and cc is not con:
                    over.setdefault(id(cc), (cc, []))[1].append(c)
            if con is not None and over and not getattr(self, "_no_dispatch", False) and not getattr(ty, "exact", False):
                cm = class_map(s)
                alts = list(over.values())
                if con.kind == "property" and con.pure is not None and all(cc.kind == "property" and cc.pure is not None for cc, _ in alts):
                    # pure properties: one conditional value, no fork
                    base = self.call_contract(con, {"self": recv}, s, exc, line)
                    (s1, val) = base[0]
                    z = pack(val)
                    for cc, classes in alts:
                        sub = Val(TRef(classes[0]), recv.z)
                        (s1, v2) = self.call_contract(cc, {"self": sub}, s1, exc, line)[0]
                        z = z3.If(z3.Or(*[cm[recv.z] == CLASSES[c]["id"] for c in classes]), pack(v2), z)
                    return [(s1, unpack(val.ty, z))]
                out = []
                rest = z3.BoolVal(True)
                for cc, classes in alts:
                    cond = z3.Or(*[cm[recv.z] == CLASSES[c]["id"] for c in classes])
                    rest = z3.And(rest, z3.Not(cond))
                    for s2, side in self.fork(s, cond, line):
                        if side:
                            out.extend(self.get_attr(s2, Val(TRef(classes[0]), recv.z), attr, exc, line))
                for s2, side in self.fork(s, rest, line):
                    if side:
                        self._no_dispatch = True
                        try:
                            out.extend(self.get_attr(s2, recv, attr, exc, line))
                        finally:
                            self._no_dispatch = False
                return out
            if con is not None and con.kind == "property":
                return self.call_contract(con, {"self": recv}, s, exc, line)
            inl = self.inlined_method(ty.cls, attr)
            if inl is not None:
                return [(s, Val(TFunc(), ("inline", inl[0], inl[1], recv)))]
            if con is not None:
                return [(s, Val(TFunc(), ("bound", con, recv)))]
            if attr == "__class__":
                return [(s, Val(TConst(), ("class", ty.cls)))]
            for c in [ty.cls] + CLASSES[ty.cls]["bases"]:
                for modname in CLASS_MODULES.get(c, []):
                    if f"{c}.{attr}" in source.load(modname).class_consts:
                        return [(s, self.class_const(s, modname, f"{c}.{attr}", exc))]
            owner = field_owner(ty.cls, attr)
            if owner is None:
                # dynamic dispatch: the member is defined by the subclasses only - one path per subclass that has it
                subs = [c for c in subclasses(ty.cls) if c != ty.cls and find_contract(c, attr) is not None and not [d for d in subclasses(c) if d != c]]
                if subs:
                    out = []
                    for c in subs:
                        for s2, side in self.fork(s, class_map(s)[recv.z] == CLASSES[c]["id"], line):
                            if side:
                                out.extend(self.get_attr(s2, Val(TRef(c), recv.z), attr, exc, line))
                    return out
                raise OutOfSubset(f"attribute {ty.cls}.{attr} at L{line}")
            _, m, fty = field_map(s, ty.cls, attr)
            v = unpack(fty, z3.simplify(m[recv.z]))
            self.note_list(s, v)
            return [(s, v)]
        if isinstance(ty, TConst) and recv.z[0] == "pydict":
            return [(s, Val(TFunc(), ("method", recv, attr)))]
        if isinstance(ty, TMatch) or ty == LINE or ty == SPAN or (isinstance(ty, TConst) and recv.z[0].startswith("linetail")):
            return [(s, Val(TFunc(), ("method", recv, attr)))]
        if isinstance(ty, TConst):
            kind = recv.z[0]
            if kind == "module":
                return [(s, Val(TConst(), ("modattr", recv.z[1], attr)))]
            if kind == "class":
                key = f"{recv.z[1]}.{attr}"
                for modname in CLASS_MODULES.get(recv.z[1], []):
                    mi = source.load(modname)
                    if key in mi.class_consts:
                        return [(s, self.class_const(s, modname, key, exc))]
                    if key in mi.functions:
                        return [(s, Val(TConst(), ("func", f"{modname}.{key}")))]
                raise OutOfSubset(f"class attribute {key}")
        if isinstance(ty, (TList, TDict, TSet)) or ty in (STR, STRSEQ, STRLIST) or (isinstance(ty, TConst) and recv.z[0] == "pydict"):
            return [(s, Val(TFunc(), ("method", recv, attr)))]
        if isinstance(ty, TRef) and False:
            pass
        if isinstance(ty, TOpt):
            # attribute access on a maybe-None value: AttributeError when None
            ov = OptView(s, recv.z, ty.inner)
            self.guard(s, exc, "AttributeError", z3.Not(ov.is_none), f".{attr} on None", line)
            inner = unpack(ty.inner, TOpt(ty.inner).sort().val(recv.z))
            return self.get_attr(s, inner, attr, exc, line)
        if ty == NONE:
            s2 = s.clone()
            s2.ghost["raise_site"] = f".{attr} on None@L{line}"
            exc.append(Outcome("raise", s2, "AttributeError"))
            return []
        raise OutOfSubset(f"attribute .{attr} on {ty} at L{line}")

    def row_member(self, s, recv, attr, exc, line):
        known = recv.ty.known
        fcon = REGISTRY.get(f"tola.assembly.fragment.Fragment.{attr}")
        gcon = REGISTRY.get(f"tola.assembly.gap.Gap.{attr}")
        if known == "frag":
            cons = [(None, fcon)]
        elif known == "gap":
            cons = [(None, gcon)]
        else:
            cons = [(z3.Not(smt.isgap(recv.z)), fcon), (smt.isgap(recv.z), gcon)]
        out = []
        for cond, con in cons:
            if cond is not None:
                if not self.feasible(s, cond):
                    continue
                s1 = s.clone()
                s1.assume(cond)
            else:
                s1 = s
            if con is None:
                s1.ghost["raise_site"] = f".{attr} missing@L{line}"
                exc.append(Outcome("raise", s1, "AttributeError"))
                continue
            if con.kind == "property":
                out.extend(self.call_contract(con, {"self": recv}, s1, exc, line))
            else:
                out.append((s1, Val(TFunc(), ("bound", con, recv))))
        return out

    def class_const(self, s, modname, key, exc):
        mi = source.load(modname)
        node = mi.class_consts[key]
        return self.literal(node)

    def literal(self, node):
        """python-side constant from a literal AST (tuples / dicts / sets of constants)"""
        v = ast.literal_eval(node)
        return self.py_const(v)

    def py_const(self, v):
        if isinstance(v, bool):
            return mk_bool(v)
        if isinstance(v, int):
            return mk_int(v)
        if isinstance(v, str):
            return mk_str(v)
        if isinstance(v, tuple):
            vals = tuple(self.py_const(x) for x in v)
            return Val(TTuple([x.ty for x in vals]), vals)
        if isinstance(v, dict):
            return Val(TConst(), ("pydict", v))
        if isinstance(v, (set, frozenset)):
            return Val(TConst(), ("strset", tuple(sorted(v))))
        raise OutOfSubset(f"literal {v!r}")

    # -- subscripts

    def ev_Subscript(self, e, st, exc):
        out = []
        if isinstance(e.slice, ast.Slice):
            parts = [e.value] + [p for p in (e.slice.lower, e.slice.upper, e.slice.step) if p is not None]
            for s, vals in self.ev_seq(parts, st, exc):
                it = iter(vals[1:])
                lo = next(it) if e.slice.lower is not None else None
                hi = next(it) if e.slice.upper is not None else None
                step = next(it) if e.slice.step is not None else None
                out.append((s, self.slice(s, vals[0], lo, hi, step, e.lineno)))
            return out
        for s, (c, i) in self.ev_seq([e.value, e.slice], st, exc):
            out.extend(self.subscript(s, c, i, exc, e.lineno))
        return out

    def norm_index(self, s, i, n):
        iz = z3.simplify(i)
        if z3.is_int_value(iz):
            return (n + iz) if iz.as_long() < 0 else iz
        return z3.If(iz < 0, iz + n, iz)

    def subscript(self, s, c, i, exc, line):
        ty = c.ty
        if ty == BYTES:
            raise OutOfSubset(f"subscript of an abstract bytes value at L{line}")
        if ty == LINE and i.ty == INT:
            iz = z3.simplify(i.z)
            if z3.is_int_value(iz) and iz.as_long() == 0:
                self.guard(s, exc, "IndexError", smt.l_len(c.z) >= 1, "line[0]", line)
                return [(s, mk_int(smt.l_b0(c.z)))]
            if z3.is_int_value(iz) and iz.as_long() == -2:
                self.guard(s, exc, "IndexError", smt.l_len(c.z) >= 2, "line[-2]", line)
                return [(s, mk_int(smt.l_bm2(c.z)))]
            raise OutOfSubset(f"line[{iz}] at L{line}")
        if isinstance(ty, TConst) and c.z[0] == "linetail.split" and i.ty == INT and z3.is_int_value(z3.simplify(i.z)) and z3.simplify(i.z).as_long() == 0:
            # line[1:].split()[0]: IndexError when nothing follows the '>'
            self.guard(s, exc, "IndexError", smt.l_named(c.z[1].z), "line[1:].split()[0]", line)
            return [(s, Val(TConst(), ("linetail.split.0", c.z[1])))]
        if ty in (STRLIST, STRSEQ) and i.ty == INT:
            n = z3.Length(c.z)
            k = self.norm_index(s, i.z, n)
            self.guard(s, exc, "IndexError", z3.And(0 <= k, k < n), "sequence index", line)
            return [(s, mk_str(c.z[k]))]
        if isinstance(ty, TList) and i.ty == INT:
            lv = ListView(s, c.z, ty.elem)
            n = lv.len
            k = self.norm_index(s, i.z, n)
            self.guard(s, exc, "IndexError", z3.And(0 <= k, k < n), "list index", line)
            return [(s, unpack(ty.elem, lv.arr[_plus(lv.lo, k)]))]
        if isinstance(ty, TTuple) and i.ty == INT:
            iz = z3.simplify(i.z)
            n = len(c.z)
            if z3.is_int_value(iz):
                k = iz.as_long()
                if -n <= k < n:
                    return [(s, c.z[k])]
                s.ghost["raise_site"] = f"tuple index@L{line}"
                exc.append(Outcome("raise", s, "IndexError"))
                return []
            # symbolic index into a homogeneous constant tuple (STRAND_STR[row.strand])
            k = z3.If(iz < 0, iz + n, iz)
            self.guard(s, exc, "IndexError", z3.And(0 <= k, k < n), "tuple index", line)
            tys = {repr(x.ty) for x in c.z}
            if len(tys) != 1:
                raise OutOfSubset("symbolic index into heterogeneous tuple")
            r = pack(c.z[n - 1])
            for j in range(n - 2, -1, -1):
                r = z3.If(k == j, pack(c.z[j]), r)
            return [(s, Val(c.z[0].ty, r))]
        if isinstance(ty, TDict):
            dv = DictView(s, c.z, ty.key, ty.val)
            kz = pack(i, ty.key)
            self.guard(s, exc, "KeyError", dv.has(kz), "dict key", line)
            _, _, _, val = dict_maps(s, ty.key, ty.val)
            return [(s, unpack(ty.val, val[c.z][kz]))]
        if isinstance(ty, TConst) and c.z[0] == "pydict":
            d = c.z[1]
            keys = list(d)
            present = z3.Or(*[self.eq(s, i, self.py_const(k)) for k in keys])
            self.guard(s, exc, "KeyError", present, "dict key", line)
            vals = [self.py_const(d[k]) for k in keys]
            r = pack(vals[-1])
            for k, v in list(zip(keys, vals))[-2::-1]:
                r = z3.If(self.eq(s, i, self.py_const(k)), pack(v), r)
            return [(s, Val(vals[0].ty, r))]
        raise OutOfSubset(f"subscript of {ty} at L{line}")

    def slice(self, s, c, lo, hi, step, line):
        ty = c.ty
        if ty == LINE:
            if lo is not None and hi is None and step is None and z3.is_int_value(z3.simplify(lo.z)) and z3.simplify(lo.z).as_long() == 1:
                return Val(TConst(), ("linetail", c))
            raise OutOfSubset(f"slice of a file line at L{line}")
        if ty in (STRLIST, STRSEQ) and hi is None and step is None and lo is not None:
            # xs[k:] with a non-negative constant k
            kz = z3.simplify(lo.z)
            if z3.is_int_value(kz) and kz.as_long() >= 0:
                n = z3.Length(c.z)
                k = kz.as_long()
                return Val(ty, z3.If(n <= k, z3.Empty(smt.StrSeq), z3.SubSeq(c.z, k, n - k)))
            raise OutOfSubset("slice of a str sequence")
        if not isinstance(ty, TList):
            raise OutOfSubset(f"slice of {ty} at L{line}")
        lv = ListView(s, c.z, ty.elem)
        n = lv.len
        stepv = 1
        if step is not None:
            sz = z3.simplify(step.z)
            if not z3.is_int_value(sz) or sz.as_long() not in (1, -1):
                raise OutOfSubset("slice step")
            stepv = sz.as_long()

        def clamp(x, lo_b, hi_b):
            return z3.If(x < lo_b, lo_b, z3.If(x > hi_b, hi_b, x))

        new = s.new_ref()
        if stepv == 1:
            a = z3.IntVal(0) if lo is None else clamp(self.norm_index(s, lo.z, n), 0, n)
            b = n if hi is None else clamp(self.norm_index(s, hi.z, n), 0, n)
            b = z3.If(b < a, a, b)
            set_list(s, ty.elem, new, arr=lv.arr, lo=_plus(lv.lo, a), hi=_plus(lv.lo, b))
        else:
            # reversed copy: positions a, a-1, ..., b+1 (exclusive b)
            a = (n - 1) if lo is None else clamp(self.norm_index(s, lo.z, n), -1, n - 1)
            if hi is not None:
                raise OutOfSubset("reverse slice with stop")
            cnt = z3.If(a + 1 < 0, 0, a + 1)
            k = z3.Int("k!sl")
            arr = smt.fresh("revslice", z3.ArraySort(smt.Int, ty.elem.sort()))
            src_arr, src_lo = lv.arr, lv.lo
            s.assume(z3.ForAll([k], arr[k] == src_arr[_plus(src_lo, a) - k], patterns=[arr[k]]))
            set_list(s, ty.elem, new, arr=arr, lo=z3.IntVal(0), hi=cnt)
        return Val(ty, new)

    # -- containers

    def ev_List(self, e, st, exc):
        if e.elts and not (len(e.elts) == 1 and isinstance(e.elts[0], ast.Starred)):
            if self.hint_type(e, None) == STRLIST:
                out = []
                for s, vals in self.ev_seq(e.elts, st, exc):
                    if any(v.ty != STR for v in vals):
                        raise OutOfSubset("non-str element in a str list display")
                    seq = z3.Unit(vals[0].z)
                    for v in vals[1:]:
                        seq = z3.Concat(seq, z3.Unit(v.z))
                    out.append((s, Val(STRLIST, seq)))
                return out
            # [a, b, ...]: a new list holding the elements (all of one type)
            out = []
            for s, vals in self.ev_seq(e.elts, st, exc):
                hinted = self.hint_type(e, None)
                elem = hinted.elem if isinstance(hinted, TList) else vals[0].ty
                if any(type(v.ty) is not type(elem) for v in vals):
                    raise OutOfSubset("list display with elements of different types")
                new = s.new_ref()
                arr = smt.fresh("display", z3.ArraySort(smt.Int, elem.sort()))
                for i, v in enumerate(vals):
                    arr = z3.Store(arr, i, pack(v, elem))
                set_list(s, elem, new, arr=arr, lo=z3.IntVal(0), hi=z3.IntVal(len(vals)))
                out.append((s, Val(TList(elem), new)))
            return out
        out = []
        if not e.elts:
            elem = self.hint_type(e, TList(ROW)).elem
            new = st.new_ref()
            set_list(st, elem, new, lo=z3.IntVal(0), hi=z3.IntVal(0))
            return [(st, Val(TList(elem), new))]
        # [*xs]: a copy
        for s, v in self.ev(e.elts[0].value, st, exc):
            out.append((s, self.copy_list(s, v)))
        return out

    def copy_list(self, s, v):
        if isinstance(v.ty, TOpt) and isinstance(v.ty.inner, TList):
            s.assume(v.z != v.ty.sort().none)  # [*None] raises TypeError: callers test `if rows` first
            v = unpack(v.ty.inner, v.ty.sort().val(v.z))
        if not isinstance(v.ty, TList):
            raise OutOfSubset("copy of non-list")
        lv = ListView(s, v.z, v.ty.elem)
        arr, lo, hi = lv.arr, lv.lo, lv.hi
        new = s.new_ref()
        set_list(s, v.ty.elem, new, arr=arr, lo=lo, hi=hi)
        return Val(v.ty, new)

    def hint_type(self, node, default):
        """type of a container display, from the contract's local_types (keyed by the assigned name)"""
        lt = getattr(self.fn, "local_types", {}) or {}
        tgt = getattr(node, "_pyvc_target", None)
        if tgt and tgt in lt:
            return lt[tgt]
        if getattr(node, "_pyvc_type", None) is not None:
            return node._pyvc_type
        return default

    def ev_ListComp(self, e, st, exc):
        """[f(x) for x in xs]: a new list of the same length whose k-th element is f(xs[k]).  The element expression
        is evaluated once, on an arbitrary element (so its safety obligations hold for every element); it must have
        exactly one outcome and may not write to the heap."""
        if len(e.generators) != 1 or e.generators[0].ifs or e.generators[0].is_async or not isinstance(e.generators[0].target, ast.Name):
            raise OutOfSubset(f"list comprehension form at L{e.lineno}")
        g = e.generators[0]
        out = []
        for s, xs in self.ev(g.iter, st, exc):
            if not isinstance(xs.ty, TList):
                raise OutOfSubset(f"list comprehension over {xs.ty} at L{e.lineno}")
            src = ListView(s, xs.z, xs.ty.elem)
            n, sarr, slo = src.len, src.arr, src.lo
            k = z3.Int(f"k!comp{smt._fresh_n[0]}")
            smt._fresh_n[0] += 1
            s0 = s.clone()
            s0.assume(z3.And(0 <= k, k < n))
            fr = Frame(s0.cur, s0.frames[s0.cur].func)
            fr.vars[g.target.id] = unpack(xs.ty.elem, sarr[_plus(slo, k)])
            s0.frames.append(fr)
            s0.cur = len(s0.frames) - 1
            heap_before = dict(s0.heap)
            res = self.ev(e.elt, s0, exc)
            if len(res) != 1:
                raise OutOfSubset(f"list comprehension element with several outcomes at L{e.lineno}")
            s1, v = res[0]
            if any(not s1.heap[m].eq(heap_before[m]) for m in heap_before) or len(s1.heap) != len(heap_before) and any(m not in heap_before and not s1.heap[m].eq(z3.Const(f"{m}@0", s1.heap[m].sort())) for m in s1.heap):
                raise OutOfSubset(f"list comprehension element writes to the heap at L{e.lineno}")
            for m in s1.heap:
                s.heap.setdefault(m, s1.heap[m])
            ety = v.ty
            new = s.new_ref()
            arr = smt.fresh("comp", z3.ArraySort(smt.Int, ety.sort()))
            set_list(s, ety, new, arr=arr, lo=z3.IntVal(0), hi=n)
            s.assume(z3.ForAll([k], z3.Implies(z3.And(0 <= k, k < n), arr[k] == pack(v, ety)), patterns=[arr[k]]))
            out.append((s, Val(TList(ety), new)))
        return out

    def ev_Dict(self, e, st, exc):
        if e.keys:
            try:
                return [(st, self.literal(e))]
            except (ValueError, OutOfSubset):
                raise OutOfSubset("dict display with non-constant entries")
        ty = self.hint_type(e, None)
        if ty is None:
            raise OutOfSubset("untyped empty dict")
        new = st.new_ref()
        nh, has, nv, val = dict_maps(st, ty.key, ty.val)
        st.heap[nh] = z3.Store(has, new, z3.K(ty.key.sort(), z3.BoolVal(False)))
        szn = f"DSZ.{sort_key(ty.key)}.{sort_key(ty.val)}"
        st.heap[szn] = z3.Store(st.hmap(szn, smt.Int, smt.Int), new, z3.IntVal(0))
        return [(st, Val(ty, new))]

    # -- calls

    def ev_Call(self, e, st, exc):
        # generator expression arguments are handled by the builtin that consumes them
        if isinstance(e.func, ast.Name) and e.func.id in GENEXP_BUILTINS and e.args and isinstance(e.args[0], ast.GeneratorExp):
            return self.genexp_builtin(e, st, exc)
        if isinstance(e.func, ast.Attribute) and e.func.attr in ("join", "extend") and e.args and isinstance(e.args[0], ast.GeneratorExp):
            return self.genexp_method(e, st, exc)
        if isinstance(e.func, ast.Name) and e.func.id == "super":
            raise OutOfSubset("bare super()")
        if isinstance(e.func, ast.Attribute) and isinstance(e.func.value, ast.Call) and isinstance(e.func.value.func, ast.Name) and e.func.value.func.id == "super":
            return self.super_call(e, st, exc)
        out = []
        argexprs = [a.value if isinstance(a, ast.Starred) else a for a in e.args]
        starred = [isinstance(a, ast.Starred) for a in e.args]
        kwnames = [k.arg for k in e.keywords]
        if any(k is None for k in kwnames):
            raise OutOfSubset("**kwargs call")
        for s, vals in self.ev_seq([e.func] + argexprs + [k.value for k in e.keywords], st, exc):
            f = vals[0]
            pos = []
            for v, star in zip(vals[1 : 1 + len(argexprs)], starred):
                if star:
                    if not isinstance(v.ty, TTuple):
                        raise OutOfSubset("starred non-tuple argument")
                    pos.extend(v.z)
                else:
                    pos.append(v)
            kw = dict(zip(kwnames, vals[1 + len(argexprs) :]))
            out.extend(self.call(s, f, pos, kw, exc, e))
        return out

    def call(self, s, f, pos, kw, exc, node):
        line = node.lineno
        if isinstance(f.ty, TFunc):
            kind = f.z[0]
            if kind == "bound":
                _, con, recv = f.z
                args = self.bind_contract(con, [recv] + pos, kw, line)
                return self.call_contract(con, args, s, exc, line)
            if kind == "method":
                _, recv, name = f.z
                return self.builtin_method(s, recv, name, pos, kw, exc, node)
            if kind == "textout-write":
                # file.write(text): the text is appended to the ghost list of written chunks
                (x,) = pos
                if x.ty != STR:
                    raise OutOfSubset("write of non-str")
                recv = f.z[1]
                _, m, fty = field_map(s, "TextOut", "g_out")
                lst = Val(fty, m[recv.z])
                self.note_list(s, lst)
                return self.builtin_method(s, lst, "append", [x], {}, exc, node)
            if kind == "closure":
                return self.call_closure(s, f, pos, kw, exc, line)
            if kind == "inline":
                # a plain method the contract of the verified function asks to have executed in place (its loops are
                # specified there, under their own ordinals): same mechanism as a closure, with `self` bound
                _, mi, fn, recv = f.z
                return self.call_closure(s, Val(TFunc(), ("closure", fn, None, mi)), [recv] + pos, kw, exc, line)
            if kind == "lambda":
                return self.call_lambda(s, f, pos, kw, exc, line)
        if isinstance(f.ty, TConst):
            kind = f.z[0]
            if kind == "builtin":
                return self.builtin(s, f.z[1], pos, kw, exc, node)
            if kind == "class":
                return self.construct(s, f.z[1], pos, kw, exc, line)
            if kind == "func":
                con = REGISTRY.get(f.z[1])
                if con is None:
                    raise OutOfSubset(f"call of {f.z[1]} without contract at L{line}")
                args = self.bind_contract(con, pos, kw, line)
                return self.call_contract(con, args, s, exc, line)
            if kind == "modattr":
                return self.module_call(s, f.z[1], f.z[2], pos, kw, exc, node)
        raise OutOfSubset(f"call of {f.ty} {f.z if isinstance(f.ty, TConst) else ''} at L{line}")

    def signature(self, con):
        """(names, defaults{name: ast}) of the real function behind a contract"""
        try:
            mi, fn = source.find_function(con.qualname)
        except KeyError:
            return list(con.params), {}
        a = fn.args
        names = [x.arg for x in a.posonlyargs + a.args]
        defaults = {}
        for n, d in zip(names[len(names) - len(a.defaults) :], a.defaults):
            defaults[n] = d
        for x, d in zip(a.kwonlyargs, a.kw_defaults):
            names.append(x.arg)
            if d is not None:
                defaults[x.arg] = d
        return names, defaults

    def bind_contract(self, con, pos, kw, line):
        names, defaults = self.signature(con)
        args = {}
        if len(pos) > len(names):
            raise OutOfSubset(f"too many arguments for {con.short} at L{line}")
        for n, v in zip(names, pos):
            args[n] = v
        for k, v in kw.items():
            if k not in names:
                raise OutOfSubset(f"unknown keyword {k} for {con.short}")
            args[k] = v
        cdef = getattr(con, "defaults", None) or {}
        for n in names:
            if n not in args:
                if n in cdef:
                    args[n] = NONE_VAL if cdef[n] is None else self.py_const(cdef[n])
                    continue
                if n not in defaults:
                    raise OutOfSubset(f"missing argument {n} for {con.short} at L{line}")
                args[n] = self.default_value(defaults[n])
        return args

    def default_value(self, node):
        if isinstance(node, ast.Constant):
            return self.ev_Constant(node, None, None)[0][1]
        if isinstance(node, ast.Name) and node.id == "None":
            return NONE_VAL
        if isinstance(node, ast.Tuple) and not node.elts:
            return Val(STRSEQ, z3.Empty(smt.StrSeq))
        if isinstance(node, ast.UnaryOp) and isinstance(node.op, ast.USub) and isinstance(node.operand, ast.Constant):
            return mk_int(-node.operand.value)
        raise OutOfSubset(f"default value {ast.unparse(node)}")

    def coerce(self, s, v, ty, what, line, exc=None):
        """adapt an argument value to the parameter type declared by a contract"""
        if ty is None or v.ty == ty:
            return v
        if isinstance(ty, TOpt):
            if isinstance(v.ty, TOpt):
                return v
            return Val(ty, pack(v, ty))
        if isinstance(ty, TRow) and isinstance(v.ty, TRow):
            return Val(ty, v.z)
        if isinstance(ty, TRef) and isinstance(v.ty, TRef):
            if getattr(ty, "exact", False) and not getattr(v.ty, "exact", False):
                # the slot is declared to hold objects of exactly this class
                self.oblige(s, f"{what}: object of class {ty.cls} itself", "safety", class_map(s)[v.z] == CLASSES[ty.cls]["id"], line)
                return Val(ty, v.z)
            return v
        if ty == REAL and v.ty == INT:
            return Val(REAL, z3.ToReal(v.z))
        if ty == INT and v.ty == STR and what.split(".")[-1] in INT_COERCING_PARAMS:
            # the callee applies int() to this argument: succeeds on decimal strings (sufficient condition)
            if exc is None:
                raise OutOfSubset(f"argument {what}: str where int expected at L{line}")
            self.guard(s, exc, "ValueError", is_decimal(v.z), f"int() of {what}", line)
            return mk_int(z3.StrToInt(v.z))
        if isinstance(ty, TList) and isinstance(v.ty, TList) and sort_key(ty.elem) != sort_key(v.ty.elem):
            # an empty list display carries no element type of its own: it takes the one the slot declares
            lv = ListView(s, v.z, v.ty.elem)
            if z3.is_int_value(z3.simplify(lv.len)) and z3.simplify(lv.len).as_long() == 0:
                set_list(s, ty.elem, v.z, lo=z3.IntVal(0), hi=z3.IntVal(0))
                return Val(ty, v.z)
        if ty == STRSEQ and v.ty == STRLIST:
            return Val(STRSEQ, v.z)
        if isinstance(ty, TTuple) and isinstance(v.ty, TTuple) and isinstance(v.z, tuple) and len(v.z) == len(ty.elems):
            # element-wise; an Optional element stored where the declared type has none must not be None
            # (a restriction of the model, hence an obligation and not an exception of the program)
            parts = []
            for x, t in zip(v.z, ty.elems):
                if isinstance(x.ty, TOpt) and not isinstance(t, TOpt):
                    S = x.ty.sort()
                    self.oblige(s, f"{what}: element is not None", "safety", x.z != S.none, line)
                    s.assume(x.z != S.none)
                    x = unpack(x.ty.inner, z3.simplify(S.val(x.z)))
                parts.append(self.coerce(s, x, t, what, line, exc))
            return Val(ty, tuple(parts))
        if ty == STRSEQ and isinstance(v.ty, TTuple):
            seq = z3.Empty(smt.StrSeq)
            for x in v.z:
                if x.ty != STR:
                    raise OutOfSubset("non-str in tags tuple")
                seq = z3.Concat(seq, z3.Unit(x.z)) if not z3.is_app_of(seq, z3.Z3_OP_SEQ_EMPTY) else z3.Unit(x.z)
            return Val(STRSEQ, seq)
        if isinstance(v.ty, TOpt) and (v.ty.inner == ty or type(v.ty.inner) is type(ty)):
            if exc is None:
                raise OutOfSubset(f"argument {what}: Optional where {ty} expected at L{line}")
            self.guard(s, exc, "TypeError", v.z != v.ty.sort().none, f"None passed as {what}", line)
            return unpack(v.ty.inner, v.ty.sort().val(v.z))
        if type(ty) is type(v.ty):
            return v
        raise OutOfSubset(f"argument {what}: {v.ty} where {ty} expected at L{line}")

    def call_contract(self, con, args, s, exc, line):
        """modular call: assert requires, fork declared exceptions, havoc frame, assume ensures"""
        if self.discovery and con.modifies is not None:
            pass
        args = {k: self.coerce(s, v, con.params.get(k), f"{con.short}.{k}", line, exc) for k, v in args.items()}
        o = NS(s.clone(), args)
        if con.requires is not None:
            for label, f in conj(con.requires(o)):
                self.oblige(s, f"{con.short}.requires[{label}]", "pre", f, line)
                s.assume(f)
        if con.pure is not None:
            argviews = [view(o.state, args[k]) for k in args]
            r = con.pure(o, *argviews)
            return [(s, to_val(con.result, r))]
        for ename, cond in con.raises.items():
            if len(inspect.signature(cond).parameters) >= 2:
                # the condition speaks about the callee's locals at the raise: a caller only learns that the
                # exception is possible
                c = True
            else:
                c = cond(o)
            if isinstance(c, bool):
                c = z3.BoolVal(c)
            if not z3.is_false(c) and self.feasible(s, c):
                s2 = s.clone()
                s2.assume(c)
                self.apply_havoc(con, o, s2)
                s2.ghost["raise_site"] = f"{con.short}@L{line}"
                exc.append(Outcome("raise", s2, ename))
        self.apply_havoc(con, o, s)
        if con.fresh_result is not None:
            res = con.fresh_result(s, o)
        elif con.result is None or con.result == NONE:
            res = NONE_VAL
        else:
            res = fresh_val(f"res.{con.short}", con.result)
        if isinstance(res.ty, TList) and getattr(con, "result_zero_based", False):
            # the callee proves `res.lo == 0` (clause zero-based); recording it in the list map keeps the
            # element terms free of offset arithmetic
            set_list(s, res.ty.elem, res.z, lo=z3.IntVal(0))
        nvals = dict(args)
        for gname, gty in (getattr(con, "ghost_locals", None) or {}).items():
            nvals[gname] = fresh_val(f"{gname}.{con.short}", gty)
            # visible to the caller's own specification as `<ghost>@<callee>` (a witness it can name instead of
            # asking the solver to find one)
            s.frames[s.cur].vars[f"{gname}@{con.short}"] = nvals[gname]
        n = NS(s, nvals)
        if con.ensures is not None:
            for label, f in conj(con.ensures(o, n, view(s, res) if res.ty != NONE else None)):
                s.assume(f)
        if getattr(con, "zero_based", None) is not None:
            # lists the callee creates with a window starting at 0 (its proof shows `cond -> lo == 0`, clause
            # zero-based): recorded in the list map, so element terms stay free of offset arithmetic
            for cond, lv in con.zero_based(o, n, view(s, res) if res.ty != NONE else None):
                if z3.is_true(z3.simplify(cond)):
                    s.assume(ListView(s, lv.z, lv.elem).lo == 0)
                    set_list(s, lv.elem, lv.z, lo=z3.IntVal(0))
        return [(s, res)]

    def apply_havoc(self, con, o, s):
        if con.modifies is None:
            return
        for loc in con.modifies(o):
            self.havoc_loc(s, loc)

    def havoc_loc(self, s, loc):
        kind = loc[0]
        if kind == "field":
            _, cls, attr, ref = loc
            name, m, ty = field_map(s, cls, attr)
            fv = smt.fresh(f"hv.{attr}", ty.sort())
            if isinstance(ty, TRow) and ty.known:
                s.assume(smt.isgap(fv) if ty.known == "gap" else z3.Not(smt.isgap(fv)))
            s.heap[name] = z3.Store(m, unview(ref), fv)
            self.note_write(name, unview(ref))
        elif kind == "list":
            _, elem, ref = loc
            k = sort_key(elem)
            A, L, H = list_maps(s, elem)
            r = unview(ref)
            s.heap[f"LA.{k}"] = z3.Store(A, r, smt.fresh("hv.arr", z3.ArraySort(smt.Int, elem.sort())))
            s.heap[f"LLO.{k}"] = z3.Store(L, r, smt.fresh("hv.lo", smt.Int))
            s.heap[f"LHI.{k}"] = z3.Store(H, r, smt.fresh("hv.hi", smt.Int))
            for nm in (f"LA.{k}", f"LLO.{k}", f"LHI.{k}"):
                self.note_write(nm, r)
        elif kind == "list-append":
            # the list only grows at its end: content and upper end of the window change, its start does not
            # (the frame obligation of the callee proves that LLO is not written)
            _, elem, ref = loc
            k = sort_key(elem)
            A, L, H = list_maps(s, elem)
            r = unview(ref)
            s.heap[f"LA.{k}"] = z3.Store(A, r, smt.fresh("hv.arr", z3.ArraySort(smt.Int, elem.sort())))
            s.heap[f"LHI.{k}"] = z3.Store(H, r, smt.fresh("hv.hi", smt.Int))
            for nm in (f"LA.{k}", f"LHI.{k}"):
                self.note_write(nm, r)
        elif kind == "dict-maps":
            # all dictionaries of one key/value type may change (the ensures clause frames the others)
            _, kty, vty = loc
            nh, has, nv, val = dict_maps(s, kty, vty)
            szn = f"DSZ.{sort_key(kty)}.{sort_key(vty)}"
            size = s.hmap(szn, smt.Int, smt.Int)
            for nm, m in ((nh, has), (nv, val), (szn, size)):
                s.heap[nm] = smt.fresh(f"hv.{nm}", m.sort())
                self.note_write(nm)
        elif kind == "map":
            _, name = loc
            m = s.heap.get(name)
            if m is None and name.startswith("H.") and name.count(".") == 2 and not name.startswith("H.$"):
                # a field map the caller has not touched yet: materialise it, then havoc
                _, cls_, attr_ = name.split(".")
                m = field_map(s, cls_, attr_)[1]
            if m is None:
                from .values import MAP_SORTS

                if name not in MAP_SORTS:
                    raise OutOfSubset(f"havoc of unknown map {name}")
                m = s.hmap(name, *MAP_SORTS[name])
            s.heap[name] = smt.fresh(f"hv.{name}", m.sort())
            self.note_write(name)
        elif kind == "fresh-lists":
            # lists allocated by the callee: every list that existed before keeps its content
            _, elem = loc
            k = sort_key(elem)
            A, L, H = list_maps(s, elem)
            r = smt.fresh("r", smt.Int)
            for nm, old_m in ((f"LA.{k}", A), (f"LLO.{k}", L), (f"LHI.{k}", H)):
                new_m = smt.fresh(f"hv.{nm}", old_m.sort())
                s.assume(z3.ForAll([r], z3.Implies(r < s.alloc, new_m[r] == old_m[r])))
                s.heap[nm] = new_m
                self.note_write(nm, "fresh")
        elif kind == "fresh-objs":
            # fields of objects allocated by the callee: every object that existed before keeps them
            _, cls, attrs = loc
            r = smt.fresh("r", smt.Int)
            for attr in attrs:
                name, m, ty = field_map(s, cls, attr)
                new_m = smt.fresh(f"hv.{name}", m.sort())
                s.assume(z3.ForAll([r], z3.Implies(r < s.alloc, new_m[r] == m[r])))
                s.heap[name] = new_m
                self.note_write(name, "fresh")
            if cls is not None:
                cm = class_map(s)
                new_c = smt.fresh("hv.H.$class", cm.sort())
                s.assume(z3.ForAll([r], z3.Implies(r < s.alloc, new_c[r] == cm[r])))
                s.heap["H.$class"] = new_c
                self.note_write("H.$class", "fresh")
        elif kind == "alloc":
            a = smt.fresh("alloc", smt.Int)
            s.assume(a >= s.alloc)
            s.alloc = a
        elif kind == "ralloc":
            a = smt.fresh("ralloc", smt.Int)
            s.assume(a >= s.ralloc)
            s.ralloc = a
        else:
            raise OutOfSubset(f"havoc location {loc}")

    def note_write(self, mapname, ref=None):
        """ref: z3 term of the written reference, "fresh" for writes that only concern references
        allocated by the write itself, None when unknown"""
        if self.disc_maps is not None:
            self.disc_maps.add(mapname)
        if self.disc_refs is not None:
            self.disc_refs.setdefault(mapname, []).append(ref)

    # -- constructors

    def construct(self, s, cls, pos, kw, exc, line):
        if cls in ("Fragment", "Gap"):
            con = REGISTRY.get(f"tola.assembly.{'fragment' if cls == 'Fragment' else 'gap'}.{cls}.__init__")
            if con is None:
                raise OutOfSubset(f"no contract for {cls}.__init__")
            r = smt.fresh("new" + cls, smt.Row)
            self_v = Val(FRAG if cls == "Fragment" else GAP, r)
            s.assume(smt.isgap(r) if cls == "Gap" else z3.Not(smt.isgap(r)))
            if cls == "Fragment" and s.ralloc is not None:
                # a new Fragment object: distinct from every object that existed before
                # (Gap objects are memoised by Gap.__new__, so nothing is claimed about them)
                s.assume(smt.oid(r) == s.ralloc)
                s.ralloc = s.ralloc + 1
            args = self.bind_contract(con, [self_v] + pos, kw, line)
            out = []
            for s2, _ in self.call_contract(con, args, s, exc, line):
                out.append((s2, self_v))
            return out
        if cls in CLASSES:
            con = find_contract(cls, "__init__")
            if con is None:
                raise OutOfSubset(f"no contract for {cls}.__init__")
            ref = s.new_ref()
            cm = class_map(s)
            s.heap["H.$class"] = z3.Store(cm, ref, z3.IntVal(CLASSES[cls]["id"]))
            self_v = Val(TRef(cls, exact=True), ref)
            args = self.bind_contract(con, [self_v] + pos, kw, line)
            out = []
            for s2, _ in self.call_contract(con, args, s, exc, line):
                out.append((s2, self_v))
            return out
        raise OutOfSubset(f"constructor {cls} at L{line}")

    def super_call(self, e, st, exc):
        # super().__init__(...) : contract of the base class method on the same self
        meth = e.func.attr
        selfv = st.lookup("self")
        if selfv is None or not isinstance(selfv.ty, TRef):
            raise OutOfSubset("super() outside a method of a schema class")
        cls = self.fn.qualname.split(".")[-2]
        con = None
        for b in CLASSES[cls]["bases"]:
            con = find_contract(b, meth)
            if con:
                break
        if con is None:
            raise OutOfSubset(f"super().{meth} without contract")
        out = []
        for s, vals in self.ev_seq(list(e.args) + [k.value for k in e.keywords], st, exc):
            pos = vals[: len(e.args)]
            kw = dict(zip([k.arg for k in e.keywords], vals[len(e.args) :]))
            args = self.bind_contract(con, [selfv] + pos, kw, e.lineno)
            out.extend(self.call_contract(con, args, s, exc, e.lineno))
        return out

    # -- closures / lambdas (executed in the defining scope: mechanical inlining)

    def inlined_method(self, cls, attr):
        """(module, function) if the contract under verification lists the plain (non-generator) method cls.attr in `inlined`"""
        wanted = {q for q, _ in (getattr(self.fn, "inlined", None) or ())}
        if not wanted:
            return None
        for c in [cls] + CLASSES[cls]["bases"]:
            for modname in CLASS_MODULES.get(c, []):
                if f"{modname}.{c}.{attr}" in wanted:
                    mi = source.load(modname)
                    fn = mi.functions.get(f"{c}.{attr}")
                    if fn is not None and not any(isinstance(n, (ast.Yield, ast.YieldFrom)) for n in ast.walk(fn)):
                        return mi, fn
        return None

    def call_closure(self, s, f, pos, kw, exc, line):
        _, fn, parent, mi = f.z
        if len(self.inline_stack) > 6:
            raise OutOfSubset("closure inlining depth")
        names = [a.arg for a in fn.args.args]
        if kw or len(pos) != len(names):
            raise OutOfSubset("closure call arity")
        fr = Frame(parent, (mi, fn))
        for n, v in zip(names, pos):
            fr.vars[n] = v
        s.frames.append(fr)
        saved = s.cur
        s.cur = len(s.frames) - 1
        out = []
        self.inline_stack.append(fn.name)
        try:
            for oc in self.exec_block(fn.body, s):
                oc.st.cur = saved
                if oc.kind == "return":
                    out.append((oc.st, oc.val))
                elif oc.kind == "normal":
                    out.append((oc.st, NONE_VAL))
                elif oc.kind == "raise":
                    exc.append(oc)
                else:
                    raise OutOfSubset(f"{oc.kind} escaping a closure")
        finally:
            self.inline_stack.pop()
        return out

    def call_lambda(self, s, f, pos, kw, exc, line):
        _, lam, parent, mi = f.z
        names = [a.arg for a in lam.args.args]
        if kw or len(pos) != len(names):
            raise OutOfSubset("lambda arity")
        fr = Frame(parent, (mi, lam))
        for n, v in zip(names, pos):
            fr.vars[n] = v
        s.frames.append(fr)
        saved = s.cur
        s.cur = len(s.frames) - 1
        out = []
        for s2, v in self.ev(lam.body, s, exc):
            s2.cur = saved
            out.append((s2, v))
        return out

    # -- builtins

    def builtin(self, s, name, pos, kw, exc, node):
        line = node.lineno
        if name == "isinstance":
            x, c = pos
            if not (isinstance(c.ty, TConst) and c.z[0] == "class"):
                raise OutOfSubset("isinstance with non-class")
            cname = c.z[1]
            if isinstance(x.ty, TRow):
                if cname == "Gap":
                    return [(s, mk_bool(smt.isgap(x.z)))]
                if cname == "Fragment":
                    return [(s, mk_bool(z3.Not(smt.isgap(x.z))))]
                return [(s, mk_bool(False))]
            if isinstance(x.ty, TRef):
                if cname in CLASSES:
                    return [(s, mk_bool(ObjView(s, x.z, x.ty.cls).isinstance(cname)))]
                return [(s, mk_bool(False))]
            raise OutOfSubset(f"isinstance on {x.ty}")
        if name == "len":
            (x,) = pos
            if x.ty == BYTES:
                return [(s, x.z[2])]
            if isinstance(x.ty, TList):
                return [(s, mk_int(ListView(s, x.z, x.ty.elem).len))]
            if isinstance(x.ty, TTuple):
                return [(s, mk_int(len(x.z)))]
            if x.ty in (STR, STRSEQ, STRLIST):
                return [(s, mk_int(z3.Length(x.z)))]
            if x.ty == BYTES:
                return [(s, x.z[2])]
            raise OutOfSubset(f"len of {x.ty}")
        if name in ("min", "max"):
            if len(pos) != 2 or any(p.ty != INT for p in pos):
                raise OutOfSubset(f"{name} arguments")
            f = smt.Min if name == "min" else smt.Max
            return [(s, mk_int(f(pos[0].z, pos[1].z)))]
        if name == "abs":
            (x,) = pos
            if x.ty != INT:
                raise OutOfSubset("abs of non-int")
            return [(s, mk_int(smt.Abs(x.z)))]
        if name == "bool":
            (x,) = pos
            return [(s, mk_bool(self.truth(s, x)))]
        if name == "int":
            (x,) = pos
            if x.ty == INT:
                return [(s, x)]
            if x.ty == BOOL:
                return [(s, mk_int(z3.If(x.z, 1, 0)))]
            if x.ty == STR:
                # int(str): succeeds exactly on the strings str.isdecimal-ish model below
                ok = is_decimal(x.z)
                self.guard(s, exc, "ValueError", ok, "int() of non-decimal string", line)
                return [(s, mk_int(z3.StrToInt(x.z)))]
            if x.ty == REAL:
                # int(float) truncates towards zero (floats as reals: infinities and NaN are outside the model)
                return [(s, mk_int(z3.If(x.z >= 0, z3.ToInt(x.z), -z3.ToInt(-x.z))))]
            raise OutOfSubset(f"int() of {x.ty}")
        if name == "round" and len(pos) == 1 and not kw:
            # round(x) of a number: to the nearest integer, ties to the even one
            (x,) = pos
            if x.ty == INT:
                return [(s, x)]
            if x.ty == REAL:
                f = z3.ToInt(x.z)
                frac = x.z - z3.ToReal(f)
                half = z3.RealVal("1/2")
                return [(s, mk_int(z3.If(frac < half, f, z3.If(frac > half, f + 1, z3.If(f % 2 == 0, f, f + 1)))))]
            raise OutOfSubset(f"round() of {x.ty}")
        if name == "str":
            (x,) = pos
            if x.ty == STR:
                return [(s, x)]
            if x.ty == INT:
                return [(s, mk_str(int_to_str(x.z)))]
            if isinstance(x.ty, (TRow, TRef)):
                return [(s, mk_str(smt.fresh("str", smt.Str)))]
            if isinstance(x.ty, TOpt) and x.ty.inner == STR:
                # str(None) == "None", str(s) is s
                S = x.ty.sort()
                return [(s, mk_str(z3.If(x.z == S.none, z3.StringVal("None"), S.val(x.z))))]
            raise OutOfSubset(f"str() of {x.ty}")
        if name == "float":
            (x,) = pos
            if x.ty == INT:
                return [(s, Val(REAL, z3.ToReal(x.z)))]
            if x.ty == REAL:
                return [(s, x)]
            raise OutOfSubset("float() of non-number")
        if name == "tuple" and not pos:
            return [(s, Val(TTuple([]), ()))]
        if name == "tuple" and len(pos) == 1 and pos[0].ty in (STRLIST, STRSEQ):
            return [(s, Val(STRSEQ, pos[0].z))]
        if name == "sorted":
            return self.builtin_sorted(s, pos, kw, exc, node)
        raise OutOfSubset(f"builtin {name} at L{line}")

    def lt(self, s, a, b, line):
        """Python a < b as a formula (ints, reals, strs, tuples lexicographically)"""
        if isinstance(a.ty, TTuple) and isinstance(b.ty, TTuple):
            if len(a.z) != len(b.z):
                raise OutOfSubset("ordering of tuples of different arity")
            f = z3.BoolVal(False)
            for x, y in reversed(list(zip(a.z, b.z))):
                f = z3.Or(self.lt(s, x, y, line), z3.And(self.eq(s, x, y), f))
            return f
        if a.ty == STR and b.ty == STR:
            return a.z < b.z
        if a.ty in (INT, REAL) and b.ty in (INT, REAL):
            return self.compare(s, ast.Lt(), a, b, [], line)
        raise OutOfSubset(f"ordering of {a.ty} and {b.ty} at L{line}")

    def builtin_sorted(self, s, pos, kw, exc, node):
        line = node.lineno
        (x,) = pos
        rev = False
        if "reverse" in kw:
            rz = z3.simplify(kw["reverse"].z)
            if not (z3.is_true(rz) or z3.is_false(rz)):
                raise OutOfSubset("sorted(reverse=<symbolic>)")
            rev = z3.is_true(rz)
        if isinstance(x.ty, TTuple) and len(x.z) == 2 and "key" not in kw:
            a, b = x.z
            # stable: the pair is swapped only when strictly out of order
            swap = self.lt(s, a, b, line) if rev else self.lt(s, b, a, line)
            out = []
            for s2, side in self.fork(s, swap, line):
                pair = (b, a) if side else (a, b)
                out.append((s2, Val(TTuple([v.ty for v in pair]), pair)))
            return out
        if isinstance(x.ty, TList):
            return self.sorted_list(s, x, kw.get("key"), rev, exc, line)
        raise OutOfSubset(f"sorted() form at L{line}")

    def sorted_list(self, s, x, key, rev, exc, line):
        """sorted(xs, key=f): a new list that is a permutation of xs, ordered by the key (stable).
        Trusted builtin axioms: same length, index bijection p/q between the two lists, key order, and -
        for lists of rows - the same total length (a sum does not depend on the order)."""
        ty = x.ty
        src = ListView(s, x.z, ty.elem)
        n = src.len
        new = s.new_ref()
        arr = smt.fresh("sorted", z3.ArraySort(smt.Int, ty.elem.sort()))
        set_list(s, ty.elem, new, arr=arr, lo=z3.IntVal(0), hi=n)
        for nm in (f"LA.{sort_key(ty.elem)}", f"LLO.{sort_key(ty.elem)}", f"LHI.{sort_key(ty.elem)}"):
            self.note_write(nm, "fresh")
        p = z3.Function(f"perm!{smt._fresh_n[0]}", smt.Int, smt.Int)
        q = z3.Function(f"perm_inv!{smt._fresh_n[0]}", smt.Int, smt.Int)
        smt._fresh_n[0] += 1
        j = smt.fresh("j", smt.Int)
        sarr, slo = src.arr, src.lo
        s.assume(z3.ForAll([j], z3.Implies(z3.And(0 <= j, j < n), z3.And(arr[j] == sarr[_plus(slo, p(j))], 0 <= p(j), p(j) < n, q(p(j)) == j)), patterns=[arr[j]]))
        s.assume(z3.ForAll([j], z3.Implies(z3.And(0 <= j, j < n), z3.And(0 <= q(j), q(j) < n, p(q(j)) == j, arr[q(j)] == sarr[_plus(slo, j)])), patterns=[sarr[_plus(slo, j)]]))
        if isinstance(ty.elem, TRow):
            s.assume(smt.prefix(arr)[n] - smt.prefix(arr)[0] == src.cum(n))
        if key is not None:
            # the key function is evaluated on an arbitrary element of the list (safety obligations hold for
            # every element) and the resulting term gives the order axiom
            k0 = smt.fresh("k", smt.Int)
            s0 = s.clone()
            s0.assume(z3.And(0 <= k0, k0 < n))
            res = self.call(s0, key, [unpack(ty.elem, sarr[_plus(slo, k0)])], {}, exc, ast.copy_location(ast.Constant(0), ast.Name("x"))) if False else self._call_key(s0, key, unpack(ty.elem, sarr[_plus(slo, k0)]), exc, line)
            if len(res) != 1:
                raise OutOfSubset("sort key with several outcomes")
            kval = res[0][1]
            a, b = smt.fresh("a", smt.Int), smt.fresh("b", smt.Int)

            def at(idx):
                return self._subst_val(kval, [(sarr[_plus(slo, k0)], arr[idx])])

            ka, kb = at(a), at(b)
            out_of_order = self.lt(s, ka, kb, line) if rev else self.lt(s, kb, ka, line)
            s.assume(z3.ForAll([a, b], z3.Implies(z3.And(0 <= a, a < b, b < n), z3.Not(out_of_order))))
        elif rev or not isinstance(ty.elem, type(INT)):
            raise OutOfSubset("sorted() of a list without key")
        return [(s, Val(ty, new))]

    def _call_key(self, s0, key, arg, exc, line):
        node = ast.Name("key")
        node.lineno = line
        call = ast.Call(func=node, args=[], keywords=[])
        call.lineno = line
        return self.call(s0, key, [arg], {}, exc, call)

    def _subst_val(self, v, pairs):
        if isinstance(v.ty, TTuple):
            return Val(v.ty, tuple(self._subst_val(x, pairs) for x in v.z))
        if v.z is None:
            return v
        return Val(v.ty, z3.substitute(v.z, *pairs))

    def module_call(self, s, mod, name, pos, kw, exc, node):
        line = node.lineno
        if mod == "logging" and name in ("info", "debug", "warning", "error"):
            return [(s, NONE_VAL)]
        if mod == "re" and name in ("match", "fullmatch", "search") and len(pos) == 2 and pos[1].ty == STR:
            pz = z3.simplify(pos[0].z)
            if not z3.is_string_value(pz):
                raise OutOfSubset("re.match with a non-literal pattern")
            return [(s, Val(TMatch(), (f"{name}:{pz.as_string()}", pos[1].z)))]
        if mod == "re" and name == "finditer" and len(pos) == 2 and pos[1].ty == BYTES:
            a = pos[0]
            if not (isinstance(a.ty, TConst) and a.z == ("bytes", rb"[ACGTacgt]+")):
                raise OutOfSubset(f"re.finditer with another pattern at L{line}")
            return [(s, self.acgt_runs(s, pos[1]))]
        if mod == "click" and name == "echo" and len(pos) == 1 and pos[0].ty == STR and set(kw) <= {"err"}:
            # click.echo(text[, err=True]): one more chunk on the console stream (ghost objects `stdout!console` /
            # `stderr!console` of class TextOut, which exist on entry; the trailing newline echo adds is not modelled)
            err = kw.get("err")
            if err is not None and not (err.ty == BOOL and (z3.is_true(z3.simplify(err.z)) or z3.is_false(z3.simplify(err.z)))):
                raise OutOfSubset(f"click.echo with a computed err= at L{line}")
            which = "stderr" if err is not None and z3.is_true(z3.simplify(err.z)) else "stdout"
            recv = Val(TRef("TextOut"), console_ref(which))
            _, m, fty = field_map(s, "TextOut", "g_out")
            lst = Val(fty, m[recv.z])
            self.note_list(s, lst)
            return self.builtin_method(s, lst, "append", [pos[0]], {}, exc, node)
        if mod == "time" and name in ("ctime", "asctime", "strftime"):
            # text for a message: opaque
            return [(s, mk_str(smt.fresh("timetext", smt.Str)))]
        if mod == "math" and name == "floor":
            (x,) = pos
            if x.ty == REAL:
                return [(s, mk_int(z3.ToInt(x.z)))]
            if x.ty == INT:
                return [(s, x)]
        raise OutOfSubset(f"{mod}.{name} at L{line}")

    def acgt_runs(self, s, b):
        """re.finditer(rb"[ACGTacgt]+", <residues [first, first+n) of the file>): the list of the maximal runs of
        ACGT characters, as (start, end) spans relative to the start of the bytes value, in order (model of the
        library function over the ghost predicate smt.acgt; trusted, validated by the bounded tier)"""
        kind, first, n = (x.z for x in b.z)
        ty = TList(SPAN)
        ref = s.new_ref()
        lst = Val(ty, ref)
        arr = smt.fresh("runs", z3.ArraySort(smt.Int, SPAN.sort()))
        cnt = smt.fresh("nruns", smt.Int)
        set_list(s, SPAN, ref, arr=arr, lo=z3.IntVal(0), hi=cnt)
        S = SPAN.sort()
        st_ = lambda k: S.accessor(0, 0)(arr[k])
        en_ = lambda k: S.accessor(0, 1)(arr[k])
        k = z3.Int("k!runs")
        g = z3.Int("g!runs")  # absolute residue number: keeps the trigger acgt(g) free of arithmetic
        s.assume(kind == 0)
        s.assume(cnt >= 0)
        s.assume(z3.ForAll([k], z3.Implies(z3.And(0 <= k, k < cnt), z3.And(0 <= st_(k), st_(k) < en_(k), en_(k) <= n)), patterns=[arr[k]]))
        s.assume(z3.ForAll([k], z3.Implies(z3.And(0 <= k, k + 1 < cnt), en_(k) < st_(k + 1)), patterns=[arr[k]]))
        # inside a run every residue is ACGT; between runs, before the first and after the last none is
        s.assume(z3.ForAll([k, g], z3.Implies(z3.And(0 <= k, k < cnt, first + st_(k) <= g, g < first + en_(k)), smt.acgt(g)), patterns=[z3.MultiPattern(arr[k], smt.acgt(g))]))
        s.assume(z3.ForAll([k, g], z3.Implies(z3.And(0 <= k, k + 1 < cnt, first + en_(k) <= g, g < first + st_(k + 1)), z3.Not(smt.acgt(g))),
                           patterns=[z3.MultiPattern(arr[k], smt.acgt(g))]))
        s.assume(z3.ForAll([g], z3.Implies(z3.And(first <= g, g < first + z3.If(cnt > 0, st_(0), n)), z3.Not(smt.acgt(g))), patterns=[smt.acgt(g)]))
        s.assume(z3.ForAll([g], z3.Implies(z3.And(cnt > 0, first + en_(cnt - 1) <= g, g < first + n), z3.Not(smt.acgt(g))), patterns=[smt.acgt(g)]))
        return lst

    def builtin_method(self, s, recv, name, pos, kw, exc, node):
        line = node.lineno
        ty = recv.ty
        if ty == LINE and name == "rstrip":
            # line.rstrip(b"\r\n"): the residues of the line, without its terminator
            a = node.args[0] if len(node.args) == 1 else None
            if not (isinstance(a, ast.Constant) and a.value == b"\r\n"):
                raise OutOfSubset(f"line.rstrip with another argument at L{line}")
            return [(s, bytes_val(0, smt.l_gp(recv.z), smt.l_slen(recv.z)))]
        if isinstance(ty, TConst) and recv.z[0] == "linetail" and name == "split" and not pos and not kw:
            return [(s, Val(TConst(), ("linetail.split", recv.z[1])))]
        if isinstance(ty, TConst) and recv.z[0] == "linetail.split.0" and name == "decode" and not pos and not kw:
            return [(s, mk_str(smt.l_name(recv.z[1].z)))]
        if ty == SPAN and name in ("start", "end") and not pos and not kw:
            return [(s, recv.z[0 if name == "start" else 1])]
        if isinstance(ty, TList):
            lv = ListView(s, recv.z, ty.elem)
            k = sort_key(ty.elem)
            if name == "append":
                (x,) = pos
                xz = pack(self.coerce(s, x, ty.elem, "append", line), ty.elem)
                arr, hi = lv.arr, lv.hi
                set_list(s, ty.elem, recv.z, arr=z3.Store(arr, hi, xz), hi=hi + 1)
                for nm in (f"LA.{k}", f"LHI.{k}"):
                    self.note_write(nm, recv.z)
                return [(s, NONE_VAL)]
            if name == "pop":
                n = lv.len
                self.guard(s, exc, "IndexError", n > 0, "pop from empty list", line)
                if not pos:
                    idx = -1
                else:
                    iz = z3.simplify(pos[0].z)
                    if not z3.is_int_value(iz) or iz.as_long() not in (0, -1):
                        raise OutOfSubset("pop index other than 0 / -1")
                    idx = iz.as_long()
                if idx == 0:
                    x = lv.arr[lv.lo]
                    set_list(s, ty.elem, recv.z, lo=lv.lo + 1)
                    self.note_write(f"LLO.{k}", recv.z)
                else:
                    x = lv.arr[lv.hi - 1]
                    set_list(s, ty.elem, recv.z, hi=lv.hi - 1)
                    self.note_write(f"LHI.{k}", recv.z)
                return [(s, unpack(ty.elem, x))]
            if name == "extend":
                (x,) = pos
                if isinstance(x.ty, TTuple):
                    arr, hi = lv.arr, lv.hi
                    for j, item in enumerate(x.z):
                        arr = z3.Store(arr, hi + j, pack(self.coerce(s, item, ty.elem, "extend", line), ty.elem))
                    set_list(s, ty.elem, recv.z, arr=arr, hi=hi + len(x.z))
                    for nm in (f"LA.{k}", f"LHI.{k}"):
                        self.note_write(nm, recv.z)
                    return [(s, NONE_VAL)]
                if isinstance(x.ty, TList) and x.ty.elem == ty.elem:
                    ov = ListView(s, x.z, ty.elem)
                    arr, hi, n2 = lv.arr, lv.hi, ov.len
                    oarr, olo = ov.arr, ov.lo
                    j = z3.Int("j!ext")
                    new = smt.fresh("extended", z3.ArraySort(smt.Int, ty.elem.sort()))
                    s.assume(
                        z3.ForAll(
                            [j],
                            new[j] == z3.If(z3.And(j >= hi, j < hi + n2), oarr[olo + j - hi], arr[j]),
                            patterns=[new[j]],
                        )
                    )
                    set_list(s, ty.elem, recv.z, arr=new, hi=hi + n2)
                    for nm in (f"LA.{k}", f"LHI.{k}"):
                        self.note_write(nm, recv.z)
                    return [(s, NONE_VAL)]
                raise OutOfSubset("extend argument")
        if ty == STRLIST and name in ("extend", "append"):
            tgt = node.func.value
            if not isinstance(tgt, ast.Name):
                raise OutOfSubset("str-list method on a non-name receiver")
            (x,) = pos
            if name == "append":
                if x.ty != STR:
                    raise OutOfSubset("append of non-str")
                add = z3.Unit(x.z)
            elif isinstance(x.ty, TTuple):
                if not x.z:
                    return [(s, NONE_VAL)]
                if any(v.ty != STR for v in x.z):
                    raise OutOfSubset("extend with non-str elements")
                add = z3.Unit(x.z[0].z)
                for v in x.z[1:]:
                    add = z3.Concat(add, z3.Unit(v.z))
            elif x.ty in (STRSEQ, STRLIST):
                add = x.z
            else:
                raise OutOfSubset(f"extend of a str list with {x.ty}")
            self.assign_name(s, tgt.id, Val(STRLIST, z3.Concat(recv.z, add)))
            return [(s, NONE_VAL)]
        if ty == STR and name == "encode" and not pos:
            n = smt.fresh("enc.len", smt.Int)
            s.assume(n >= 0)
            return [(s, Val(BYTES, (mk_int(4), mk_int(0), mk_int(n))))]  # kind 4: encoded text (record header)
        if ty == STR and name == "join":
            (x,) = pos
            if x.ty in (STRLIST, STRSEQ):
                return [(s, mk_str(smt.strjoin(recv.z, x.z)))]
            if isinstance(x.ty, TTuple) and all(v.ty == STR for v in x.z) and x.z:
                seq = z3.Unit(x.z[0].z)
                for v in x.z[1:]:
                    seq = z3.Concat(seq, z3.Unit(v.z))
                return [(s, mk_str(smt.strjoin(recv.z, seq)))]
            raise OutOfSubset(f"join of {x.ty}")
        if isinstance(ty, TDict):
            dv = DictView(s, recv.z, ty.key, ty.val)
            nh, has, nv, val = dict_maps(s, ty.key, ty.val)
            if name == "setdefault" and len(pos) == 2:
                # two paths: the key is present (nothing is written, the stored value comes back) or it is not (the
                # default is stored and comes back) - simpler terms than one conditional value
                kz = pack(pos[0], ty.key)
                dz = pack(self.coerce(s, pos[1], ty.val, "setdefault", line, exc), ty.val)
                known = has[recv.z][kz]
                szn = f"DSZ.{sort_key(ty.key)}.{sort_key(ty.val)}"
                out = []
                for s2, side in self.fork(s, known, line):
                    nh2, has2, nv2, val2 = dict_maps(s2, ty.key, ty.val)
                    if side:
                        out.append((s2, unpack(ty.val, z3.simplify(val2[recv.z][kz]))))
                        continue
                    size = s2.hmap(szn, smt.Int, smt.Int)
                    s2.heap[nh2] = z3.Store(has2, recv.z, z3.Store(has2[recv.z], kz, z3.BoolVal(True)))
                    s2.heap[nv2] = z3.Store(val2, recv.z, z3.Store(val2[recv.z], kz, dz))
                    s2.heap[szn] = z3.Store(size, recv.z, size[recv.z] + 1)
                    out.append((s2, unpack(ty.val, dz)))
                # the dict is (possibly) written: recorded on every path, so that loop discovery sees it
                for nm in (nh, nv, szn):
                    self.note_write(nm, recv.z)
                return out
            if name == "values" and not pos and not kw:
                # d.values(): a list each of whose elements is the value stored under some present key (which key,
                # how many and in which order is not modelled: code that depends on that cannot be verified)
                new = s.new_ref()
                arr = smt.fresh("values", z3.ArraySort(smt.Int, ty.val.sort()))
                cnt = smt.fresh("nvalues", smt.Int)
                s.assume(cnt >= 0)
                set_list(s, ty.val, new, arr=arr, lo=z3.IntVal(0), hi=cnt)
                k0 = smt.fresh("k", smt.Int)
                keyof = z3.Function(f"valuekey!{smt._fresh_n[0]}", smt.Int, ty.key.sort())
                s.assume(z3.ForAll([k0], z3.Implies(z3.And(0 <= k0, k0 < cnt), z3.And(has[recv.z][keyof(k0)], arr[k0] == val[recv.z][keyof(k0)])), patterns=[arr[k0]]))
                if isinstance(ty.val, TRef):
                    k_ = smt.fresh("k", smt.Int)
                    cm = class_map(s)
                    s.assume(z3.ForAll([k_], z3.Implies(z3.And(0 <= k_, k_ < cnt), z3.And(arr[k_] >= 1, arr[k_] < s.alloc,
                             z3.Or(*[cm[arr[k_]] == CLASSES[c]["id"] for c in subclasses(ty.val.cls)])))))
                return [(s, Val(TList(ty.val), new))]
            if name == "get":
                kz = pack(pos[0], ty.key)
                if len(pos) == 1:
                    rty = ty.val if isinstance(ty.val, TOpt) else TOpt(ty.val)
                    S = rty.sort()
                    inner = val[recv.z][kz]
                    r = z3.If(has[recv.z][kz], inner if isinstance(ty.val, TOpt) else S.some(inner), S.none)
                    return [(s, Val(rty, r))]
                raise OutOfSubset("dict.get with default")
        if isinstance(ty, TConst) and ty is not None and recv.z[0] == "pydict" and name == "get":
            d = recv.z[1]
            keys = list(d)
            vals = [self.py_const(d[k]) for k in keys]
            if len(pos) == 2:
                if pos[1].ty != vals[0].ty:
                    raise OutOfSubset("dict.get default of another type")
                r = pos[1].z
                for k, v in zip(reversed(keys), reversed(vals)):
                    r = z3.If(self.eq(s, pos[0], self.py_const(k)), pack(v), r)
                return [(s, Val(vals[0].ty, r))]
            rty = TOpt(vals[0].ty)
            S = rty.sort()
            r = S.none
            for k, v in zip(reversed(keys), reversed(vals)):
                r = z3.If(self.eq(s, pos[0], self.py_const(k)), S.some(pack(v)), r)
            return [(s, Val(rty, r))]
        if isinstance(ty, TMatch) and name == "group" and len(pos) == 1:
            kz = z3.simplify(pos[0].z)
            if not z3.is_int_value(kz):
                raise OutOfSubset("match.group with a symbolic index")
            return [(s, mk_str(smt.str_fn(f"re.group({recv.z[0]!r},{kz.as_long()})")(recv.z[1])))]
        if ty == STR and name == "startswith" and len(pos) == 1 and pos[0].ty == STR:
            return [(s, mk_bool(z3.PrefixOf(pos[0].z, recv.z)))]
        if ty == STR and name == "translate" and len(pos) == 1 and isinstance(pos[0].ty, TConst) and pos[0].z[0] == "strtable":
            return [(s, mk_str(smt.str_fn(pos[0].z[1])(recv.z)))]
        if ty == STR and name in ("rstrip", "strip", "lstrip", "split", "lower", "upper") and all(isinstance(z3.simplify(a.z), z3.SeqRef) and z3.is_string_value(z3.simplify(a.z)) for a in pos):
            # lexing helpers: uninterpreted functions named after the call (their relation to "\t".join is a
            # lexing axiom, see specs/parser.py)
            arg = "|".join(z3.simplify(a.z).as_string() for a in pos)
            fname = f"str.{name}({arg!r})"
            if name == "split":
                return [(s, Val(STRLIST, smt.seq_fn(fname)(recv.z)))]
            return [(s, mk_str(smt.str_fn(fname)(recv.z)))]
        raise OutOfSubset(f"method {name} of {ty} at L{line}")

    def genexp_builtin(self, e, st, exc):
        g = e.args[0]
        if e.func.id == "sum" and len(g.generators) == 1 and not g.generators[0].ifs and len(e.args) == 1:
            gen = g.generators[0]
            if (
                isinstance(gen.target, ast.Name)
                and isinstance(g.elt, ast.Attribute)
                and isinstance(g.elt.value, ast.Name)
                and g.elt.value.id == gen.target.id
                and g.elt.attr == "length"
            ):
                out = []
                for s, lst in self.ev(gen.iter, st, exc):
                    if isinstance(lst.ty, TList) and isinstance(lst.ty.elem, TRow):
                        # trusted builtin axiom: sum over a generator of row lengths is the ghost `cum`
                        lv = ListView(s, lst.z, lst.ty.elem)
                        out.append((s, mk_int(lv.cum(lv.len))))
                    else:
                        raise OutOfSubset(f"sum of lengths over {lst.ty}")
                return out
        if e.func.id in ("all", "any", "max", "min") and len(g.generators) == 1 and not g.generators[0].ifs and len(e.args) == 1 and isinstance(g.generators[0].target, ast.Name):
            # over a tuple (a fixed number of elements): evaluated element by element as Python does, all()/any() with
            # their short circuit; exceptions of the element expression propagate
            gen0 = g.generators[0]
            probe = self.ev(gen0.iter, st.clone(), [])
            if probe and all(isinstance(v.ty, TTuple) for _, v in probe):
                out = []
                for s, tup in self.ev(gen0.iter, st, exc):
                    elems = list(tup.z)
                    if e.func.id in ("max", "min") and not elems:
                        raise OutOfSubset(f"{e.func.id}() of an empty sequence at L{e.lineno}")
                    pending = [(s, [])]
                    for el in elems:
                        nxt = []
                        for s1, acc in pending:
                            fr = Frame(s1.cur, s1.frames[s1.cur].func)
                            fr.vars[gen0.target.id] = el
                            s1.frames.append(fr)
                            saved = s1.cur
                            s1.cur = len(s1.frames) - 1
                            for s2, v in self.ev(g.elt, s1, exc):
                                s2.cur = saved
                                if e.func.id in ("all", "any"):
                                    for s3, side in self.fork(s2, self.truth(s2, v), e.lineno):
                                        if side == (e.func.id == "any"):
                                            out.append((s3, mk_bool(e.func.id == "any")))  # decided: stop here
                                        else:
                                            nxt.append((s3, acc))
                                else:
                                    if v.ty not in (INT, REAL):
                                        raise OutOfSubset(f"{e.func.id}() over {v.ty} at L{e.lineno}")
                                    nxt.append((s2, acc + [v]))
                        pending = nxt
                    for s1, acc in pending:
                        if e.func.id in ("all", "any"):
                            out.append((s1, mk_bool(e.func.id == "all")))
                        else:
                            real = any(v.ty == REAL for v in acc)
                            zs = [z3.ToReal(v.z) if real and v.ty == INT else v.z for v in acc]
                            r = zs[0]
                            for z in zs[1:]:
                                r = z3.If(z > r, z, r) if e.func.id == "max" else z3.If(z < r, z, r)
                            out.append((s1, Val(REAL if real else INT, r)))
                return out
        if e.func.id in ("all", "any") and len(g.generators) == 1 and not g.generators[0].ifs and len(e.args) == 1 and isinstance(g.generators[0].target, ast.Name):
            # all(test(x) for x in xs) over a list: the test is evaluated once on the element at a bound position k
            # and closed under a quantifier.  Only a test that neither forks, raises nor learns anything is taken.
            gen = g.generators[0]
            out = []
            for s, lst in self.ev(gen.iter, st, exc):
                if not isinstance(lst.ty, TList):
                    raise OutOfSubset(f"{e.func.id}() over {lst.ty} at L{e.lineno}")
                lv = ListView(s, lst.z, lst.ty.elem)
                # k is a position of the underlying array (not an offset into the window): a slice of a list then
                # speaks about the same terms as the list it was cut from
                k = smt.fresh("k!" + e.func.id, smt.Int)
                s2 = s.clone()
                s2.assign(gen.target.id, unpack(lst.ty.elem, lv.arr[k]))
                exc2 = []
                n_obl = len(self.obligations)
                rs = self.ev(g.elt, s2, exc2)
                if len(rs) != 1 or exc2 or len(self.obligations) != n_obl or len(rs[0][0].pc) != len(s.pc):
                    raise OutOfSubset(f"element test of {e.func.id}() is not a plain predicate at L{e.lineno}")
                b = self.truth(rs[0][0], rs[0][1])
                rng = z3.And(lv.lo <= k, k < lv.hi)
                if e.func.id == "all":
                    q = z3.ForAll([k], z3.Implies(rng, b), patterns=[lv.arr[k]])
                else:
                    q = z3.Exists([k], z3.And(rng, b), patterns=[lv.arr[k]])
                out.append((s, mk_bool(q)))
            return out
        raise OutOfSubset(f"generator expression in {e.func.id} at L{e.lineno}")

    def genexp_method(self, e, st, exc):
        if e.func.attr == "join":
            # "sep".join(f(x) for x in xs): text only used in messages - opaque (its elements are evaluated
            # nowhere else, so only the iterable is evaluated for safety)
            g = e.args[0]
            out = []
            for s, _ in self.ev_seq([e.func.value, g.generators[0].iter], st, exc):
                out.append((s, mk_str(smt.fresh("joined", smt.Str))))
            return out
        if e.func.attr == "extend" and len(e.args) == 1 and not e.keywords:
            # xs.extend(f(x) for x in ys) adds what xs.extend([f(x) for x in ys]) adds (the element expression may not
            # write to the heap, which ev_ListComp checks)
            g = e.args[0]
            comp = ast.copy_location(ast.ListComp(elt=g.elt, generators=g.generators), g)
            call = ast.copy_location(ast.Call(func=e.func, args=[comp], keywords=[]), e)
            return self.ev_Call(call, st, exc)
        raise OutOfSubset(f"generator expression in .{e.func.attr} at L{e.lineno}")

    # ------------------------------------------------------------------
    # statements

    def exec_block(self, stmts, st):
        pending = [st]
        outcomes = []
        for stmt in stmts:
            nxt = []
            for s in pending:
                for oc in self.exec_stmt(stmt, s):
                    if oc.kind == "normal":
                        nxt.append(oc.st)
                    else:
                        outcomes.append(oc)
            pending = nxt
            if not pending:
                break
        outcomes.extend(Outcome("normal", s) for s in pending)
        return outcomes

    def exec_stmt(self, stmt, st):
        m = getattr(self, "st_" + type(stmt).__name__, None)
        if m is None:
            raise OutOfSubset(f"statement {type(stmt).__name__} at L{stmt.lineno}")
        sp = getattr(self, "stmt_posts", None)
        if sp and id(stmt) in sp:
            # postcondition of one statement (before -> after), proved on every normal way out of it
            label, post = sp[id(stmt)]
            before = NS(st.clone(), {})
            outs = m(stmt, st)
            for oc in outs:
                if oc.kind == "normal":
                    for lbl, f in conj(post(NS(oc.st, {}), before, self.pre_ns)):
                        self.oblige(oc.st, f"after[{label}][{lbl}]", "post", f, stmt.lineno)
                        oc.st.assume(f)  # proved here, used from here on (cut)
            return outs
        return m(stmt, st)

    def st_Pass(self, stmt, st):
        return [Outcome("normal", st)]

    def st_Break(self, stmt, st):
        return [Outcome("break", st)]

    def st_Continue(self, stmt, st):
        return [Outcome("continue", st)]

    def st_Nonlocal(self, stmt, st):
        st.frames[st.cur].nonlocals.update(stmt.names)
        return [Outcome("normal", st)]

    def st_Expr(self, stmt, st):
        exc = []
        if isinstance(stmt.value, ast.Constant):  # docstring
            return [Outcome("normal", st)]
        if isinstance(stmt.value, ast.Yield):
            return self.do_yield(stmt.value, st)
        res = self.ev(stmt.value, st, exc)
        return [Outcome("normal", s) for s, _ in res] + exc

    def st_Return(self, stmt, st):
        if stmt.value is None:
            return [Outcome("return", st, NONE_VAL)]
        exc = []
        return [Outcome("return", s, v) for s, v in self.ev(stmt.value, st, exc)] + exc

    def st_Raise(self, stmt, st):
        exc = []
        name = "Exception"
        e = stmt.exc
        if isinstance(e, ast.Call) and isinstance(e.func, ast.Name):
            name = e.func.id
            res = self.ev_seq(e.args, st, exc)
            outs = []
            for s, _ in res:
                s.ghost["raise_site"] = f"raise@L{stmt.lineno}"
                outs.append(Outcome("raise", s, name))
            return outs + exc
        if isinstance(e, ast.Name):
            st.ghost["raise_site"] = f"raise@L{stmt.lineno}"
            return [Outcome("raise", st, e.id)]
        raise OutOfSubset("raise form")

    def st_FunctionDef(self, stmt, st):
        st.assign(stmt.name, Val(TFunc(), ("closure", stmt, st.cur, self.cur_mi(st))))
        return [Outcome("normal", st)]

    def assign_name(self, st, name, v):
        if self.disc_locals is not None:
            self.disc_locals.add((st.owner_frame(name), name))
        st.assign(name, v)

    def st_Assign(self, stmt, st):
        exc = []
        for t in stmt.targets:
            if isinstance(t, ast.Name) and isinstance(stmt.value, (ast.List, ast.Dict)):
                stmt.value._pyvc_target = t.id
            if isinstance(t, ast.Attribute) and isinstance(t.value, ast.Name):
                # empty displays assigned to a field take the field's declared type
                recv = st.lookup(t.value.id)
                if recv is not None and isinstance(recv.ty, TRef) and field_owner(recv.ty.cls, t.attr):
                    fty = field_map(st, recv.ty.cls, t.attr)[2]
                    for sub in ast.walk(stmt.value):
                        if isinstance(sub, (ast.List, ast.Dict)) and not getattr(sub, "elts", getattr(sub, "keys", None)):
                            sub._pyvc_type = fty
        outs = []
        for s, v in self.ev(stmt.value, st, exc):
            states = [s]
            for t in stmt.targets:
                nxt = []
                for s1 in states:
                    nxt.extend(self.assign_target(t, v, s1, exc))
                states = nxt
            outs.extend(Outcome("normal", s1) for s1 in states)
        return outs + exc

    def st_AnnAssign(self, stmt, st):
        if stmt.value is None:
            return [Outcome("normal", st)]
        exc = []
        outs = []
        for s, v in self.ev(stmt.value, st, exc):
            outs.extend(Outcome("normal", s1) for s1 in self.assign_target(stmt.target, v, s, exc))
        return outs + exc

    def st_AugAssign(self, stmt, st):
        exc = []
        load = _as_load(stmt.target)
        outs = []
        for s, (cur, rhs) in self.ev_seq([load, stmt.value], st, exc):
            v = self.binop(s, stmt.op, cur, rhs, exc, stmt.lineno)
            outs.extend(Outcome("normal", s1) for s1 in self.assign_target(stmt.target, v, s, exc))
        return outs + exc

    def assign_target(self, t, v, s, exc):
        if isinstance(t, ast.Name):
            self.assign_name(s, t.id, v)
            return [s]
        if isinstance(t, ast.Tuple):
            if v.ty == BYTES:
                raise OutOfSubset("unpacking of an abstract bytes value")
            if isinstance(v.ty, TTuple):
                if len(v.z) != len(t.elts):
                    raise OutOfSubset("unpacking arity")
                states = [s]
                for sub, x in zip(t.elts, v.z):
                    nxt = []
                    for s1 in states:
                        nxt.extend(self.assign_target(sub, x, s1, exc))
                    states = nxt
                return states
            raise OutOfSubset(f"unpacking of {v.ty}")
        if isinstance(t, ast.Attribute):
            outs = []
            for s1, recv in self.ev(t.value, s, exc):
                outs.extend(self.set_attr(s1, recv, t.attr, v, exc, t.lineno))
            return outs
        if isinstance(t, ast.Subscript):
            outs = []
            for s1, (c, i) in self.ev_seq([t.value, t.slice], s, exc):
                outs.extend(self.set_item(s1, c, i, v, exc, t.lineno))
            return outs
        raise OutOfSubset(f"assignment target {type(t).__name__}")

    def set_attr(self, s, recv, attr, v, exc, line):
        ty = recv.ty
        if isinstance(ty, TRow):
            init = s.ghost.get("init_row")
            if init is None or not init[0].eq(recv.z):
                raise OutOfSubset(f"store to slot {attr} of an immutable row at L{line}")
            d = dict(init[1])
            d[attr] = v
            s.ghost["init_row"] = (init[0], d)
            if attr in self.ROW_SLOTS:
                # the slot *is* the field function of the finished object
                s.assume(self.ROW_SLOTS[attr][1](recv.z) == v.z)
            return [s]
        if isinstance(ty, TRef):
            setter = REGISTRY.get(self.setter_name(ty.cls, attr))
            if setter is not None:
                return [s2 for s2, _ in self.call_contract(setter, {"self": recv, list(setter.params)[1]: v}, s, exc, line)]
            owner = field_owner(ty.cls, attr)
            if owner is None:
                raise OutOfSubset(f"store to undeclared attribute {ty.cls}.{attr} at L{line}")
            name, m, fty = field_map(s, ty.cls, attr)
            vz = pack(self.coerce(s, v, fty, attr, line, exc), fty)
            s.heap[name] = z3.Store(m, recv.z, vz)
            self.note_write(name, recv.z)
            return [s]
        raise OutOfSubset(f"attribute store on {ty} at L{line}")

    def setter_name(self, cls, attr):
        for c in [cls] + [b for b in CLASSES.get(cls, {}).get("bases", [])]:
            for q in REGISTRY:
                if q.endswith(f".{c}.{attr}$setter"):
                    return q
        return None

    def set_item(self, s, c, i, v, exc, line):
        ty = c.ty
        if isinstance(ty, TList) and i.ty == INT:
            lv = ListView(s, c.z, ty.elem)
            n = lv.len
            k = self.norm_index(s, i.z, n)
            self.guard(s, exc, "IndexError", z3.And(0 <= k, k < n), "list assignment index", line)
            vz = pack(self.coerce(s, v, ty.elem, "item", line), ty.elem)
            set_list(s, ty.elem, c.z, arr=z3.Store(lv.arr, _plus(lv.lo, k), vz))
            self.note_write(f"LA.{sort_key(ty.elem)}", c.z)
            return [s]
        if isinstance(ty, TDict):
            nh, has, nv, val = dict_maps(s, ty.key, ty.val)
            kz = pack(i, ty.key)
            vz = pack(self.coerce(s, v, ty.val, "dict value", line), ty.val)
            szn = f"DSZ.{sort_key(ty.key)}.{sort_key(ty.val)}"
            size = s.hmap(szn, smt.Int, smt.Int)
            s.heap[szn] = z3.Store(size, c.z, size[c.z] + z3.If(has[c.z][kz], 0, 1))
            s.heap[nh] = z3.Store(has, c.z, z3.Store(has[c.z], kz, z3.BoolVal(True)))
            s.heap[nv] = z3.Store(val, c.z, z3.Store(val[c.z], kz, vz))
            for nm in (nh, nv, szn):
                self.note_write(nm, c.z)
            return [s]
        raise OutOfSubset(f"item store on {ty} at L{line}")

    def narrow(self, test, s, side):
        """after `if x:` / `if x := e:` / `if x is not None:` an Optional local is its inner value"""
        name = None
        positive = side
        t = test
        if isinstance(t, ast.UnaryOp) and isinstance(t.op, ast.Not):
            t = t.operand
            positive = not side
        if (isinstance(t, ast.Call) and isinstance(t.func, ast.Name) and t.func.id == "isinstance" and len(t.args) == 2
                and isinstance(t.args[0], ast.Name) and isinstance(t.args[1], ast.Name) and positive):
            # isinstance(x, Cls) on a reference to a superclass: x is statically a Cls from here on
            v = s.lookup(t.args[0].id)
            cname = t.args[1].id
            if v is not None and isinstance(v.ty, TRef) and cname in CLASSES and cname != v.ty.cls and v.ty.cls in class_mro(cname):
                s.assign(t.args[0].id, Val(TRef(cname), v.z))
            return
        if isinstance(t, ast.Name):
            name = t.id
        elif isinstance(t, ast.NamedExpr):
            name = t.target.id
        elif isinstance(t, ast.Compare) and len(t.ops) == 1 and isinstance(t.left, ast.Name) and isinstance(t.comparators[0], ast.Constant) and t.comparators[0].value is None:
            name = t.left.id
            if isinstance(t.ops[0], ast.Is):
                positive = not positive
            elif not isinstance(t.ops[0], ast.IsNot):
                return
        if name is None or not positive:
            return
        v = s.lookup(name)
        if v is not None and isinstance(v.ty, TOpt):
            inner = unpack(v.ty.inner, v.ty.sort().val(v.z))
            s.assume(v.z == v.ty.sort().some(pack(inner, v.ty.inner)))
            s.assign(name, inner)

    def st_If(self, stmt, st):
        exc = []
        outs = []
        for s, c in self.ev(stmt.test, st, exc):
            for s2, side in self.fork(s, self.truth(s, c), stmt.lineno):
                self.narrow(stmt.test, s2, side)
                outs.extend(self.exec_block(stmt.body if side else stmt.orelse, s2))
        return outs + exc

    # -- loops

    def loop_spec(self, node):
        ordinal = self.loop_ids.get(id(node))
        if ordinal is None:
            raise OutOfSubset(f"loop at L{node.lineno} not indexed")
        spec = self.fn.loops.get(ordinal)
        if spec is None:
            raise SpecInapplicable(f"no loop spec for loop #{ordinal} at L{node.lineno} of {self.fn.short}")
        return ordinal, spec

    def st_With(self, stmt, st):
        """with <expr> as <name>: body.  Only the binding is modelled: __exit__ (closing the file) has no
        effect on the state the contracts talk about and exceptions propagate unchanged."""
        if len(stmt.items) != 1:
            raise OutOfSubset("with several items")
        item = stmt.items[0]
        exc = []
        outs = []
        for s, v in self.ev(item.context_expr, st, exc):
            if not (isinstance(v.ty, TRef) and v.ty.cls in ("LineFile", "TextOut")):
                raise OutOfSubset(f"with over {v.ty} at L{stmt.lineno}")
            if item.optional_vars is None:
                targets = [s]
            else:
                targets = self.assign_target(item.optional_vars, v, s, exc)
            for s2 in targets:
                outs.extend(self.exec_block(stmt.body, s2))
        return outs + exc

    def st_While(self, stmt, st):
        if stmt.orelse:
            raise OutOfSubset("while/else")
        ordinal, spec = self.loop_spec(stmt)

        def head(s, exc):
            res = []
            for s1, c in self.ev(stmt.test, s, exc):
                for s2, side in self.fork(s1, self.truth(s1, c), stmt.lineno):
                    res.append((s2, side))
            return res

        return self.cut_loop(stmt, st, ordinal, spec, head, lambda s: None, stmt.body)

    def st_For(self, stmt, st):
        if stmt.orelse:
            raise OutOfSubset("for/else")
        it = stmt.iter
        # generator method consumed by this loop: inline its body
        gen = self.generator_target(it, st)
        if gen is not None:
            return self.inline_generator(stmt, st, gen)
        if isinstance(it, ast.Tuple):
            return self.unrolled_for(stmt, st)
        ordinal, spec = self.loop_spec(stmt)
        exc0 = []
        outs = []
        hid = f"_it{ordinal}"
        if isinstance(it, ast.Call) and isinstance(it.func, ast.Name) and it.func.id == "range":
            for s, vals in self.ev_seq(it.args, st, exc0):
                if any(v.ty != INT for v in vals):
                    raise OutOfSubset("range of non-int")
                if len(vals) == 1:
                    a, b, step = z3.IntVal(0), vals[0].z, 1
                elif len(vals) == 2:
                    a, b, step = vals[0].z, vals[1].z, 1
                else:
                    sz = z3.simplify(vals[2].z)
                    if not z3.is_int_value(sz) or sz.as_long() not in (1, -1):
                        raise OutOfSubset("range step")
                    a, b, step = vals[0].z, vals[1].z, sz.as_long()
                s.assign(hid, mk_int(a))
                s.assign(hid + "_end", mk_int(b))

                def head(s1, exc, step=step):
                    i = s1.lookup(hid).z
                    b1 = s1.lookup(hid + "_end").z
                    cond = i < b1 if step == 1 else i > b1
                    res = []
                    for s2, side in self.fork(s1, cond, stmt.lineno):
                        if side:
                            for s3 in self.assign_target(stmt.target, mk_int(i), s2, exc):
                                res.append((s3, True))
                        else:
                            res.append((s2, False))
                    return res

                def advance(s1, step=step):
                    s1.assign(hid, mk_int(s1.lookup(hid).z + step))

                outs.extend(self.cut_loop(stmt, s, ordinal, spec, head, advance, stmt.body, hidden=[hid]))
            return outs + exc0
        if isinstance(it, ast.Call) and isinstance(it.func, ast.Name) and it.func.id == "zip" and len(it.args) == 2:
            return self.for_zip(stmt, st, ordinal, spec, hid)
        enum = isinstance(it, ast.Call) and isinstance(it.func, ast.Name) and it.func.id == "enumerate"
        src = it.args[0] if enum else it
        for s, lst in self.ev(src, st, exc0):
            linefile = None
            if lst.ty == TRef("LineFile"):
                # iterating a binary file yields its lines in order; the ghost cursor of the file object
                # (what tell() returns) is the offset just after the line handed out
                linefile = lst
                _, m, fty = field_map(s, "LineFile", "g_lines")
                lst = unpack(fty, z3.simplify(m[linefile.z]))
                self.note_list(s, lst)
            if isinstance(lst.ty, TSet):
                lst = self.set_iteration_order(s, lst, hid)
            if isinstance(lst.ty, TOpt) and isinstance(lst.ty.inner, TList):
                S = lst.ty.sort()
                self.guard(s, exc0, "TypeError", lst.z != S.none, "iteration over None", stmt.lineno)
                lst = unpack(lst.ty.inner, z3.simplify(S.val(lst.z)))
                self.note_list(s, lst)
            if not isinstance(lst.ty, TList):
                raise OutOfSubset(f"for over {lst.ty} at L{stmt.lineno}")
            s.assign(hid, mk_int(0))
            s.assign(hid + "_seq", lst)

            def head(s1, exc, lst=lst, linefile=linefile):
                i = s1.lookup(hid).z
                lv = ListView(s1, lst.z, lst.ty.elem)
                res = []
                for s2, side in self.fork(s1, i < lv.len, stmt.lineno):
                    if side:
                        lv2 = ListView(s2, lst.z, lst.ty.elem)
                        s2.assume(i >= 0)
                        item = unpack(lst.ty.elem, lv2.arr[_plus(lv2.lo, i)])
                        if linefile is not None:
                            for s2b in self.set_attr(s2, linefile, "g_pos", mk_int(smt.l_off(item.z) + smt.l_len(item.z)), exc, stmt.lineno):
                                pass
                        v = Val(TTuple([INT, item.ty]), (mk_int(i), item)) if enum else item
                        for s3 in self.assign_target(stmt.target, v, s2, exc):
                            res.append((s3, True))
                    else:
                        res.append((s2, False))
                return res

            def advance(s1):
                s1.assign(hid, mk_int(s1.lookup(hid).z + 1))

            outs.extend(self.cut_loop(stmt, s, ordinal, spec, head, advance, stmt.body, hidden=[hid]))
        return outs + exc0

    def set_iteration_order(self, s, sv, hid):
        """Iterating a set: some list of its elements, each exactly once, in an order nothing is known about.  The
        position of an element in that order is a function `pos` (kept as the python-side local `<counter>_pos` for
        specifications): pos(x) is the index at which x is handed out, for every x in the set."""
        ety = sv.ty.elem
        _, has = set_maps(s, ety)
        size = s.hmap(f"SSZ.{sort_key(ety)}", smt.Int, smt.Int)[sv.z]
        new = s.new_ref()
        arr = smt.fresh("setorder", z3.ArraySort(smt.Int, ety.sort()))
        n = smt.fresh("nset", smt.Int)
        pos = z3.Function(f"setpos!{smt._fresh_n[0]}", ety.sort(), smt.Int)
        smt._fresh_n[0] += 1
        set_list(s, ety, new, arr=arr, lo=z3.IntVal(0), hi=n)
        k = smt.fresh("k", smt.Int)
        x = z3.Const(f"x!set{smt._fresh_n[0]}", ety.sort())
        s.assume(z3.And(n >= 0, n == size))
        s.assume(z3.ForAll([k], z3.Implies(z3.And(0 <= k, k < n), z3.And(has[sv.z][arr[k]], pos(arr[k]) == k)), patterns=[arr[k]]))
        s.assume(z3.ForAll([x], z3.Implies(has[sv.z][x], z3.And(0 <= pos(x), pos(x) < n, arr[pos(x)] == x)), patterns=[pos(x)]))
        s.assign(hid + "_pos", Val(TConst(), ("setpos", pos)))
        return Val(TList(ety), new)

    def for_zip(self, stmt, st, ordinal, spec, hid):
        """for a, b in zip(xs, ys[, strict=True]): pairs of elements with the same index, as many as the shorter
        list has; with strict=True a ValueError if the lengths differ (raised when the shorter one is exhausted)"""
        it = stmt.iter
        strict = any(k.arg == "strict" and isinstance(k.value, ast.Constant) and k.value.value is True for k in it.keywords)
        if any(k.arg != "strict" for k in it.keywords):
            raise OutOfSubset("zip keywords")
        exc0 = []
        outs = []
        for s, (xs, ys) in self.ev_seq(it.args, st, exc0):
            if not (isinstance(xs.ty, TList) and isinstance(ys.ty, TList)):
                raise OutOfSubset(f"zip over {xs.ty}, {ys.ty} at L{stmt.lineno}")
            s.assign(hid, mk_int(0))
            s.assign(hid + "_seq", xs)
            s.assign(hid + "_seq2", ys)

            def head(s1, exc, xs=xs, ys=ys):
                i = s1.lookup(hid).z
                a, b = ListView(s1, xs.z, xs.ty.elem), ListView(s1, ys.z, ys.ty.elem)
                res = []
                for s2, side in self.fork(s1, z3.And(i < a.len, i < b.len), stmt.lineno):
                    if side:
                        a2, b2 = ListView(s2, xs.z, xs.ty.elem), ListView(s2, ys.z, ys.ty.elem)
                        s2.assume(i >= 0)
                        pair = (unpack(xs.ty.elem, a2.arr[_plus(a2.lo, i)]), unpack(ys.ty.elem, b2.arr[_plus(b2.lo, i)]))
                        v = Val(TTuple([p.ty for p in pair]), pair)
                        for s3 in self.assign_target(stmt.target, v, s2, exc):
                            res.append((s3, True))
                    else:
                        if strict:
                            a2, b2 = ListView(s2, xs.z, xs.ty.elem), ListView(s2, ys.z, ys.ty.elem)
                            self.guard(s2, exc, "ValueError", a2.len == b2.len, "zip(strict=True) of lists of different length", stmt.lineno)
                        res.append((s2, False))
                return res

            def advance(s1):
                s1.assign(hid, mk_int(s1.lookup(hid).z + 1))

            outs.extend(self.cut_loop(stmt, s, ordinal, spec, head, advance, stmt.body, hidden=[hid]))
        return outs + exc0

    def unrolled_for(self, stmt, st):
        """for x in (a, b, ...): a display of fixed length is unrolled (no invariant needed)"""
        exc = []
        outs = []
        for s0, items in self.ev_seq(stmt.iter.elts, st, exc):
            pending = [s0]
            for item in items:
                nxt = []
                for s1 in pending:
                    for s2 in self.assign_target(stmt.target, item, s1, exc):
                        for oc in self.exec_block(stmt.body, s2):
                            if oc.kind in ("normal", "continue"):
                                nxt.append(oc.st)
                            elif oc.kind == "break":
                                outs.append(Outcome("normal", oc.st))
                            else:
                                outs.append(oc)
                pending = nxt
            outs.extend(Outcome("normal", s1) for s1 in pending)
        return outs + exc

    def targets_of(self, node):
        names = set()
        for n in ast.walk(node):
            if isinstance(n, ast.Name) and isinstance(n.ctx, ast.Store):
                names.add(n.id)
        return names

    def call_inv(self, spec, v, e):
        import inspect

        if spec.inv is None:
            return []
        n = len(inspect.signature(spec.inv).parameters)
        return conj(spec.inv(v, e, self.pre_ns) if n >= 3 else spec.inv(v, e))

    def cut_loop(self, node, st, ordinal, spec, head, advance, body, hidden=()):
        """The set of locals and heap maps a loop changes is found by a dry run from the entry state, where
        branches that cannot be taken in the first iteration are pruned.  Everything the arbitrary iteration
        (run from the havocked state) really assigns or writes is therefore recorded too, and if it touches
        something that was not havocked the loop is cut again with the larger set - until nothing new appears."""
        extra_locals, extra_maps = set(), set()
        for _ in range(6):
            mark = len(self.obligations)
            snapshot = st.clone()
            saved = (self.disc_locals, self.disc_maps, self.disc_refs)
            rec_l, rec_m = set(), set()
            self.disc_locals, self.disc_maps = rec_l, rec_m
            if saved[2] is None:
                self.disc_refs = None
            try:
                outs, used_l, used_m, live = self._cut_loop(node, st, ordinal, spec, head, advance, body, hidden, extra_locals, extra_maps)
            finally:
                self.disc_locals, self.disc_maps, self.disc_refs = saved
                if saved[0] is not None:
                    saved[0].update(rec_l)
                    saved[1].update(rec_m)
            new_l = {x for x in rec_l if x not in used_l and x in live}
            new_m = rec_m - used_m
            if not new_l and not new_m:
                return outs
            extra_locals |= new_l
            extra_maps |= new_m
            del self.obligations[mark:]
            st.__dict__.update(snapshot.__dict__)
        raise OutOfSubset(f"loop #{ordinal}: the set of written locations did not stabilise")

    def _cut_loop(self, node, st, ordinal, spec, head, advance, body, hidden, extra_locals, extra_maps):
        line = node.lineno
        fp = ("for", ast.unparse(node.target), ast.unparse(node.iter)) if isinstance(node, ast.For) else ("while", "", ast.unparse(node.test))
        if spec.kind is not None and spec.kind != fp[0]:
            raise SpecInapplicable(f"loop #{ordinal}: expected a {spec.kind} loop")
        if spec.iter_src is not None and spec.iter_src != (fp[2]):
            raise SpecInapplicable(f"loop #{ordinal}: iterates over '{fp[2]}', spec written for '{spec.iter_src}'")
        # locals whose declared loop type is Optional and which hold None on entry: represent them as such
        for name, ty in (spec.types or {}).items():
            cur = st.lookup(name)
            if cur is not None and isinstance(ty, TOpt) and not isinstance(cur.ty, TOpt):
                st.assign(name, Val(ty, pack(cur, ty)))
        entry = st.clone()
        e_ns = NS(entry, {})
        # 1. invariant on entry
        for label, f in self.call_inv(spec, NS(st, {}), e_ns):
            self.oblige(st, f"loop{ordinal}.inv[{label}].entry", "inv-entry", f, line)
        # 2. discovery of what the loop assigns / writes (dry run, no obligations)
        mod_locals, mod_maps, allocs = self.discover(st, head, advance, body)
        mod_locals = set(mod_locals) | set(extra_locals)
        mod_maps = set(mod_maps) | set(extra_maps)
        if extra_maps:
            allocs = True
        for h in hidden:
            mod_locals.add((st.cur, h))
        live = {(fi, name) for fi, fr in enumerate(st.frames) for name in fr.vars}
        # 3. havoc
        fresh_mark = smt._fresh_n[0]
        s = st.clone()
        for fi, name in sorted(mod_locals):
            if fi >= len(s.frames):
                continue  # local of a closure frame created (and left) inside the loop body
            cur = s.frames[fi].vars.get(name)
            ty = spec.types.get(name) or (cur.ty if cur is not None else None)
            if ty is None:
                continue  # first assigned inside the loop: not live at the head
            if isinstance(ty, (TFunc, TConst)):
                continue
            s.frames[fi].vars[name] = fresh_val(f"{name}.h{ordinal}", ty)
        frame_allow = self.auto_frame(s, head, advance, body, ordinal, mod_maps, fresh_mark) if mod_maps else {}
        if spec.frame:
            over = spec.frame(NS(s, {}), e_ns)
            for k_, v_ in over.items():
                if k_ in ("$free", "$fresh-only"):
                    frame_allow.setdefault(k_, [])
                    frame_allow[k_] = list(frame_allow[k_]) + list(v_)
                else:
                    frame_allow[k_] = v_
            for nm in over.get("$fresh-only", []):
                if nm in frame_allow.get("$free", []):
                    frame_allow["$free"].remove(nm)
        from .values import MAP_SORTS

        for name in sorted(mod_maps):
            old = entry.heap.get(name)
            if old is None:
                # first touched inside the loop: its value at loop entry is the initial heap map
                old = entry.hmap(name, *MAP_SORTS[name])
            new = smt.fresh(f"{name}.h{ordinal}", old.sort())
            s.heap[name] = new
        if allocs:
            a = smt.fresh("alloc", smt.Int)
            s.assume(a >= s.alloc)
            s.alloc = a
        if s.ralloc is not None:
            ra = smt.fresh("ralloc", smt.Int)
            s.assume(ra >= s.ralloc)
            s.ralloc = ra
        v = NS(s, {})
        for label, f in self.call_inv(spec, v, e_ns):
            s.assume(f)
        scoped_hints = {}
        if spec.hints:
            # lemma instances (cut rule): each hint is proved on its own - from the definitional facts only,
            # no path condition - and then used: everywhere (list) or only for the invariant conjuncts named (dict)
            hs = spec.hints(v)
            flat = [(None, f) for f in hs] if isinstance(hs, (list, tuple)) else [(lbl, f) for lbl, fs in hs.items() for f in fs]
            for hi, (lbl, f) in enumerate(flat):
                if not self.discovery:
                    self.obligations.append(Obligation(self.fn.short, f"hint:loop{ordinal}.hint[{hi}]@L{line}", "hint", [], f, line, self.axioms))
                if lbl is None:
                    s.assume(f)
                else:
                    scoped_hints.setdefault(lbl, []).append(f)
        # frame of the heap maps: proved as part of the invariant (entry trivially; back edge below)
        frame_fs = self.frame_formulas(s, entry, mod_maps, frame_allow)
        for _, f in frame_fs:
            s.assume(f)
        # 4. one arbitrary iteration
        outs = []
        exc = []
        var0 = spec.variant(v) if spec.variant else None
        for s1, side in head(s, exc):
            if not side:
                outs.append(Outcome("normal", s1))
                continue
            b_ns = NS(s1.clone(), {})
            for oc in self.exec_block(body, s1):
                if oc.kind in ("normal", "continue"):
                    s2 = oc.st
                    if spec.iter_post is not None:
                        # postcondition of one iteration (state at body start -> state at body end)
                        import inspect

                        ip_args = (NS(s2, {}), b_ns, e_ns, self.pre_ns) if len(inspect.signature(spec.iter_post).parameters) >= 4 else (NS(s2, {}), b_ns, e_ns)
                        for label, f in conj(spec.iter_post(*ip_args)):
                            self.oblige(s2, f"loop{ordinal}.iteration[{label}]", "iter-post", f, line)
                    advance(s2)
                    v2 = NS(s2, {})
                    for label, f in self.call_inv(spec, v2, e_ns):
                        if label in scoped_hints and not self.discovery:
                            s2h = s2.clone()
                            for hf in scoped_hints[label]:
                                s2h.assume(hf)
                            self.oblige(s2h, f"loop{ordinal}.inv[{label}].preserved", "inv-step", f, line)
                        else:
                            self.oblige(s2, f"loop{ordinal}.inv[{label}].preserved", "inv-step", f, line)
                    for label, f in self.frame_formulas(s2, entry, mod_maps, frame_allow):
                        self.oblige(s2, f"loop{ordinal}.frame[{label}].preserved", "frame", f, line)
                    if var0 is not None:
                        var1 = spec.variant(v2)
                        self.oblige(s2, f"loop{ordinal}.variant", "variant", z3.And(var0 >= 0, var1 < var0), line)
                elif oc.kind == "break":
                    outs.append(Outcome("normal", oc.st))
                else:
                    outs.append(oc)
        return outs + exc, mod_locals, mod_maps, live

    def auto_frame(self, s, head, advance, body, ordinal, mod_maps, fresh_mark=0):
        """Default frame of a loop: a heap map written only at references that do not depend on
        anything the loop changes may change at those references only.  The frame is *proved* as part
        of the invariant (obligation loopN.frame[...]), so a wrong guess cannot make anything unsound."""
        saved = (self.disc_locals, self.disc_maps, self.disc_refs)
        self.disc_locals, self.disc_maps, self.disc_refs = set(), set(), {}
        self.discovery += 1
        try:
            s0 = s.clone()
            exc = []
            for s1, side in head(s0, exc):
                if side:
                    for oc in self.exec_block(body, s1):
                        if oc.kind in ("normal", "continue"):
                            advance(oc.st)
            refs = self.disc_refs
        except (OutOfSubset, SpecInapplicable):
            refs = {}
        finally:
            self.discovery -= 1
            self.disc_locals, self.disc_maps, self.disc_refs = saved
        allow = {"$free": []}
        import re as _re

        def loop_variant(t):
            # mentions a symbol created at or after the havoc of this loop (fresh symbols are numbered)
            return any(int(n) > fresh_mark for n in _re.findall(r"!(\d+)", t.sexpr()))

        for name in mod_maps:
            ws = refs.get(name)
            if not ws or any(w is None for w in ws):
                allow["$free"].append(name)
                continue
            terms = [w for w in ws if not isinstance(w, str)]
            if any(loop_variant(t) for t in terms):
                allow["$free"].append(name)  # target depends on loop-variant state: spec must give the frame
                continue
            uniq = []
            for t in terms:
                if not any(t.eq(u) for u in uniq):
                    uniq.append(t)
            allow[name] = uniq
        return allow

    def frame_formulas(self, s, entry, mod_maps, allow):
        """for every havocked heap map: references that existed at loop entry and are not in the
        allowed set keep their entry value"""
        out = []
        for name in sorted(mod_maps):
            old = entry.heap.get(name)
            if old is None:
                continue
            new = s.heap[name]
            refs = None
            if allow is not None:
                refs = allow.get(name)
                if name in allow.get("$fresh-only", ()):
                    # only objects allocated during this call are written: everything the caller can see is kept
                    r = smt.fresh("r", smt.Int)
                    out.append((name, z3.ForAll([r], z3.Implies(r < z3.Int("alloc@0"), new[r] == old[r]))))
                    continue
                if refs is None and name in allow.get("$free", ()):  # explicitly unconstrained
                    continue
            r = smt.fresh("r", smt.Int)
            cond = [r < entry.alloc] if entry.alloc is not None else []
            for x in refs or []:
                cond.append(r != unview(x))
            out.append((name, z3.ForAll([r], z3.Implies(z3.And(*cond) if cond else z3.BoolVal(True), new[r] == old[r]))))
        return out

    def discover(self, st, head, advance, body):
        saved = (self.disc_locals, self.disc_maps)
        self.disc_locals, self.disc_maps = set(), set()
        self.discovery += 1
        alloc0 = st.alloc
        allocs = False
        try:
            s = st.clone()
            exc = []
            for s1, side in head(s, exc):
                if not side:
                    continue
                for oc in self.exec_block(body, s1):
                    if oc.kind in ("normal", "continue"):
                        advance(oc.st)
                    if oc.st.alloc is not None and alloc0 is not None and not oc.st.alloc.eq(alloc0):
                        allocs = True
            locs, maps = self.disc_locals, self.disc_maps
        finally:
            self.discovery -= 1
            self.disc_locals, self.disc_maps = saved
            if saved[0] is not None:
                saved[0].update(locs if "locs" in dir() else ())
                saved[1].update(maps if "maps" in dir() else ())
        # hidden loop counters are assigned through State.assign directly
        return locs, maps, allocs

    # -- generators inlined at their consuming for loop

    def generator_target(self, it, st):
        if not (isinstance(it, ast.Call) and isinstance(it.func, ast.Attribute)):
            return None
        recv_expr = it.func.value
        name = it.func.attr
        # static resolution: receiver must be a schema object whose class defines a generator `name`
        try:
            res = self.ev(recv_expr, st.clone(), [])
        except OutOfSubset:
            return None
        if not res:
            return None
        recv = res[0][1]
        if not isinstance(recv.ty, TRef):
            return None
        gcon = find_contract(recv.ty.cls, name)
        if gcon is not None and getattr(gcon, "as_list", False) and gcon.qualname not in {q for q, _ in (getattr(self.fn, "inlined", None) or ())}:
            return None  # called by contract: the generator is the list of what it yields
        for c in [recv.ty.cls] + CLASSES[recv.ty.cls]["bases"]:
            for modname in CLASS_MODULES.get(c, []):
                mi = source.load(modname)
                fn = mi.functions.get(f"{c}.{name}")
                if fn is not None and any(isinstance(n, (ast.Yield, ast.YieldFrom)) for n in ast.walk(fn)):
                    return (mi, fn, c)
        return None

    def inline_generator(self, stmt, st, gen):
        mi, fn, cls = gen
        exc = []
        outs = []
        it = stmt.iter
        for s, vals in self.ev_seq([it.func.value] + list(it.args), st, exc):
            names = [a.arg for a in fn.args.args]
            if len(vals) != len(names):
                raise OutOfSubset("generator call arity")
            fr = Frame(None, (mi, fn))
            for n, v in zip(names, vals):
                fr.vars[n] = v
            s.frames.append(fr)
            consumer = s.cur
            gframe = len(s.frames) - 1
            s.cur = gframe
            # register the generator's loops under the consumer's ordinal space
            self.gen_stack.append((stmt, consumer, gframe))
            try:
                for oc in self.exec_block(fn.body, s):
                    oc.st.cur = consumer
                    if oc.kind in ("normal", "return", "genbreak"):
                        if oc.kind == "return" and oc.val is not None and oc.val.ty != NONE and oc.kind != "genbreak":
                            pass
                        outs.append(Outcome("normal", oc.st))
                    elif oc.kind == "genreturn":
                        outs.append(Outcome("return", oc.st, oc.val))
                    else:
                        outs.append(oc)
            finally:
                self.gen_stack.pop()
        return outs + exc

    def do_yield(self, y, st):
        if not self.gen_stack:
            # the function under verification is itself a generator: "generator as the list of what it
            # yields" (sound for consumers that do not share state with the generator body; the sharing
            # is checked where the list is consumed)
            ylist = st.frames[0].vars.get("_yields")
            if ylist is None:
                raise OutOfSubset("yield outside an inlined generator")
            exc = []
            outs = []
            for s, v in self.ev(y.value, st, exc):
                for s2, _ in self.builtin_method(s, ylist, "append", [v], {}, exc, y):
                    outs.append(Outcome("normal", s2))
            return outs + exc
        stmt, consumer, gframe = self.gen_stack[-1]
        exc = []
        outs = []
        for s, v in self.ev(y.value, st, exc):
            s.cur = consumer
            saved_stack = self.gen_stack
            self.gen_stack = self.gen_stack[:-1]
            try:
                for s1 in self.assign_target(stmt.target, v, s, exc):
                    for oc in self.exec_block(stmt.body, s1):
                        oc.st.cur = gframe
                        if oc.kind in ("normal", "continue"):
                            outs.append(Outcome("normal", oc.st))
                        elif oc.kind == "break":
                            outs.append(Outcome("genbreak", oc.st))
                        elif oc.kind == "return":
                            outs.append(Outcome("genreturn", oc.st, oc.val))
                        else:
                            outs.append(oc)
            finally:
                self.gen_stack = saved_stack
        for oc in exc:
            oc.st.cur = gframe
        return outs + exc

    gen_stack = []


def console_ref(which):
    """reference of the ghost TextOut object behind click.echo (an object that exists on entry, see verify.initial_state)"""
    return z3.Int(f"{which}!console")


def bytes_val(kind, first, n):
    return Val(BYTES, (mk_int(kind), mk_int(first), mk_int(n)))


def _as_load(t):
    t2 = ast.parse(ast.unparse(t), mode="eval").body
    ast.copy_location(t2, t)
    for n in ast.walk(t2):
        if not hasattr(n, "lineno"):
            n.lineno = t.lineno
            n.col_offset = 0
    return t2


def _map_sorts(arr):
    s = arr.sort()
    return s.domain(), s.range()


def is_decimal(sz):
    """sufficient condition under which int(s) succeeds: s in [0-9]+"""
    digits = z3.Plus(z3.Range("0", "9"))
    return z3.InRe(sz, digits)


def int_to_str(iz):
    """str(n) for any integer n (z3's int.to.str is defined for n >= 0 only)"""
    return z3.If(iz >= 0, z3.IntToStr(iz), z3.Concat(z3.StringVal("-"), z3.IntToStr(-iz)))


# parameters of Fragment.__init__ / Gap.__init__ that the constructors pass through int()
INT_COERCING_PARAMS = {"start", "end", "strand", "length"}

BUILTIN_NAMES = {
    "isinstance", "len", "min", "max", "abs", "bool", "int", "str", "float", "sum", "sorted", "range",
    "enumerate", "zip", "tuple", "next", "ord", "round", "chr", "list", "set", "dict", "getattr", "hasattr",
    "ValueError", "IndexError", "KeyError", "NotImplementedError", "StopIteration", "FileExistsError",
    "FileNotFoundError", "Exception", "TypeError",
}
GENEXP_BUILTINS = {"sum", "sorted", "tuple", "max", "min", "any", "all", "list"}

CLASS_MODULES = {
    "Fragment": ["tola.assembly.fragment"],
    "Gap": ["tola.assembly.gap"],
    "Scaffold": ["tola.assembly.scaffold"],
    "OverlapResult": ["tola.assembly.overlap_result"],
    "Assembly": ["tola.assembly.assembly"],
    "IndexedAssembly": ["tola.assembly.indexed_assembly"],
    "BuildAssembly": ["tola.assembly.build_assembly"],
    "FoundFragment": ["tola.assembly.build_utils"],
    "ScaffoldNamer": ["tola.assembly.build_utils"],
    "FastaIndex": ["tola.fasta.index"],
    "FastaInfo": ["tola.fasta.index"],
    "FastaStream": ["tola.fasta.stream"],
    "FastaSeq": ["tola.fasta.simple"],
    "AssemblyStats": ["tola.assembly.assembly_stats"],
    "ChrNamer": ["tola.assembly.build_utils"],
    "OverhangPremise": ["tola.assembly.build_utils"],
    "OverhangResolver": ["tola.assembly.build_utils"],
    "StartOverhangPremise": ["tola.assembly.build_utils"],
    "EndOverhangPremise": ["tola.assembly.build_utils"],
}
