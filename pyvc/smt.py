"""
SMT vocabulary shared by the executor and the specs: sorts, field functions of the
immutable row objects (Fragment / Gap), ghost functions, global axioms and the
solver front end (z3 first, cvc5 for what z3 leaves open).
"""

import os
import subprocess
import tempfile
import time

import z3

Int = z3.IntSort()
Bool = z3.BoolSort()
Str = z3.StringSort()
Real = z3.RealSort()

# ---------------------------------------------------------------------------
# Rows: Fragment and Gap objects are immutable (checked syntactically by
# pyvc.frame), so they are values of an uninterpreted sort with field functions.
# `oid` carries object identity (`is`), structural equality compares fields.
Row = z3.DeclareSort("Row")
isgap = z3.Function("isgap", Row, Bool)
rlen = z3.Function("rlen", Row, Int)  # Gap.length / Fragment.length
fname = z3.Function("fname", Row, Str)
fstart = z3.Function("fstart", Row, Int)
fend = z3.Function("fend", Row, Int)
fstrand = z3.Function("fstrand", Row, Int)
StrSeq = z3.SeqSort(Str)
ftags = z3.Function("ftags", Row, StrSeq)
gtype = z3.Function("gtype", Row, Str)
oid = z3.Function("oid", Row, Int)

# "\t".join(cols): an injective-by-assumption rendering of a column list (see C05 lexing axioms)
strjoin = z3.Function("strjoin", Str, StrSeq, Str)
_str_fns = {}


def str_fn(name):
    """uninterpreted str -> str function standing for a library text transformation"""
    if name not in _str_fns:
        _str_fns[name] = z3.Function(name, Str, Str)
    return _str_fns[name]


def bool_fn(name):
    if name not in _str_fns:
        _str_fns[name] = z3.Function(name, Str, Bool)
    return _str_fns[name]


def seq_fn(name):
    if name not in _str_fns:
        _str_fns[name] = z3.Function(name, Str, StrSeq)
    return _str_fns[name]


# one line of a FASTA file being read in binary mode (specs/fasta.py): an immutable value with
# field functions; the engine gives the few byte-level idioms of index_fasta_file a meaning in these terms
Line = z3.DeclareSort("Line")
l_b0 = z3.Function("l_b0", Line, Int)  # line[0]
l_bm2 = z3.Function("l_bm2", Line, Int)  # line[-2]
l_len = z3.Function("l_len", Line, Int)  # len(line), terminator included
l_slen = z3.Function("l_slen", Line, Int)  # len(line.rstrip(b"\r\n"))
l_named = z3.Function("l_named", Line, Bool)  # line[1:].split() is not empty
l_name = z3.Function("l_name", Line, Str)  # line[1:].split()[0].decode()
l_off = z3.Function("l_off", Line, Int)  # ghost: byte offset of the start of the line in the file
l_gp = z3.Function("l_gp", Line, Int)  # ghost: number of sequence-line residues in the file before this line
acgt = z3.Function("acgt", Int, Bool)  # ghost: residue number g of the file (in l_gp numbering) is one of ACGTacgt

RowArr = z3.ArraySort(Int, Row)
IntArr = z3.ArraySort(Int, Int)

# prefix(a)[k] = sum of rlen(a[j]) for j < k (up to an additive constant); the ghost
# behind `cum`.  Defined by its recurrence; instantiated whenever a[k] is mentioned.
prefix = z3.Function("prefix", RowArr, IntArr)


def _axioms():
    r = z3.Const("r!ax", Row)
    a = z3.Const("a!ax", RowArr)
    k = z3.Int("k!ax")
    ax = []
    # Class invariant of Fragment (proved of Fragment.__init__ by the C19/C14 specs,
    # assumed of every Fragment value) and the definition of Fragment.length.
    frag_inv = z3.Or(
        isgap(r),
        z3.And(
            fstart(r) <= fend(r),
            z3.Or(fstrand(r) == 0, fstrand(r) == 1, fstrand(r) == -1),
            rlen(r) == fend(r) - fstart(r) + 1,
        ),
    )
    ax.append(
        z3.ForAll([r], frag_inv, patterns=[rlen(r), fstart(r), fend(r), fstrand(r)])
    )
    ax.append(
        z3.ForAll(
            [a, k],
            prefix(a)[k + 1] == prefix(a)[k] + rlen(a[k]),
            patterns=[z3.MultiPattern(a[k], prefix(a))],
        )
    )
    return ax


def _is_prefix_axiom(ax):
    return "prefix" in str(ax.body().decl()) or "prefix" in ax.sexpr()


AXIOMS = _axioms()
FRAG_INV_AXIOM, PREFIX_AXIOM = AXIOMS[0], AXIOMS[1]
# per-function facts about the initial heap (well-formedness of references and list windows)
EXTRA = []
_extra_names = set()


_divmod_memo = {}


def reset_extra():
    EXTRA.clear()
    _extra_names.clear()
    _divmod_memo.clear()


def define_divmod(a, b):
    """floor division and remainder of a by b as fresh witnesses (q, r) with a == b*q + r and r in
    the range Python gives it; the defining constraints are facts of every query of the function under
    verification (they determine q and r uniquely for b != 0, so adding them is conservative)"""
    if isinstance(a, int):
        a = z3.IntVal(a)
    if isinstance(b, int):
        b = z3.IntVal(b)
    na, nb = z3.simplify(a), z3.simplify(b)  # one pair of witnesses per value, however the term is written
    key = (na.get_id(), nb.get_id())
    if key not in _divmod_memo:
        q = fresh("q", Int)
        r = fresh("r", Int)
        EXTRA.append(a == b * q + r)
        EXTRA.append(z3.Implies(b > 0, z3.And(0 <= r, r < b)))
        EXTRA.append(z3.Implies(b < 0, z3.And(b < r, r <= 0)))
        _divmod_memo[key] = (q, r, na, nb)  # keep the terms alive so ids are not reused
    return _divmod_memo[key][0], _divmod_memo[key][1]


def add_extra(key, formula):
    if key not in _extra_names:
        _extra_names.add(key)
        EXTRA.append(formula)

_fresh_n = [0]


def fresh(name, sort):
    _fresh_n[0] += 1
    return z3.Const(f"{name}!{_fresh_n[0]}", sort)


def Max(a, b):
    return z3.If(a >= b, a, b)


def Min(a, b):
    return z3.If(a <= b, a, b)


def Abs(a):
    return z3.If(a >= 0, a, -a)


_tuple_sorts = {}


def tuple_sort(sorts):
    """z3 datatype for a fixed-arity tuple of the given sorts (created on demand)."""
    key = tuple(str(s) for s in sorts)
    if key not in _tuple_sorts:
        name = "Tup_" + "_".join(k.replace(" ", "").replace("(", "").replace(")", "") for k in key)
        dt = z3.Datatype(name)
        dt.declare(f"mk_{name}", *[(f"{name}_f{i}", s) for i, s in enumerate(sorts)])
        T = dt.create()
        T.mk = T.constructor(0)
        _tuple_sorts[key] = T
    return _tuple_sorts[key]


_opt_sorts = {}


def opt_sort(sort):
    key = str(sort)
    if key not in _opt_sorts:
        nm = "Opt_" + key.replace(" ", "").replace("(", "_").replace(")", "").replace(",", "_")
        dt = z3.Datatype(nm)
        dt.declare(f"none_{nm}")
        dt.declare(f"some_{nm}", (f"val_{nm}", sort))
        T = dt.create()
        # unique constructor names keep the SMT-LIB export unambiguous; short aliases for the engine
        T.none = T.constructor(0)()
        T.some = T.constructor(1)
        T.val = T.accessor(1, 0)
        _opt_sorts[key] = T
    return _opt_sorts[key]


# ---------------------------------------------------------------------------
# Solver front end


class Verdict:
    __slots__ = ("status", "backend", "seconds", "model", "reason")

    def __init__(self, status, backend, seconds, model=None, reason=""):
        self.status = status  # 'unsat' | 'sat' | 'unknown'
        self.backend = backend
        self.seconds = seconds
        self.model = model
        self.reason = reason


def _model_ok_late(s):
    return _model_ok(s)


def mentions(exprs, names):
    """does any of the z3 terms mention an uninterpreted symbol with one of these names?"""
    seen = set()
    stack = list(exprs)
    while stack:
        e = stack.pop()
        i = e.get_id()
        if i in seen:
            continue
        seen.add(i)
        if z3.is_quantifier(e):
            stack.append(e.body())
            continue
        if z3.is_app(e):
            if e.decl().name() in names:
                return True
            stack.extend(e.children())
    return False


def relevant_axioms(assertions):
    """Axioms that define a ghost symbol are conservative extensions: they are left out of a
    query that does not mention the symbol (keeps z3 able to answer `sat` on refutations)."""
    out = []
    for i, ax in enumerate(AXIOMS):
        if ax is PREFIX_AXIOM and not mentions(assertions, {"prefix"}):
            continue
        out.append(ax)
    return out


def _z3_check(assertions, timeout_ms, want_model=False, axioms=None):
    s = z3.Solver()
    s.set("timeout", int(timeout_ms))
    for f in relevant_axioms(assertions) if axioms is None else axioms:
        s.add(f)
    for f in EXTRA:
        s.add(f)
    for f in assertions:
        s.add(f)
    t0 = time.time()
    r = s.check()
    dt = time.time() - t0
    if r == z3.unsat:
        return Verdict("unsat", "z3", dt), s
    if r == z3.sat:
        if not _model_ok_late(s):
            return Verdict("unknown", "z3", dt, None, "sat with a model that falsifies an assertion: ignored"), s
        m = None
        if want_model:
            try:
                m = s.model()
            except z3.Z3Exception:
                m = None
        return Verdict("sat", "z3", dt, m), s
    return Verdict("unknown", "z3", dt, None, s.reason_unknown()), s


CVC5 = "/usr/bin/cvc5"


def _cvc5_check(solver, timeout_ms):
    """Re-run the query of a z3 solver object in cvc5 through SMT-LIB text."""
    try:
        text = solver.to_smt2()
    except Exception as e:  # pragma: no cover
        return Verdict("unknown", "cvc5", 0.0, None, f"export failed: {e}")
    if "(declare-datatypes" in text and "Opt_" in text and False:
        pass
    text = "(set-logic ALL)\n" + text
    t0 = time.time()
    with tempfile.NamedTemporaryFile("w", suffix=".smt2", delete=False) as fh:
        fh.write(text)
        path = fh.name
    try:
        out = subprocess.run(
            [CVC5, "--strings-exp", f"--tlimit={int(timeout_ms)}", path],
            capture_output=True,
            text=True,
            timeout=timeout_ms / 1000 + 5,
        )
        ans = out.stdout.strip().splitlines()[0] if out.stdout.strip() else ""
        reason = (out.stderr or out.stdout).strip()[:200]
    except subprocess.TimeoutExpired:
        ans, reason = "", "timeout"
    finally:
        os.unlink(path)
    dt = time.time() - t0
    if ans == "unsat":
        return Verdict("unsat", "cvc5", dt)
    if ans == "sat":
        return Verdict("sat", "cvc5", dt)
    return Verdict("unknown", "cvc5", dt, None, reason)


def prove(pc, goal, timeout_ms=10000, use_cvc5=True, cvc5_timeout_ms=20000, want_model=False):
    """Is `goal` valid under the path condition `pc` (a list of formulas)?
    unsat = discharged, sat = refuted, unknown = undecided."""
    q = list(pc) + [z3.Not(goal)]
    v, s = _z3_check(q, timeout_ms, want_model)
    if v.status == "unknown" and use_cvc5 and os.path.exists(CVC5):
        v2 = _cvc5_check(s, cvc5_timeout_ms)
        if v2.status != "unknown":
            v2.seconds += v.seconds
            return v2
        v.reason = f"z3: {v.reason}; cvc5: {v2.reason}"
    if v.status == "unknown" and want_model:
        # candidate counterexample: a model of the query without the ghost-defining axioms.  It
        # decides nothing by itself; the check replays it against the real code.
        keep = [ax for ax in AXIOMS if ax is not PREFIX_AXIOM]
        v3, _ = _z3_check(q, min(timeout_ms, 5000), True, axioms=keep)
        if v3.status == "sat":
            v.model = v3.model
            v.reason += "; candidate model found without the cum axiom"
    return v


def _has_quantifier(e, memo={}):
    i = e.get_id()
    if i in memo:
        return memo[i][0]
    seen = set()
    stack = [e]
    found = False
    while stack:
        x = stack.pop()
        j = x.get_id()
        if j in seen:
            continue
        seen.add(j)
        if z3.is_quantifier(x):
            found = True
            break
        stack.extend(x.children())
    if len(memo) > 200000:
        memo.clear()
    memo[i] = (found, e)  # keep the key term alive: ids of collected terms are reused
    return found


def feasible(pc, timeout_ms=300):
    """Quick satisfiability test used only to prune paths: False only on a definite unsat of the
    quantifier-free part of the path condition (sound for pruning; anything it keeps alive is
    settled by the obligations of that path)."""
    s = z3.Solver()
    s.set("timeout", int(timeout_ms))
    for f in pc:
        if not _has_quantifier(f):
            s.add(f)
    return s.check() != z3.unsat


def satisfiable(pc, timeout_ms=5000):
    v, _ = _z3_check(list(pc), timeout_ms, want_model=True)
    return v


# ---------------------------------------------------------------------------
# deferred solving: obligations are exported as SMT-LIB text and solved in a process pool


def _text(assertions):
    if assertions is None:
        return None
    s = z3.Solver()
    for f in assertions:
        s.add(f)
    return s.to_smt2()


def build_query(pc, goal, axioms=None):
    """`pc and not goal` with the relevant axioms and the per-function heap facts, as a list of assertions"""
    q = list(pc) + [z3.Not(goal)]
    return list(relevant_axioms(q) if axioms is None else axioms) + list(EXTRA) + q


def export_query(pc, goal, axioms=None):
    """SMT-LIB text of build_query"""
    return _text(build_query(pc, goal, axioms))


def export_bundle(pc, goal, axioms=None):
    """One SMT-LIB text per obligation: all axioms, the heap facts, the path condition split into conjuncts and
    the negated goal, in this order, plus the two counts needed to take it apart again.  The weaker variants of
    the query (cone of influence, linear abstraction, without strings) are derived from it in the solving
    process, only when they are needed."""
    ax = list(AXIOMS if axioms is None else axioms)
    forms = [c for f in pc for c in _conjuncts(f)]
    return _text(ax + list(EXTRA) + forms + [z3.Not(goal)]), {"n_ax": len(ax), "n_extra": len(EXTRA), "given_axioms": axioms is not None}


def _conjuncts(f):
    if z3.is_and(f):
        out = []
        for c in f.children():
            out.extend(_conjuncts(c))
        return out
    return [f]


def _uses_seq(f):
    t = f.sexpr()
    return "seq." in t or "str." in t or "re." in t


def build_noseq(pc, goal, axioms=None):
    """the query with every assumption about strings / tag sequences left out (weaker assumptions, so an
    `unsat` is still a proof).  z3 gives up early on quantifiers mixed with the sequence theory; most
    obligations do not depend on tag contents at all."""
    stripped = False
    while _uses_seq(goal) and z3.is_implies(goal):
        # proving the consequent under fewer hypotheses proves the implication
        a, b = goal.arg(0), goal.arg(1)
        keep_a = [c for c in _conjuncts(a) if not _uses_seq(c)]
        goal = z3.Implies(z3.And(*keep_a), b) if keep_a and not _uses_seq(b) else b
        stripped = True
        if not z3.is_implies(goal) or not _uses_seq(goal):
            break
    if _uses_seq(goal):
        return None
    kept = []
    dropped = stripped
    for f in pc:
        for c in _conjuncts(f):
            if _uses_seq(c):
                dropped = True
            else:
                kept.append(c)
    if not dropped:
        return None
    return build_query(kept, goal, axioms)


def export_noseq(pc, goal, axioms=None):
    return _text(build_noseq(pc, goal, axioms))


_mul_uf = z3.Function("mul!uf", Int, Int, Int)


def _linearize(e, memo, hit):
    """replace every product of two non-constant terms by an uninterpreted function application
    (forgets arithmetic facts: assumptions get weaker, so `unsat` of the result is still a proof)"""
    i = e.get_id()
    if i in memo:
        return memo[i][0]
    if z3.is_quantifier(e) and e.is_lambda():
        r = e
    elif z3.is_quantifier(e):
        n = e.num_vars()
        consts = [z3.Const(f"lin!{e.var_name(j)}!{i}", e.var_sort(j)) for j in range(n)]
        body = z3.substitute_vars(e.body(), *reversed(consts))
        nb = _linearize(body, memo, hit)
        r = z3.ForAll(consts, nb) if e.is_forall() else z3.Exists(consts, nb)
    elif z3.is_app(e):
        kids = [_linearize(c, memo, hit) for c in e.children()]
        if e.decl().kind() == z3.Z3_OP_MUL and z3.is_int(e):
            nonconst = [k for k in kids if not z3.is_int_value(k)]
            if len(nonconst) >= 2:
                hit[0] = True
                coef = [k for k in kids if z3.is_int_value(k)]
                prod = nonconst[0]
                for k in nonconst[1:]:
                    prod = _mul_uf(prod, k)
                for c in coef:
                    prod = c * prod
                r = prod
            else:
                r = e.decl()(*kids) if kids else e
        else:
            r = e.decl()(*kids) if kids else e
    else:
        r = e
    memo[i] = (r, e)  # keep the key term alive: ids of collected terms are reused
    return r


def build_linear(pc, goal, axioms=None):
    """the query with non-linear products made opaque; None if there are none"""
    q = list(pc) + [z3.Not(goal)]
    memo, hit = {}, [False]
    def norm(f):
        # sum-of-monomials form first, so that (k + 1) * b and k * b + b become the same opaque terms
        try:
            return z3.simplify(f, som=True)
        except z3.Z3Exception:
            return f

    try:
        lin_q = [_linearize(norm(f), memo, hit) for f in q]
        lin_extra = [_linearize(norm(f), memo, hit) for f in EXTRA]
    except Exception:
        return None
    if not hit[0]:
        return None
    return list(relevant_axioms(q) if axioms is None else axioms) + lin_extra + lin_q


def export_linear(pc, goal, axioms=None):
    return _text(build_linear(pc, goal, axioms))


def _symbols(e, memo):
    i = e.get_id()
    if i in memo:
        return memo[i][0]
    out = set()
    stack = [e]
    seen = set()
    while stack:
        x = stack.pop()
        j = x.get_id()
        if j in seen:
            continue
        seen.add(j)
        if z3.is_quantifier(x):
            stack.append(x.body())
        elif z3.is_app(x):
            d = x.decl()
            if d.kind() == z3.Z3_OP_UNINTERPRETED:
                out.add(d.name())
            stack.extend(x.children())
    memo[i] = (out, e)
    return out


def build_sliced(pc, goal, axioms=None):
    """cone of influence at several widths: only the assumptions connected to the goal through shared symbols
    within a few steps, where symbols occurring in many assumptions (hubs such as `self` or the allocation
    counter) do not count as a connection.  Dropping assumptions is sound for proving.  Returns a list of
    SMT-LIB texts, narrowest first."""
    memo = {}
    forms = [c for f in pc for c in _conjuncts(f)]
    allf = forms + list(EXTRA)
    if len(allf) < 25:
        return None
    syms = [_symbols(f, memo) for f in allf]
    count = {}
    for ss in syms:
        for x in ss:
            count[x] = count.get(x, 0) + 1
    gsyms = _symbols(goal, memo)
    texts = []
    last = -1
    for hub, rounds in ((6, 2), (10, 3), (18, 4)):
        common = {x for x, c in count.items() if c > hub} - gsyms
        rel = set(gsyms)
        keep = [False] * len(allf)
        for _ in range(rounds):
            changed = False
            add = set()
            for i, ss in enumerate(syms):
                if not keep[i] and (ss - common) & rel:
                    keep[i] = True
                    add |= ss - common
                    changed = True
            rel |= add
            if not changed:
                break
        n = sum(keep)
        if n == last or n > 0.9 * len(allf):
            continue
        last = n
        q = [f for f, k in zip(allf, keep) if k] + [z3.Not(goal)]
        texts.append(list(relevant_axioms(q) if axioms is None else axioms) + q)
    return texts or None


def export_sliced(pc, goal, axioms=None):
    b = build_sliced(pc, goal, axioms)
    return [_text(q) for q in b] if b else None


def build_relaxed(pc, goal):
    """the same query without the axiom defining `cum` (source of candidate counterexamples)"""
    q = list(pc) + [z3.Not(goal)]
    if not mentions(q, {"prefix"}):
        return None
    return [f for f in AXIOMS if f is not PREFIX_AXIOM] + list(EXTRA) + q


def export_relaxed(pc, goal):
    return _text(build_relaxed(pc, goal))


class _Lazy:
    """a derived query, built when first asked for: list of assertions (or None), or SMT-LIB text"""

    def __init__(self, thunk):
        self.thunk = thunk
        self.done = False
        self.val = None

    def get(self):
        if not self.done:
            try:
                self.val = self.thunk()
            except Exception:
                self.val = None
            self.done = True
        return self.val


def _solver(q, timeout_ms, seed=None, options=None):
    s = z3.Solver()
    s.set("timeout", int(timeout_ms))
    if seed is not None:
        s.set("random_seed", seed)
        s.set("smt.random_seed", seed)
    for k, v in (options or {}).items():
        s.set(k, v)
    if isinstance(q, str):
        s.from_string(q)
    else:
        for f in q:
            s.add(f)
    return s


def solve_bundle(text, meta, timeout_ms=10000, cvc5_timeout_ms=20000):
    """take an exported bundle apart and run the ladder of attempts on it (see solve_text)"""
    global AXIOMS, EXTRA, PREFIX_AXIOM
    A = list(z3.parse_smt2_string(text))
    n_ax, n_ex = meta["n_ax"], meta["n_extra"]
    saved = (AXIOMS, EXTRA, PREFIX_AXIOM)
    try:
        AXIOMS = A[:n_ax]
        EXTRA = A[n_ax : n_ax + n_ex]
        PREFIX_AXIOM = next((a for a in AXIOMS if z3.is_quantifier(a) and _is_prefix_axiom(a)), None)
        pc = A[n_ax + n_ex : -1]
        neg = A[-1]
        goal = neg.arg(0) if z3.is_not(neg) else z3.Not(neg)
        axioms = list(AXIOMS) if meta.get("given_axioms") else None
        full = _Lazy(lambda: build_query(pc, goal, axioms))
        return _ladder(
            full,
            _Lazy(lambda: build_relaxed(pc, goal) if axioms is None else None),
            timeout_ms,
            cvc5_timeout_ms,
            _Lazy(lambda: build_noseq(pc, goal, axioms)),
            _Lazy(lambda: build_linear(pc, goal, axioms)),
            _Lazy(lambda: build_sliced(pc, goal, axioms)),
        )
    finally:
        AXIOMS, EXTRA, PREFIX_AXIOM = saved


class _Const:
    def __init__(self, v):
        self.v = v

    def get(self):
        return self.v


def solve_text(text, relaxed, timeout_ms=10000, cvc5_timeout_ms=20000, noseq=None, linear=None, sliced=None):
    """verdict dict for one exported query (the variants already exported as texts), or for a bundle"""
    if isinstance(relaxed, dict):
        return solve_bundle(text, relaxed, timeout_ms, cvc5_timeout_ms)
    return _ladder(_Const(text), _Const(relaxed), timeout_ms, cvc5_timeout_ms, _Const(noseq), _Const(linear), _Const(sliced))


STRATEGIES = (("eager threshold 20", {"smt.qi.eager_threshold": 20.0}), ("no mbqi", {"smt.mbqi": False, "auto_config": False}))


def _ladder(L_text, L_relaxed, timeout_ms, cvc5_timeout_ms, L_noseq, L_linear, L_sliced):
    """The attempts, all sound for proving (`unsat` of the query or of a query with fewer / weaker assumptions):
    the full query briefly; the full query under two other instantiation strategies (lazier E-matching keeps the
    frame axioms of unrelated heap maps from flooding the search; pure E-matching without model-based
    instantiation); cones of influence; the linear abstraction; the full query with the whole budget; the query
    without string assumptions; two more random seeds; cvc5.  Only a validated `sat` of the full query refutes."""
    t0 = time.time()
    T = int(timeout_ms)
    text = L_text.get()
    done = lambda note=None: {"status": "discharged", "backend": "z3", "seconds": round(time.time() - t0, 4), **({"note": note} if note else {})}
    s = _solver(text, max(1500, T // 4))
    r = s.check()
    if r == z3.unsat:
        return done()
    if r == z3.sat and _model_ok(s):
        return {"status": "refuted", "backend": "z3", "seconds": round(time.time() - t0, 4), "model": _model_str(s)}
    for label, options in STRATEGIES:
        if _solver(text, max(1500, T // 6), options=options).check() == z3.unsat:
            return done(f"instantiation strategy: {label}")
    for si, q in enumerate(L_sliced.get() or []):
        if _solver(q, max(1500, T // 8)).check() == z3.unsat:
            return done(f"cone of influence (width {si})")
    linear = L_linear.get()
    if linear and _solver(linear, max(2000, T // 3)).check() == z3.unsat:
        return done("products treated as uninterpreted")
    s = _solver(text, T)
    r = s.check()
    dt = time.time() - t0
    if r == z3.unsat:
        return done()
    short_ms = max(2000, T // 3)
    noseq = L_noseq.get() if r == z3.unknown else None
    if r == z3.unknown and noseq:
        if _solver(noseq, short_ms).check() == z3.unsat:
            return done("without string assumptions")
    if r == z3.unknown:
        # quantifier instantiation order depends on the solver's random seed: retry before giving up
        for seed in (7, 23):
            for txt in (text, noseq):
                if not txt:
                    continue
                s2 = _solver(txt, short_ms, seed)
                r2 = s2.check()
                if r2 == z3.unsat:
                    return done(f"retry seed {seed}")
                if r2 == z3.sat and txt is text and _model_ok(s2):
                    return {"status": "refuted", "backend": "z3", "seconds": round(time.time() - t0, 4), "model": _model_str(s2)}
        dt = time.time() - t0
    if r == z3.sat:
        if _model_ok(s):
            return {"status": "refuted", "backend": "z3", "seconds": round(dt, 4), "model": _model_str(s)}
        r = z3.unknown
        reason = "z3 answered sat with a model that falsifies an assertion (sequence theory): ignored"
    else:
        reason = s.reason_unknown()
    out = {"status": "undecided", "backend": "z3", "seconds": round(dt, 4), "reason": f"z3: {reason}"}
    if os.path.exists(CVC5) and cvc5_timeout_ms > 0:
        v2 = _cvc5_text("(set-logic ALL)\n" + (text if isinstance(text, str) else _text(text)), cvc5_timeout_ms)
        out["seconds"] = round(dt + v2.seconds, 4)
        if v2.status == "unsat":
            return {"status": "discharged", "backend": "cvc5", "seconds": out["seconds"]}
        if v2.status == "sat":
            # no model to validate against the assertions: reported, but not counted as a refutation
            out["reason"] += "; cvc5: sat (unvalidated)"
            return out
        out["reason"] += f"; cvc5: {v2.reason}"
    relaxed = L_relaxed.get()
    if relaxed:
        s2 = _solver(relaxed, int(min(timeout_ms, 5000)))
        if s2.check() == z3.sat:
            out["candidate_model"] = _model_str(s2)
            out["reason"] += "; candidate counterexample exists when `cum` is left uninterpreted"
    return out


def _model_ok(s):
    """a `sat` answer is only believed if the model does not falsify any ground assertion (z3's sequence
    theory has been seen to return models that do)"""
    try:
        m = s.model()
        for a in s.assertions():
            if z3.is_quantifier(a):
                continue
            v = m.eval(a, model_completion=True)
            if z3.is_false(v):
                return False
        return True
    except Exception:
        return False


def _model_str(s):
    try:
        m = s.model()
        return "; ".join(sorted(f"{d.name()} = {m[d]}" for d in m.decls()))[:4000]
    except Exception:
        return ""


def _cvc5_text(text, timeout_ms):
    t0 = time.time()
    with tempfile.NamedTemporaryFile("w", suffix=".smt2", delete=False) as fh:
        fh.write(text)
        path = fh.name
    try:
        out = subprocess.run([CVC5, "--strings-exp", f"--tlimit={int(timeout_ms)}", path], capture_output=True, text=True, timeout=timeout_ms / 1000 + 5)
        ans = out.stdout.strip().splitlines()[0] if out.stdout.strip() else ""
        reason = (out.stderr or out.stdout).strip()[:200]
    except subprocess.TimeoutExpired:
        ans, reason = "", "timeout"
    finally:
        os.unlink(path)
    dt = time.time() - t0
    if ans in ("unsat", "sat"):
        return Verdict(ans, "cvc5", dt)
    return Verdict("unknown", "cvc5", dt, None, reason)
