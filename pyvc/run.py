"""two-phase parallel driver: (1) generate the obligations of each function, (2) solve them"""

import multiprocessing as mp
import time
import traceback


def _gen(args):
    qualname, opts = args
    import specs  # noqa: F401
    from pyvc.verify import verify_function

    o = dict(opts)
    o["defer"] = True
    try:
        return verify_function(qualname, o).to_dict()
    except Exception as e:  # pragma: no cover
        return {"function": qualname, "status": "ERROR", "reason": f"{e}\n{traceback.format_exc(limit=5)}", "obligations": [], "seconds": 0, "paths": 0, "source_sha": ""}


def _solve(args):
    key, text, relaxed, t_ms, c_ms, noseq = args[:6]
    linear = args[6] if len(args) > 6 else None
    sliced = args[7] if len(args) > 7 else None
    from pyvc import smt

    try:
        return key, smt.solve_text(text, relaxed, t_ms, c_ms, noseq, linear, sliced)
    except Exception as e:
        return key, {"status": "undecided", "backend": "none", "seconds": 0.0, "reason": f"solver front end: {type(e).__name__}: {e}"}


def verify_all(qualnames, opts=None, jobs=16, pool=None):
    from pyvc.verify import settle

    opts = opts or {}
    own = pool is None
    if own:
        pool = mp.get_context("fork").Pool(jobs)
    try:
        reports = pool.map(_gen, [(q, opts) for q in qualnames], chunksize=1)
        tasks = []
        for ri, rep in enumerate(reports):
            for oi, ob in enumerate(rep["obligations"]):
                if ob.get("status") == "pending":
                    tasks.append(((ri, oi), ob.pop("smt2"), ob.pop("relaxed", None), opts.get("timeout_ms", 10000), opts.get("cvc5_timeout_ms", 20000), ob.pop("noseq", None), ob.pop("linear", None), ob.pop("sliced", None)))
        for (ri, oi), verdict in pool.imap_unordered(_solve, tasks, chunksize=1):
            reports[ri]["obligations"][oi].update(verdict)
        for rep in reports:
            settle(rep)
            rep["solver_seconds"] = round(sum(o.get("seconds", 0) for o in rep["obligations"]), 3)
    finally:
        if own:
            pool.close()
            pool.join()
    return reports
