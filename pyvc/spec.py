"""
Specification side: class schema (fields of the mutable classes), contracts, loop
specs, and the *views* through which a spec reads a symbolic state with ordinary
Python syntax (`o.self.rows[k].length`, `n.self.start`, ...).
"""

import z3

from . import smt
from .values import (
    BOOL,
    FRAG,
    GAP,
    INT,
    NONE,
    REAL,
    ROW,
    STR,
    STRSEQ,
    State,
    TDict,
    TList,
    TOpt,
    TRef,
    TRow,
    TSet,
    TTuple,
    Val,
    sort_key,
    unpack,
)

# ---------------------------------------------------------------------------
# Class schema

CLASSES = {}  # name -> dict(bases=[...], fields={attr: Ty}, id=int)


def declare_class(name, bases=(), fields=None):
    CLASSES[name] = {"bases": list(bases), "fields": dict(fields or {}), "id": len(CLASSES) + 1}


def class_mro(name):
    out = [name]
    for b in CLASSES[name]["bases"]:
        out.extend(class_mro(b))
    return out


def subclasses(name):
    return [c for c in CLASSES if name in class_mro(c)]


def field_owner(cls, attr):
    for c in class_mro(cls):
        if attr in CLASSES[c]["fields"]:
            return c
    return None


def field_type(cls, attr):
    c = field_owner(cls, attr)
    return CLASSES[c]["fields"][attr] if c else None


ALLOC0 = z3.Int("alloc@0")
RALLOC0 = z3.Int("ralloc@0")


def _is_ref(ty):
    return isinstance(ty, (TRef, TList, TDict, TSet))


def _wf_value(ty, x):
    """references stored in the initial heap were allocated before the call"""
    if _is_ref(ty):
        return x < ALLOC0
    if isinstance(ty, TOpt) and _is_ref(ty.inner):
        S = ty.sort()
        return z3.Implies(x != S.none, S.val(x) < ALLOC0)
    if isinstance(ty, TRow):
        # every Fragment object of the initial heap was created before the call
        w = z3.Implies(z3.Not(smt.isgap(x)), smt.oid(x) < RALLOC0)
        if ty.known:
            w = z3.And(w, smt.isgap(x) if ty.known == "gap" else z3.Not(smt.isgap(x)))
        return w
    return None


def _init_map(name, dom, rng):
    return z3.Const(f"{name}@0", z3.ArraySort(dom, rng))


def field_map(st, cls, attr):
    owner = field_owner(cls, attr)
    ty = CLASSES[owner]["fields"][attr]
    name = f"H.{owner}.{attr}"
    r = z3.Int("r!wf")
    w = _wf_value(ty, _init_map(name, smt.Int, ty.sort())[r])
    if w is not None:
        smt.add_extra(name, z3.ForAll([r], w))
    return name, st.hmap(name, smt.Int, ty.sort()), ty


def class_map(st):
    return st.hmap("H.$class", smt.Int, smt.Int)


# -- list maps (one family per element sort)


def list_maps(st, elem_ty):
    k = sort_key(elem_ty)
    es = elem_ty.sort()
    r = z3.Int("r!wf")
    j = z3.Int("j!wf")
    smt.add_extra(f"LLO0.{k}", z3.ForAll([r], _init_map(f"LLO.{k}", smt.Int, smt.Int)[r] == 0))
    w = _wf_value(elem_ty, _init_map(f"LA.{k}", smt.Int, z3.ArraySort(smt.Int, es))[r][j])
    if w is not None:
        smt.add_extra(f"LA.{k}", z3.ForAll([r, j], w))
    arr = st.hmap(f"LA.{k}", smt.Int, z3.ArraySort(smt.Int, es))
    lo = st.hmap(f"LLO.{k}", smt.Int, smt.Int)
    hi = st.hmap(f"LHI.{k}", smt.Int, smt.Int)
    return arr, lo, hi


def set_list(st, elem_ty, ref, arr=None, lo=None, hi=None):
    k = sort_key(elem_ty)
    A, L, H = list_maps(st, elem_ty)
    if arr is not None:
        st.heap[f"LA.{k}"] = z3.Store(A, ref, arr)
    if lo is not None:
        st.heap[f"LLO.{k}"] = z3.Store(L, ref, lo)
    if hi is not None:
        st.heap[f"LHI.{k}"] = z3.Store(H, ref, hi)


# -- dict / set maps


def dict_maps(st, kty, vty):
    k = f"{sort_key(kty)}.{sort_key(vty)}"
    r = z3.Int("r!wf")
    kk = z3.Const("k!wf", kty.sort())
    w = _wf_value(vty, _init_map(f"DV.{k}", smt.Int, z3.ArraySort(kty.sort(), vty.sort()))[r][kk])
    if w is not None:
        smt.add_extra(f"DV.{k}", z3.ForAll([r, kk], w))
    has = st.hmap(f"DH.{k}", smt.Int, z3.ArraySort(kty.sort(), smt.Bool))
    val = st.hmap(f"DV.{k}", smt.Int, z3.ArraySort(kty.sort(), vty.sort()))
    st.hmap(f"DSZ.{k}", smt.Int, smt.Int)  # len(d): declared together with the other two maps of the dict type
    return f"DH.{k}", has, f"DV.{k}", val


def set_maps(st, ety):
    k = sort_key(ety)
    has = st.hmap(f"SH.{k}", smt.Int, z3.ArraySort(ety.sort(), smt.Bool))
    return f"SH.{k}", has


# ---------------------------------------------------------------------------
# Views


def view(st, val):
    """Wrap a Val for use in a spec; scalars become raw z3 terms."""
    ty = val.ty
    if ty in (INT, BOOL, STR, REAL) or ty == STRSEQ:
        return val.z
    if isinstance(ty, TRow):
        return RowView(val.z, ty.known)
    if isinstance(ty, TRef):
        return ObjView(st, val.z, ty.cls)
    if isinstance(ty, TList):
        return ListView(st, val.z, ty.elem)
    if isinstance(ty, TDict):
        return DictView(st, val.z, ty.key, ty.val)
    if isinstance(ty, TSet):
        return SetView(st, val.z, ty.elem)
    if isinstance(ty, TOpt):
        return OptView(st, val.z, ty.inner)
    if isinstance(ty, TTuple):
        return tuple(view(st, v) for v in val.z)
    if ty == NONE:
        return None
    return val


def unview(x):
    """z3 term behind a view (for equality tests in specs)"""
    if isinstance(x, (RowView, ObjView, ListView, DictView, SetView, OptView)):
        return x.z
    return x


class RowView:
    def __init__(self, z, known=None):
        self.z = z
        self.known = known

    name = property(lambda s: smt.fname(s.z))
    start = property(lambda s: smt.fstart(s.z))
    end = property(lambda s: smt.fend(s.z))
    strand = property(lambda s: smt.fstrand(s.z))
    tags = property(lambda s: smt.ftags(s.z))
    length = property(lambda s: smt.rlen(s.z))
    gap_type = property(lambda s: smt.gtype(s.z))
    oid = property(lambda s: smt.oid(s.z))
    is_gap = property(lambda s: smt.isgap(s.z))
    is_frag = property(lambda s: z3.Not(smt.isgap(s.z)))

    def same(self, other):
        return self.z == unview(other)

    def eqv(self, other):
        """Fragment.__eq__: all slots equal"""
        o = other if isinstance(other, RowView) else RowView(other)
        return z3.And(
            self.name == o.name,
            self.start == o.start,
            self.end == o.end,
            self.strand == o.strand,
            self.tags == o.tags,
        )


class ObjView:
    def __init__(self, st, z, cls):
        object.__setattr__(self, "st", st)
        object.__setattr__(self, "z", z)
        object.__setattr__(self, "cls", cls)

    def __getattr__(self, attr):
        st, z, cls = self.st, self.z, self.cls
        pure = find_pure(cls, attr)
        if pure is not None:
            return pure(NS(st, {}), self)
        owner = field_owner(cls, attr)
        if owner is None:
            raise AttributeError(f"{cls}.{attr} not in schema")
        _, m, ty = field_map(st, cls, attr)
        return view(st, unpack(ty, z3.simplify(m[z])))

    def classid(self):
        return class_map(self.st)[self.z]

    def isinstance(self, cls):
        cid = self.classid()
        return z3.Or(*[cid == CLASSES[c]["id"] for c in subclasses(cls)])

    def same(self, other):
        return self.z == unview(other)


def _plus(a, b):
    """a + b without building `0 + k` terms (keeps quantifier triggers free of arithmetic)"""
    if isinstance(a, int):
        a = z3.IntVal(a)
    if isinstance(b, int):
        b = z3.IntVal(b)
    if z3.is_int_value(a) and a.as_long() == 0:
        return b
    if z3.is_int_value(b) and b.as_long() == 0:
        return a
    if z3.is_int_value(a) and z3.is_int_value(b):
        return z3.IntVal(a.as_long() + b.as_long())
    return a + b


def _minus(a, b):
    if isinstance(b, int):
        b = z3.IntVal(b)
    if z3.is_int_value(b) and b.as_long() == 0:
        return a
    if z3.is_int_value(a) and z3.is_int_value(b):
        return z3.IntVal(a.as_long() - b.as_long())
    return a - b


class ListView:
    def __init__(self, st, z, elem):
        self.st, self.z, self.elem = st, z, elem

    @property
    def arr(self):
        return z3.simplify(list_maps(self.st, self.elem)[0][self.z])

    @property
    def lo(self):
        # Representation choice for the pre-state: every list that exists on entry has its window
        # starting at 0 (a Python list has no `lo`; pop(0) and slices move it afterwards).
        t = z3.simplify(list_maps(self.st, self.elem)[1][self.z])
        if z3.is_select(t) and z3.is_const(t.arg(0)) and t.arg(0).decl().name().endswith("@0"):
            return z3.IntVal(0)
        return t

    @property
    def hi(self):
        return z3.simplify(list_maps(self.st, self.elem)[2][self.z])

    @property
    def len(self):
        return _minus(self.hi, self.lo)

    def __getitem__(self, k):
        if isinstance(k, int) and k < 0:
            return view(self.st, unpack(self.elem, self.arr[self.hi + k]))
        return view(self.st, unpack(self.elem, self.arr[_plus(self.lo, k)]))

    def cum(self, k):
        """total length of the first k rows"""
        p = smt.prefix(self.arr)
        lo = self.lo
        return p[_plus(lo, k)] - p[lo]

    def forall(self, body, lo=0, hi=None, name="k"):
        k = smt.fresh(name, smt.Int)
        hi = self.len if hi is None else hi
        return z3.ForAll([k], z3.Implies(z3.And(lo <= k, k < hi), body(k, self[k])))

    def same(self, other):
        return self.z == unview(other)


class DictView:
    def __init__(self, st, z, kty, vty):
        self.st, self.z, self.kty, self.vty = st, z, kty, vty

    def has(self, k):
        _, has, _, _ = dict_maps(self.st, self.kty, self.vty)
        return has[self.z][unview(k)]

    def get(self, k):
        _, _, _, val = dict_maps(self.st, self.kty, self.vty)
        return view(self.st, unpack(self.vty, val[self.z][unview(k)]))

    @property
    def size(self):
        """len(d) (the engine keeps it in step with has[] on every store / delete)"""
        from .values import sort_key

        return self.st.hmap(f"DSZ.{sort_key(self.kty)}.{sort_key(self.vty)}", smt.Int, smt.Int)[self.z]

    def raw(self, k):
        """the stored value as a term (reference or scalar), for 'unchanged' clauses"""
        _, _, _, val = dict_maps(self.st, self.kty, self.vty)
        return val[self.z][unview(k)]


class SetView:
    def __init__(self, st, z, ety):
        self.st, self.z, self.ety = st, z, ety

    def has(self, k):
        _, has = set_maps(self.st, self.ety)
        return has[self.z][unview(k)]


class OptView:
    def __init__(self, st, z, inner):
        self.st, self.z, self.inner = st, z, inner

    @property
    def is_none(self):
        return self.z == TOpt(self.inner).sort().none

    @property
    def val(self):
        S = TOpt(self.inner).sort()
        return view(self.st, unpack(self.inner, S.val(self.z)))


class NS:
    """Namespace of views over a state: parameters / locals by name."""

    def __init__(self, st, vals):
        object.__setattr__(self, "_st", st)
        object.__setattr__(self, "_vals", vals)

    def __getattr__(self, name):
        vals = object.__getattribute__(self, "_vals")
        st = object.__getattribute__(self, "_st")
        if name in vals:
            v = vals[name]
        else:
            v = st.lookup_any(name)
            if v is None:
                raise SpecInapplicable(f"spec refers to unknown name '{name}'")
        return view(st, v)

    @property
    def top(self):
        """names of the function's own frame (not of an inlined generator / closure)"""
        st = object.__getattribute__(self, "_st")
        return NS(st, dict(st.frames[0].vars))

    def has(self, name):
        vals = object.__getattribute__(self, "_vals")
        st = object.__getattribute__(self, "_st")
        return name in vals or st.lookup(name) is not None

    def raw(self, name):
        vals = object.__getattribute__(self, "_vals")
        st = object.__getattribute__(self, "_st")
        return vals[name] if name in vals else st.lookup(name)

    @property
    def state(self):
        return object.__getattribute__(self, "_st")

    @property
    def alloc(self):
        return object.__getattribute__(self, "_st").alloc

    @property
    def ralloc(self):
        return object.__getattribute__(self, "_st").ralloc


class SpecInapplicable(Exception):
    """the sidecar no longer matches the shape of the code (never a violation)"""


# ---------------------------------------------------------------------------
# Contracts


class LoopSpec:
    def __init__(self, inv=None, variant=None, types=None, frame=None, kind=None, iter_src=None, hints=None, iter_post=None):
        self.iter_post = iter_post  # lambda v, b, e: what one iteration does (b = state at the start of the body)
        self.inv = inv  # lambda v, e: formula or list of (label, formula); e = NS at loop entry
        self.variant = variant  # lambda v: int term that decreases and stays >= 0
        self.types = types or {}  # local name -> Ty for havocked locals whose type changes
        self.frame = frame  # lambda v, e: {mapname: [refs that may change]} (override)
        self.kind = kind  # 'for' | 'while'  (shape fingerprint)
        self.iter_src = iter_src  # unparsed iterable / condition text (shape fingerprint)
        self.hints = hints  # lambda v: list of formulas assumed at the loop head (lemma instances)


class Contract:
    def __init__(self, qualname):
        self.qualname = qualname
        self.params = {}  # name -> Ty
        self.result = None  # Ty
        self.requires = None  # lambda o -> formula | list
        self.ensures = None  # lambda o, n, res -> formula | list[(label, formula)]
        self.raises = {}  # exc name -> lambda o: formula (may be raised only when ...)
        self.modifies = None  # lambda o -> list of locations
        self.pure = None  # lambda o, self, *args -> view / z3 (result definition)
        self.loops = {}
        self.kind = "method"  # 'method' | 'property' | 'function' | 'init'
        self.status = "PROVE"  # 'PROVE' | 'BOUNDED' | 'TRUSTED'
        self.properties = ()
        self.ghost_exit = None  # lambda o, n, res, st: ghost updates applied before ensures
        self.note = ""
        self.fresh_result = None  # lambda st -> Val (custom allocation of the result)
        self.local_types = {}

    @property
    def short(self):
        return ".".join(self.qualname.split(".")[-2:])


REGISTRY = {}


def contract(qualname, **kw):
    """class decorator: collects the attributes of the decorated class into a Contract"""

    def deco(cls):
        c = Contract(qualname)
        for k, v in kw.items():
            setattr(c, k, v)
        for k, v in vars(cls).items():
            if k.startswith("__"):
                continue
            if isinstance(v, staticmethod):
                v = v.__func__
            setattr(c, k, v)
        if qualname in REGISTRY:
            raise ValueError(f"two contracts for {qualname}")
        REGISTRY[qualname] = c
        return c

    return deco


def find_contract(cls, attr):
    """contract of method/property `attr` looked up along the MRO of schema class cls"""
    if cls not in CLASSES:
        return None
    for c in class_mro(cls):
        for q, con in REGISTRY.items():
            if q.endswith(f".{c}.{attr}"):
                return con
    return None


def find_pure(cls, attr):
    con = find_contract(cls, attr)
    if con is not None and con.pure is not None and con.kind == "property":
        return con.pure
    return None


def conj(x):
    """normalise a spec result (formula | list of formulas | list of (label, formula))"""
    if x is None:
        return []
    if isinstance(x, (list, tuple)):
        out = []
        for i, it in enumerate(x):
            if isinstance(it, tuple):
                out.append((it[0], _b(it[1])))
            else:
                out.append((str(i), _b(it)))
        return out
    return [("0", _b(x))]


def _b(f):
    if isinstance(f, bool):
        return z3.BoolVal(f)
    return f


def forall(body, name="k"):
    k = smt.fresh(name, smt.Int)
    return z3.ForAll([k], body(k))


def forall2(body, n1="k1", n2="k2"):
    a = smt.fresh(n1, smt.Int)
    b = smt.fresh(n2, smt.Int)
    return z3.ForAll([a, b], body(a, b))


def exists(body, name="k"):
    k = smt.fresh(name, smt.Int)
    return z3.Exists([k], body(k))
