"""Python `re` pattern literals -> z3 regular expressions (the subset the repository uses), via the
parse tree of re._parser.  ASCII semantics: \\d is [0-9] (non-ASCII digits are outside every property's
stated alphabet - stated assumption)."""

import re._constants as C
import re._parser as P

import z3


class Unsupported(Exception):
    pass


def _char(c):
    return z3.Re(z3.StringVal(chr(c)))


def _in(items):
    neg = False
    alts = []
    for op, av in items:
        if op is C.NEGATE:
            neg = True
        elif op is C.LITERAL:
            alts.append(_char(av))
        elif op is C.RANGE:
            alts.append(z3.Range(chr(av[0]), chr(av[1])))
        elif op is C.CATEGORY:
            if av is C.CATEGORY_DIGIT:
                alts.append(z3.Range("0", "9"))
            elif av is C.CATEGORY_WORD:
                alts.extend([z3.Range("0", "9"), z3.Range("a", "z"), z3.Range("A", "Z"), _char(ord("_"))])
            elif av is C.CATEGORY_SPACE:
                alts.extend([_char(ord(x)) for x in " \t\n\r\f\v"])
            else:
                raise Unsupported(f"category {av}")
        else:
            raise Unsupported(f"class item {op}")
    r = alts[0] if len(alts) == 1 else z3.Union(*alts)
    if neg:
        r = z3.Intersect(z3.AllChar(z3.ReSort(z3.StringSort())), z3.Complement(r))
    return r


def _seq(items, groups):
    parts = [_node(op, av, groups) for op, av in items]
    if not parts:
        return z3.Re(z3.StringVal(""))
    return parts[0] if len(parts) == 1 else z3.Concat(*parts)


def _node(op, av, groups):
    if op is C.LITERAL:
        return _char(av)
    if op is C.NOT_LITERAL:
        return z3.Intersect(z3.AllChar(z3.ReSort(z3.StringSort())), z3.Complement(_char(av)))
    if op is C.ANY:
        return z3.Intersect(z3.AllChar(z3.ReSort(z3.StringSort())), z3.Complement(_char(10)))
    if op is C.IN:
        return _in(av)
    if op is C.BRANCH:
        alts = [_seq(list(a), groups) for a in av[1]]
        return alts[0] if len(alts) == 1 else z3.Union(*alts)
    if op is C.SUBPATTERN:
        group, _, _, sub = av
        r = _seq(list(sub), groups)
        if group:
            groups.append((group, r))
        return r
    if op in (C.MAX_REPEAT, C.MIN_REPEAT):
        lo, hi, sub = av
        r = _seq(list(sub), groups)
        if hi is C.MAXREPEAT:
            if lo == 0:
                return z3.Star(r)
            if lo == 1:
                return z3.Plus(r)
            return z3.Concat(*([r] * lo + [z3.Star(r)]))
        return z3.Loop(r, lo, hi)
    if op is C.AT:
        raise Unsupported("anchors")
    raise Unsupported(f"regex node {op}")


def to_z3(pattern):
    """(regex of the whole pattern, [(group number, regex of that group)])"""
    tree = P.parse(pattern)
    groups = []
    return _seq(list(tree), groups), groups


def group_count(pattern):
    return P.parse(pattern).state.groups - 1
