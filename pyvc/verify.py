"""
Verification of one function against its contract: set up the symbolic pre-state,
run the engine over the real AST, collect and discharge the obligations.
"""

import ast
import inspect
import time
import traceback

import z3

from . import smt, source
from .engine import Engine, Obligation, OutOfSubset, Outcome, to_val
from .spec import (
    CLASSES,
    NS,
    REGISTRY,
    SpecInapplicable,
    class_map,
    conj,
    subclasses,
    view,
)
from .values import (
    FRAG,
    GAP,
    INT,
    NONE,
    NONE_VAL,
    ROW,
    Frame,
    State,
    TDict,
    TList,
    TOpt,
    TRef,
    TRow,
    TSet,
    TTuple,
    Val,
    fresh_val,
)

NO_FRAG_INV_AXIOMS = None


def axioms_without_frag_inv():
    global NO_FRAG_INV_AXIOMS
    if NO_FRAG_INV_AXIOMS is None:
        NO_FRAG_INV_AXIOMS = smt.AXIOMS[1:]
    return NO_FRAG_INV_AXIOMS


class FunctionReport:
    def __init__(self, qualname):
        self.qualname = qualname
        self.status = "?"  # PROVED | REFUTED | UNDECIDED | OUT-OF-SUBSET | SPEC-INAPPLICABLE | ERROR | VACUOUS
        self.obligations = []  # dicts
        self.reason = ""
        self.seconds = 0.0
        self.paths = 0
        self.sha = ""
        self.fn_sha = ""
        self.line = 0

    def to_dict(self):
        return {
            "function": self.qualname,
            "function_sha": self.fn_sha,
            "status": self.status,
            "reason": self.reason,
            "seconds": round(self.seconds, 3),
            "paths": self.paths,
            "source_sha": self.sha,
            "obligations": self.obligations,
        }


def initial_state(con, fn_node, mi):
    st = State()
    st.alloc = z3.Int("alloc@0")
    st.assume(st.alloc >= 1)
    st.ralloc = z3.Int("ralloc@0")
    st.frames[0].func = (mi, fn_node)
    names = [a.arg for a in fn_node.args.posonlyargs + fn_node.args.args + fn_node.args.kwonlyargs]
    for n in names:
        if n not in con.params:
            raise SpecInapplicable(f"parameter '{n}' of {con.short} has no type in the contract")
    for n in con.params:
        if n not in names:
            raise SpecInapplicable(f"contract of {con.short} names parameter '{n}' which the function does not have")
    for n in names:
        ty = con.params[n]
        v = fresh_val(n, ty)
        if isinstance(ty, (TRef, TList, TDict, TSet)):
            st.assume(z3.And(v.z >= 1, v.z < st.alloc))
        if isinstance(ty, TOpt) and isinstance(ty.inner, (TRef, TList, TDict, TSet)):
            S = ty.sort()
            st.assume(z3.Implies(v.z != S.none, z3.And(S.val(v.z) >= 1, S.val(v.z) < st.alloc)))
        if isinstance(ty, TRef):
            cm = class_map(st)
            st.assume(z3.Or(*[cm[v.z] == CLASSES[c]["id"] for c in subclasses(ty.cls)]))
        if isinstance(ty, TRow) and ty.known:
            st.assume(smt.isgap(v.z) if ty.known == "gap" else z3.Not(smt.isgap(v.z)))
        if isinstance(ty, TRow) and not (con.kind == "init" and n == "self"):
            st.assume(z3.Implies(z3.Not(smt.isgap(v.z)), smt.oid(v.z) < st.ralloc))
        st.frames[0].vars[n] = v
    # the two console streams click.echo writes to: TextOut objects that exist on entry, different from each other
    # (whether a parameter may alias one of them is left to the solver)
    from .engine import console_ref

    so, se = console_ref("stdout"), console_ref("stderr")
    st.assume(z3.And(so >= 1, so < st.alloc, se >= 1, se < st.alloc, so != se))
    if "TextOut" in CLASSES:
        cm = class_map(st)
        st.assume(z3.And(cm[so] == CLASSES["TextOut"]["id"], cm[se] == CLASSES["TextOut"]["id"]))
    return st, names


def verify_function(qualname, opts=None):
    opts = opts or {}
    rep = FunctionReport(qualname)
    t0 = time.time()
    saved_axioms = None
    smt.reset_extra()
    try:
        con = REGISTRY[qualname]
        mi, fn = source.find_function(qualname)
        rep.sha = mi.sha
        rep.line = fn.lineno
        import hashlib

        rep.fn_sha = hashlib.sha256(ast.unparse(fn).encode()).hexdigest()[:16]
        # a decorator can change what calling the function does (memoisation keeps results across calls, ...): the
        # body alone is then not the function - only the decorators the engine gives a meaning to are accepted
        for d in fn.decorator_list:
            dt = ast.unparse(d)
            if not (dt in ("property", "cached_property", "functools.cached_property", "staticmethod", "classmethod", "contextmanager", "contextlib.contextmanager") or dt.endswith(".setter")):
                raise SpecInapplicable(f"{con.short} is decorated with @{dt}: the contract was written for the undecorated function")
        if getattr(con, "custom", None) is not None:
            # contract with its own obligation generator over the function's AST (idiom-specific rule)
            from .engine import Obligation as _Ob

            obls = [_Ob(con.short, f"{kind}:{name}@L{fn.lineno}", kind, pc, goal, fn.lineno) for kind, name, pc, goal in con.custom(mi, fn)]
            if not obls:
                rep.status = "ERROR"
                rep.reason = "no obligations generated"
                return rep
            rep.paths = 1
            if getattr(con, "also_verify", False):
                # the idiom-specific obligations are added to those of the ordinary contract (requires / ensures / loops)
                custom_obls = obls
            elif opts.get("defer"):
                for ob in obls:
                    rep.obligations.append({"name": ob.key(), "kind": ob.kind, "line": ob.line, "status": "pending",
                                            "smt2": smt.export_query(ob.pc, ob.goal), "relaxed": None, "noseq": None, "linear": None, "sliced": None})
                rep.status = "PENDING"
            else:
                _discharge(obls, rep, opts)
            if not getattr(con, "also_verify", False):
                return rep
        eng = Engine(opts)
        eng.fn = con
        eng.mi = mi
        eng.gen_stack = []
        if getattr(con, "no_frag_inv", False):
            eng.axioms = axioms_without_frag_inv()
        # loop ordinals (source order, nested closures and inlined generators excluded)
        for i, (node, fp) in enumerate(source.loops_of(fn)):
            eng.loop_ids[id(node)] = i
        for k in con.loops:
            if k < 100 and k >= len(source.loops_of(fn)):
                raise SpecInapplicable(f"loop spec #{k} but {con.short} has {len(source.loops_of(fn))} loops")
        # statement postconditions: (statement text, occurrence) -> lambda v, b, o: [(label, formula)]
        eng.stmt_posts = {}
        for (text, occ), post in (getattr(con, "stmt_post", None) or {}).items():
            found = sorted((n for n in ast.walk(fn) if isinstance(n, ast.stmt) and ast.unparse(n) == text), key=lambda n: (n.lineno, n.col_offset))
            if occ >= len(found):
                raise SpecInapplicable(f"statement postcondition: no occurrence #{occ} of '{text.splitlines()[0]}...' in {con.short}")
            eng.stmt_posts[id(found[occ])] = (f"{text.splitlines()[0][:30]}#{occ}", post)
        for extra in getattr(con, "inlined", ()):  # generators inlined into this function
            emi, efn = source.find_function(extra[0])
            for i, (node, fp) in enumerate(source.loops_of(efn)):
                eng.loop_ids[id(node)] = extra[1] + i
        if eng.axioms is not None:
            saved_axioms = smt.AXIOMS
            smt.AXIOMS = eng.axioms
        st, names = initial_state(con, fn, mi)
        args = {n: st.frames[0].vars[n] for n in names}
        old = st.clone()
        o = NS(old, dict(args))
        eng.pre_ns = o
        if con.kind == "init" and isinstance(con.params.get("self"), TRow):
            st.ghost["init_row"] = (args["self"].z, {})
        if con.requires is not None:
            for label, f in conj(con.requires(NS(st, dict(args)))):
                st.assume(f)
                old.assume(f)
        if getattr(con, "ghost_entry", None) is not None:
            con.ghost_entry(NS(st, dict(args)), st)
            old.heap = dict(st.heap)
        # vacuity: the precondition (with the axioms) must be satisfiable
        v = smt.satisfiable(st.pc, opts.get("vacuity_ms", 5000))
        if v.status == "unsat":
            rep.status = "VACUOUS"
            rep.reason = "requires is unsatisfiable"
            return rep
        is_gen = any(isinstance(n_, (ast.Yield, ast.YieldFrom)) for n_ in ast.walk(fn))
        if is_gen:
            if not isinstance(con.result, TList):
                raise SpecInapplicable(f"{con.short} is a generator: its contract must give a list result")
            from .spec import set_list

            yref = st.new_ref()
            set_list(st, con.result.elem, yref, lo=z3.IntVal(0), hi=z3.IntVal(0))
            st.frames[0].vars["_yields"] = Val(con.result, yref)
        outcomes = eng.exec_block(fn.body, st)
        if is_gen:
            for oc in outcomes:
                if oc.kind in ("normal", "return"):
                    oc.kind = "return"
                    oc.val = oc.st.frames[0].vars["_yields"]
        rep.paths = len(outcomes)
        for oc in outcomes:
            s = oc.st
            if oc.kind in ("normal", "return"):
                res = oc.val if oc.kind == "return" else NONE_VAL
                if con.result is not None and res.ty != NONE and not _compatible(res.ty, con.result):
                    raise SpecInapplicable(f"{con.short} returns {res.ty} where the contract says {con.result}")
                if con.result is not None and res is not None:
                    res = _coerce_result(eng, s, res, con.result)
                if con.ghost_exit is not None:
                    con.ghost_exit(o, NS(s, dict(args)), res, s)
                n = NS(s, dict(args))
                rv = view(s, res) if res.ty != NONE else None
                if con.kind == "init" and s.ghost.get("init_row") is not None:
                    # connect the slots assigned by __init__ with the field functions
                    r, slots = s.ghost["init_row"]
                    for slot, val in slots.items():
                        ty, f = eng.ROW_SLOTS[slot]
                        s.assume(f(r) == val.z)
                if con.pure is not None:
                    exp = con.pure(o, *[view(old, args[k]) for k in args])
                    ev = to_val(con.result, exp)
                    eng.oblige(s, "result==pure", "post", eng.eq(s, res, ev), fn.lineno)
                if con.ensures is not None:
                    for label, f in conj(con.ensures(o, n, rv)):
                        eng.oblige(s, f"ensures[{label}]", "post", f, fn.lineno)
                if getattr(con, "zero_based", None) is not None:
                    for zi, (cond, lv) in enumerate(con.zero_based(o, n, rv)):
                        eng.oblige(s, f"ensures[zero-based#{zi}]", "post", z3.Implies(cond, lv.lo == 0), fn.lineno)
                _frame_obligations(eng, con, o, old, s, fn.lineno)
            elif oc.kind == "raise":
                cond = con.raises.get(oc.val)
                if cond is None:
                    allowed = z3.BoolVal(False)
                elif len(inspect.signature(cond).parameters) >= 2:
                    # condition over the entry state and the state in which the exception is raised
                    # (locals of the function are visible by name)
                    allowed = cond(o, NS(s, dict(args)))
                else:
                    allowed = cond(o)
                site = s.ghost.get("raise_site", "?")
                only_from = (getattr(con, "raises_from", None) or {}).get(oc.val)
                if isinstance(only_from, str):
                    only_from = (only_from,)
                if only_from is not None and not any(x in str(site) for x in only_from):
                    # the contract allows this exception only out of the named callees
                    allowed = z3.BoolVal(False)
                eng.oblige(s, f"raises[{oc.val}]<-{site}", "exc", allowed, fn.lineno)
            else:
                raise OutOfSubset(f"outcome {oc.kind} at function level")
        # vacuity canary: `False` at entry must not be provable
        obls = eng.obligations
        if getattr(con, "custom", None) is not None and getattr(con, "also_verify", False):
            obls = obls + custom_obls
        if not obls:
            rep.status = "ERROR"
            rep.reason = "no obligations generated"
            return rep
        if opts.get("defer"):
            for ob in obls:
                saved = smt.AXIOMS
                rep.obligations.append(
                    {
                        "name": ob.key(),
                        "kind": ob.kind,
                        "line": ob.line,
                        "status": "pending",
                        **dict(zip(("smt2", "relaxed"), smt.export_bundle(ob.pc, ob.goal, ob.axioms))),
                        "noseq": None,
                        "linear": None,
                        "sliced": None,
                    }
                )
            rep.status = "PENDING"
        else:
            _discharge(obls, rep, opts)
    except SpecInapplicable as e:
        rep.status = "SPEC-INAPPLICABLE"
        rep.reason = str(e)
    except OutOfSubset as e:
        rep.status = "OUT-OF-SUBSET"
        rep.reason = str(e)
    except KeyError as e:
        rep.status = "SPEC-INAPPLICABLE"
        rep.reason = f"not found: {e}"
    except z3.Z3Exception as e:
        # a value that does not fit the declared sort of a container / field (e.g. a dict key of another shape): the
        # code no longer matches the types the sidecar declares - undecided, not a checker failure
        rep.status = "SPEC-INAPPLICABLE"
        rep.reason = f"a value does not fit the types declared in the contract: {str(e)[:200]}"
    except Exception as e:  # engine crash: checker error, never a violation
        rep.status = "ERROR"
        rep.reason = f"{type(e).__name__}: {e}\n{traceback.format_exc(limit=-12)}"
    finally:
        if saved_axioms is not None:
            smt.AXIOMS = saved_axioms
        rep.seconds = time.time() - t0
    return rep


def _compatible(a, b):
    if a == b:
        return True
    if isinstance(b, TOpt):
        return a == NONE or _compatible(a, b.inner) or isinstance(a, TOpt)
    if isinstance(a, TOpt):
        return _compatible(a.inner, b)
    if isinstance(a, TRow) and isinstance(b, TRow):
        return True
    if isinstance(a, TRef) and isinstance(b, TRef):
        return True
    if isinstance(a, TTuple) and isinstance(b, TTuple) and len(a.elems) == len(b.elems):
        return all(_compatible(x, y) for x, y in zip(a.elems, b.elems))
    from .values import BOOL, REAL

    if a == INT and b == REAL:
        return True
    return type(a) is type(b)


def _coerce_result(eng, s, res, ty):
    if isinstance(res.ty, TOpt) and not isinstance(ty, TOpt):
        from .values import unpack

        eng.oblige(s, "result-not-None", "post", res.z != res.ty.sort().none, 0)
        return unpack(res.ty.inner, res.ty.sort().val(res.z))
    if isinstance(ty, TOpt) and not isinstance(res.ty, TOpt):
        from .values import pack

        return Val(ty, pack(res, ty))
    if isinstance(ty, TTuple) and isinstance(res.ty, TTuple):
        return Val(ty, tuple(_coerce_result(eng, s, r, t) for r, t in zip(res.z, ty.elems)))
    return res


def _frame_obligations(eng, con, o, old, s, line):
    """every heap location outside the declared frame keeps its value (for references that
    existed on entry)"""
    if getattr(con, "no_frame", False):
        return
    allowed = {}
    if con.modifies is not None:
        for loc in con.modifies(o):
            if loc[0] == "field":
                from .spec import field_owner

                owner = field_owner(loc[1], loc[2])
                allowed.setdefault(f"H.{owner}.{loc[2]}", []).append(loc[3])
            elif loc[0] == "list":
                from .values import sort_key

                k = sort_key(loc[1])
                for nm in (f"LA.{k}", f"LLO.{k}", f"LHI.{k}"):
                    allowed.setdefault(nm, []).append(loc[2])
            elif loc[0] == "list-append":
                from .values import sort_key

                k = sort_key(loc[1])
                for nm in (f"LA.{k}", f"LHI.{k}"):
                    allowed.setdefault(nm, []).append(loc[2])
            elif loc[0] == "map":
                allowed[loc[1]] = None
            elif loc[0] == "dict-maps":
                from .values import sort_key as _sk

                k = f"{_sk(loc[1])}.{_sk(loc[2])}"
                for nm in (f"DH.{k}", f"DV.{k}", f"DSZ.{k}"):
                    allowed[nm] = None
            elif loc[0] == "fresh-objs":
                pass  # only references allocated during the call: the default frame (r < alloc@0) applies
    for name, cur in s.heap.items():
        init = z3.Const(f"{name}@0", cur.sort())
        if cur.eq(init):
            continue
        if name in allowed and allowed[name] is None:
            continue
        r = smt.fresh("r", smt.Int)
        conds = [r < z3.Int("alloc@0")]
        from .spec import unview

        for x in allowed.get(name, []):
            conds.append(r != unview(x))
        eng.oblige(s, f"frame[{name}]", "frame", z3.ForAll([r], z3.Implies(z3.And(*conds), cur[r] == init[r])), line)


def _discharge(obls, rep, opts):
    t_ms = opts.get("timeout_ms", 10000)
    c_ms = opts.get("cvc5_timeout_ms", 20000)
    worst = "PROVED"
    for ob in obls:
        saved = smt.AXIOMS
        if ob.axioms is not None:
            smt.AXIOMS = ob.axioms
        try:
            v = smt.prove(ob.pc, ob.goal, t_ms, True, c_ms, want_model=True)
        finally:
            smt.AXIOMS = saved
        d = {
            "name": ob.key(),
            "kind": ob.kind,
            "line": ob.line,
            "status": {"unsat": "discharged", "sat": "refuted", "unknown": "undecided"}[v.status],
            "backend": v.backend,
            "seconds": round(v.seconds, 4),
        }
        if v.status == "sat":
            d["model"] = _model_text(v.model)
            worst = "REFUTED"
        elif v.status == "unknown":
            d["reason"] = v.reason
            if worst == "PROVED":
                worst = "UNDECIDED"
        if opts.get("keep_smt"):
            d["smt"] = _smt_text(ob)
        rep.obligations.append(d)
    rep.status = worst


def _model_text(m):
    if m is None:
        return ""
    try:
        items = []
        for d in m.decls():
            n = d.name()
            if "!" in n and not n.split("!")[0] in ("self", "othr"):
                pass
            items.append(f"{n} = {m[d]}")
        return "; ".join(sorted(items))[:4000]
    except Exception:
        return str(m)[:4000]


def _smt_text(ob):
    s = z3.Solver()
    for f in ob.pc:
        s.add(f)
    s.add(z3.Not(ob.goal))
    return s.to_smt2()


def settle(rep_dict):
    """function status from the statuses of its (solved) obligations"""
    if rep_dict["status"] != "PENDING":
        return rep_dict
    st = "PROVED"
    for o in rep_dict["obligations"]:
        if o["status"] == "refuted":
            st = "REFUTED"
            break
        if o["status"] != "discharged":
            st = "UNDECIDED"
    rep_dict["status"] = st
    return rep_dict
