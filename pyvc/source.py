"""
Access to the real source under /repo/src: every run re-reads and re-parses the files.
Nothing is extracted, rewritten or cached across runs.
"""

import ast
import hashlib
import os

REPO_SRC = os.environ.get("PYVC_REPO_SRC") or os.path.join(os.environ.get("VERIF_REPO") or "/repo", "src")


class ModuleInfo:
    def __init__(self, modname, path=None, text=None):
        self.modname = modname
        self.path = path or os.path.join(REPO_SRC, *modname.split(".")) + ".py"
        if text is None:
            with open(self.path, encoding="utf-8") as fh:
                text = fh.read()
        self.text = text
        self.sha = hashlib.sha256(text.encode()).hexdigest()[:16]
        self.tree = ast.parse(text, filename=self.path)
        self.functions = {}  # 'f' or 'Cls.f' -> FunctionDef
        self.classes = {}  # name -> ClassDef
        self.class_consts = {}  # 'Cls.NAME' -> ast expr
        self.consts = {}  # NAME -> ast expr (module level simple assignments)
        self.imports = {}  # local name -> dotted target
        self.decorators = {}
        for node in self.tree.body:
            if isinstance(node, ast.FunctionDef):
                self.functions[node.name] = node
            elif isinstance(node, ast.ClassDef):
                self.classes[node.name] = node
                for sub in node.body:
                    if isinstance(sub, ast.FunctionDef):
                        key = f"{node.name}.{sub.name}"
                        decos = [ast.unparse(d) for d in sub.decorator_list]
                        if any(d.endswith(".setter") for d in decos):
                            key += "$setter"
                        self.functions[key] = sub
                        self.decorators[key] = decos
                    elif isinstance(sub, ast.Assign) and len(sub.targets) == 1 and isinstance(sub.targets[0], ast.Name):
                        self.class_consts[f"{node.name}.{sub.targets[0].id}"] = sub.value
            elif isinstance(node, ast.Assign) and len(node.targets) == 1 and isinstance(node.targets[0], ast.Name):
                self.consts[node.targets[0].id] = node.value
            elif isinstance(node, ast.Import):
                for a in node.names:
                    self.imports[a.asname or a.name.split(".")[0]] = a.name
            elif isinstance(node, ast.ImportFrom):
                for a in node.names:
                    self.imports[a.asname or a.name] = f"{node.module}.{a.name}"

    def is_property(self, key):
        return "property" in self.decorators.get(key, []) or "cached_property" in self.decorators.get(key, [])


_cache = {}


def load(modname, fresh=False):
    if fresh or modname not in _cache:
        _cache[modname] = ModuleInfo(modname)
    return _cache[modname]


def override(modname, text):
    """install an in-memory variant of a module (self-test mutants); returns the ModuleInfo"""
    mi = ModuleInfo(modname, text=text)
    _cache[modname] = mi
    return mi


def reset():
    _cache.clear()


def split_qualname(qualname):
    """'tola.assembly.fragment.Fragment.overlaps' -> ('tola.assembly.fragment', 'Fragment.overlaps')"""
    parts = qualname.split(".")
    for i in range(len(parts), 0, -1):
        mod = ".".join(parts[:i])
        path = os.path.join(REPO_SRC, *parts[:i]) + ".py"
        if os.path.exists(path) or mod in _cache:
            return mod, ".".join(parts[i:])
    raise KeyError(qualname)


def find_function(qualname):
    mod, key = split_qualname(qualname)
    mi = load(mod)
    if key not in mi.functions:
        raise KeyError(f"{key} not found in {mod}")
    return mi, mi.functions[key]


def loops_of(fn):
    """loops of a function in source order (nested function bodies included), with a shape fingerprint"""
    out = []

    def walk(node):
        for child in ast.iter_child_nodes(node):
            if isinstance(child, (ast.For, ast.While)):
                if isinstance(child, ast.For):
                    fp = ("for", ast.unparse(child.target), ast.unparse(child.iter))
                else:
                    fp = ("while", "", ast.unparse(child.test))
                out.append((child, fp))
            walk(child)

    walk(fn)
    return out
