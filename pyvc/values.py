"""
Static type descriptors, symbolic values and the path state (locals, heap maps,
path condition) of the symbolic executor.
"""

import z3

from . import smt


class Ty:
    def sort(self):
        raise NotImplementedError

    def __eq__(self, other):
        return type(self) is type(other) and self.__dict__ == other.__dict__

    def __hash__(self):
        return hash(repr(self))

    def __repr__(self):
        args = ",".join(f"{v!r}" for v in self.__dict__.values())
        return f"{type(self).__name__}({args})"


class TInt(Ty):
    def sort(self):
        return smt.Int


class TBool(Ty):
    def sort(self):
        return smt.Bool


class TStr(Ty):
    def sort(self):
        return smt.Str


class TReal(Ty):
    def sort(self):
        return smt.Real


class TNone(Ty):
    def sort(self):
        return smt.Bool  # never stored on its own


class TRow(Ty):
    """A Fragment or a Gap object; `known` narrows it statically."""

    def __init__(self, known=None):
        self.known = known

    def sort(self):
        return smt.Row


class TLine(Ty):
    """one line of a binary FASTA file (smt.Line)"""

    def sort(self):
        return smt.Line


class TStrSeq(Ty):
    """tuple of str (Fragment.tags)"""

    def sort(self):
        return smt.StrSeq


class TRef(Ty):
    """reference to an object of class cls or of a subclass; exact=True: of class cls itself (what a constructor call
    returns, or what a container is declared to hold) - members are then not dispatched over subclasses"""

    def __init__(self, cls, exact=False):
        self.cls = cls
        self.exact = exact

    def __eq__(self, other):
        return type(other) is TRef and self.cls == other.cls

    def __hash__(self):
        return hash(("TRef", self.cls))

    def __repr__(self):
        return f"TRef({self.cls!r})"

    def sort(self):
        return smt.Int


class TList(Ty):
    def __init__(self, elem):
        self.elem = elem

    def sort(self):
        return smt.Int


class TDict(Ty):
    def __init__(self, key, val):
        self.key = key
        self.val = val

    def sort(self):
        return smt.Int


class TSet(Ty):
    def __init__(self, elem):
        self.elem = elem

    def sort(self):
        return smt.Int


class TTuple(Ty):
    def __init__(self, elems):
        self.elems = tuple(elems)

    def sort(self):
        return smt.tuple_sort([e.sort() for e in self.elems])


class TOpt(Ty):
    def __init__(self, inner):
        self.inner = inner

    def sort(self):
        return smt.opt_sort(self.inner.sort())


class TStrList(Ty):
    """a *local, never aliased* list of str modelled as a sequence value (the engine checks that the
    name is only ever built up with list displays / extend / append and consumed by join)"""

    def sort(self):
        return smt.StrSeq


class TMatch(Ty):
    """result of re.match: python-side (pattern, subject term); truthiness and groups are uninterpreted
    functions of the subject named after the pattern (lexing model)"""

    def sort(self):
        raise TypeError("match objects are not storable")


class TFunc(Ty):
    """closure / lambda / bound generator: python-side only"""

    def sort(self):
        raise TypeError("function values are not storable")


class TConst(Ty):
    """python-side constant (class object, module, literal dict...)"""

    def sort(self):
        raise TypeError("constants are not storable")


INT, BOOL, STR, REAL, NONE = TInt(), TBool(), TStr(), TReal(), TNone()
ROW, FRAG, GAP = TRow(), TRow("frag"), TRow("gap")
STRSEQ = TStrSeq()
STRLIST = TStrList()


class TBytes(TTuple):
    """abstract bytes value: (kind, first, n) - see specs/fasta.py; a type of its own so that an ordinary
    tuple of three ints is never mistaken for it"""


BYTES = TBytes([INT, INT, INT])
LINE = TLine()


class TSpan(TTuple):
    """a match object of re.finditer over bytes, reduced to its span: (start, end)"""


SPAN = TSpan([INT, INT])


class Val:
    __slots__ = ("ty", "z")

    def __init__(self, ty, z):
        self.ty = ty
        self.z = z

    def __repr__(self):
        return f"Val({self.ty!r}, {self.z})"


NONE_VAL = Val(NONE, None)


def mk_int(n):
    return Val(INT, z3.IntVal(n) if isinstance(n, int) else n)


def mk_bool(b):
    return Val(BOOL, z3.BoolVal(b) if isinstance(b, bool) else b)


def mk_str(s):
    return Val(STR, z3.StringVal(s) if isinstance(s, str) else s)


def pack(val, ty=None):
    """z3 term of sort ty.sort() holding `val` (for storing into arrays / fields)."""
    ty = ty or val.ty
    if isinstance(ty, TOpt):
        S = ty.sort()
        if isinstance(val.ty, TNone):
            return S.none
        if isinstance(val.ty, TOpt):
            return val.z
        return S.some(pack(val, ty.inner))
    if isinstance(ty, TTuple):
        if isinstance(val.z, tuple):
            return ty.sort().mk(*[pack(v, t) for v, t in zip(val.z, ty.elems)])
        return val.z
    if isinstance(ty, TReal) and isinstance(val.ty, TInt):
        return z3.ToReal(val.z)
    return val.z


def unpack(ty, z):
    """Val for a z3 term read from an array / field of declared type ty."""
    if isinstance(ty, TTuple):
        S = ty.sort()
        return Val(ty, tuple(unpack(t, S.accessor(0, i)(z)) for i, t in enumerate(ty.elems)))
    return Val(ty, z)


def fresh_val(name, ty):
    if isinstance(ty, TNone):
        return NONE_VAL
    if isinstance(ty, TTuple):
        return Val(ty, tuple(fresh_val(f"{name}.{i}", t) for i, t in enumerate(ty.elems)))
    return Val(ty, smt.fresh(name, ty.sort()))


def sort_key(ty):
    """name of the element sort used to pick the per-sort list / dict maps"""
    return str(ty.sort()).replace(" ", "")


MAP_SORTS = {}  # heap map name -> (domain sort, range sort)


class Frame:
    __slots__ = ("vars", "parent", "nonlocals", "func")

    def __init__(self, parent=None, func=None):
        self.vars = {}
        self.parent = parent  # index into State.frames or None
        self.nonlocals = set()
        self.func = func

    def clone(self):
        f = Frame(self.parent, self.func)
        f.vars = dict(self.vars)
        f.nonlocals = set(self.nonlocals)
        return f


class State:
    def __init__(self):
        self.frames = [Frame()]
        self.cur = 0  # index of the current frame
        self.heap = {}  # map name -> z3 array
        self.pc = []
        self.alloc = None  # z3 Int: next free reference
        self.ralloc = None  # z3 Int: allocation stamp of the next Fragment object (identity / freshness)
        self.ghost = {}  # free-form ghost data (python-side, cloned shallowly)
        self.trace = []  # line numbers of branch decisions (for reports)

    def clone(self):
        s = State()
        s.frames = [f.clone() for f in self.frames]
        s.cur = self.cur
        s.heap = dict(self.heap)
        s.pc = list(self.pc)
        s.alloc = self.alloc
        s.ralloc = self.ralloc
        s.ghost = dict(self.ghost)
        s.trace = list(self.trace)
        return s

    def assume(self, f):
        if z3.is_true(f):
            return
        self.pc.append(f)

    # -- variables
    def lookup(self, name):
        i = self.cur
        while i is not None:
            fr = self.frames[i]
            if name in fr.vars:
                return fr.vars[name]
            i = fr.parent
        return None

    def lookup_any(self, name):
        """innermost visible binding, else the binding in any live frame (spec access to a
        consumer's locals from inside an inlined generator or closure)"""
        v = self.lookup(name)
        if v is not None:
            return v
        for fr in reversed(self.frames):
            if name in fr.vars:
                return fr.vars[name]
        return None

    def assign(self, name, val):
        fr = self.frames[self.cur]
        if name in fr.nonlocals:
            i = fr.parent
            while i is not None:
                if name in self.frames[i].vars:
                    self.frames[i].vars[name] = val
                    return
                i = self.frames[i].parent
            raise KeyError(f"nonlocal {name} not found")
        fr.vars[name] = val

    def owner_frame(self, name):
        """index of the frame an assignment to `name` from the current frame lands in"""
        fr = self.frames[self.cur]
        if name in fr.nonlocals:
            i = fr.parent
            while i is not None:
                if name in self.frames[i].vars:
                    return i
                i = self.frames[i].parent
        return self.cur

    # -- heap
    def hmap(self, name, sort_dom, sort_rng):
        m = self.heap.get(name)
        if m is None:
            m = z3.Const(f"{name}@0", z3.ArraySort(sort_dom, sort_rng))
            self.heap[name] = m
            MAP_SORTS[name] = (sort_dom, sort_rng)
        return m

    def new_ref(self):
        r = self.alloc
        self.alloc = r + 1
        return r
