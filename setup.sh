#!/bin/bash
# Builds /verif/.venv offline: Python 3.12 (the interpreter the repository's tests use) with the
# verification tooling from the offline wheelhouse, and the repository's own dependencies made
# visible through a .pth file.  Idempotent; every check calls it.
set -e
HERE="$(cd "$(dirname "$0")" && pwd)"
VENV="$HERE/.venv"
STAMP="$VENV/.ready"
if [ -f "$STAMP" ] && "$VENV/bin/python" -c "import z3, jsonschema" 2>/dev/null; then
    exit 0
fi
(
    flock 9
    if [ -f "$STAMP" ] && "$VENV/bin/python" -c "import z3, jsonschema" 2>/dev/null; then
        exit 0
    fi
    rm -rf "$VENV"
    /venv/bin/python -m venv "$VENV"
    PIP_NO_INDEX=1 "$VENV/bin/pip" install -q --no-index --find-links /opt/veriftools/wheels \
        z3-solver cvc5 crosshair-tool deal icontract hypothesis jsonschema
    SP="$VENV/lib/python3.12/site-packages"
    echo "import site; site.addsitedir('/venv/lib/python3.12/site-packages')" > "$SP/zz_repo_deps.pth"
    "$VENV/bin/python" -c "import z3, tola.assembly.build_assembly, click, yaml, jsonschema"
    touch "$STAMP"
) 9>"$HERE/.venv.lock"
