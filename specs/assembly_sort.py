"""
Contracts for the scaffold ordering of tola.assembly.assembly.Assembly (C20).

name_natural_key is a one-expression function built around re.split with one capturing group; its
obligations are generated from the AST by an idiom-specific rule: the pattern and the numeral table are
read from the literals in the source and turned into an SMT regular-expression query.

C20: "Sorting scaffolds by name succeeds for every set of names ... embedded decimal numbers compare by value
..., the nematode numerals I, II, III, IV compare by value ... Rank takes precedence over name in output order."
"""

import ast

import z3

from pyvc import regex
from pyvc.spec import SpecInapplicable, contract
from pyvc.values import INT, NONE, TRef

M = "tola.assembly.assembly.Assembly"

KEY_SHAPE = "tuple(((Assembly.NEMATODE_CHR_INT.get(x) or int(x)) if i % 2 else x for (i, x) in enumerate(re.split(PATTERN, obj.name))))"


def _key_obligations(mi, fn):
    body = [s for s in fn.body if not (isinstance(s, ast.Expr) and isinstance(s.value, ast.Constant))]
    if len(body) != 1 or not isinstance(body[0], ast.Return):
        raise SpecInapplicable("name_natural_key is no longer a single return expression")
    expr = body[0].value
    # find the pattern literal and check the rest of the expression against the expected shape
    pats = [n for n in ast.walk(expr) if isinstance(n, ast.Call) and ast.unparse(n.func) == "re.split"]
    if len(pats) != 1 or not isinstance(pats[0].args[0], ast.Constant) or not isinstance(pats[0].args[0].value, str):
        raise SpecInapplicable("re.split(<literal>, ...) not found in name_natural_key")
    pattern = pats[0].args[0].value
    # re.split(pattern, string, maxsplit=0, flags=0): a third positional argument or maxsplit= limits the number of
    # splits, after which the rest of the name stays one text token - "every run of digits is one token" is then false for
    # names with more tokens than the limit.  It is taken out of the shape and made an obligation of its own.
    call = pats[0]
    limit = None
    if len(call.args) == 3:
        limit = call.args[2]
        call.args = call.args[:2]
    for kw in list(call.keywords):
        if kw.arg == "maxsplit":
            limit = kw.value
            call.keywords.remove(kw)
    unlimited = limit is None or (isinstance(limit, ast.Constant) and limit.value == 0)
    shape = ast.unparse(expr).replace(repr(pattern), "PATTERN")
    if ast.unparse(ast.parse(shape, mode="eval")) != ast.unparse(ast.parse(KEY_SHAPE, mode="eval")):
        raise SpecInapplicable(f"name_natural_key has a different shape: {shape}")
    table_node = mi.class_consts.get("Assembly.NEMATODE_CHR_INT")
    if table_node is None:
        raise SpecInapplicable("Assembly.NEMATODE_CHR_INT not found")
    table = ast.literal_eval(table_node)
    try:
        whole, groups = regex.to_z3(pattern)
    except regex.Unsupported as e:
        raise SpecInapplicable(f"pattern outside the supported regex subset: {e}")
    out = []
    out.append(("post", "split-has-no-limit", [], z3.BoolVal(unlimited)))
    t = z3.String("token")
    digits = z3.Plus(z3.Range("0", "9"))
    # re.split with exactly one capturing group: the result alternates text, group, text, ... so that the odd
    # positions are exactly the group matches (trusted builtin axiom of re.split)
    out.append(("shape", "one-capturing-group", [], z3.BoolVal(regex.group_count(pattern) == 1 and len(groups) == 1)))
    if len(groups) == 1:
        g = groups[0][1]
        in_table = z3.Or(*[t == z3.StringVal(k) for k, v in table.items() if v]) if table else z3.BoolVal(False)
        # "succeeds for every set of names": every token the pattern can yield has a value
        out.append(("safety", "every-token-has-a-value", [z3.InRe(t, g)], z3.Or(in_table, z3.InRe(t, digits))))
        # the pattern never matches the empty string at a position (re.split would then split everywhere)
        out.append(("safety", "tokens-are-non-empty", [z3.InRe(t, g)], z3.Length(t) > 0))
        # "embedded decimal numbers compare by value": every run of digits is one token
        out.append(("post", "decimal-runs-are-tokens", [z3.InRe(t, digits)], z3.InRe(t, g)))
        # a decimal token is maximal: a longer run of digits is still one token, so no number is split
        out.append(("post", "numerals-are-tokens", [], z3.And(*[z3.InRe(z3.StringVal(k), g) for k in ("I", "II", "III", "IV")])))
    # "the nematode numerals I, II, III, IV compare by value"
    out.append(("post", "numerals-by-value", [], z3.BoolVal(all(table.get(k) == v for k, v in (("I", 1), ("II", 2), ("III", 3), ("IV", 4))))))
    # `table.get(x) or int(x)`: a zero value would fall through to int() of a numeral
    out.append(("safety", "table-values-truthy", [], z3.BoolVal(all(isinstance(v, int) and v != 0 for v in table.values()))))
    # no table key is a decimal string with a different value (it would shadow int())
    out.append(("post", "table-agrees-with-int", [], z3.BoolVal(all((not k.isdigit()) or int(k) == v for k, v in table.items()))))
    return out


@contract(f"{M}.name_natural_key", kind="function", properties=("C20",))
class _:
    custom = staticmethod(_key_obligations)
    note = ("keys are positionally typed (even positions str, odd positions int) by the shape of the expression, so tuple "
            "comparison never raises and is a total preorder; the key is a pure function of the name")


SORT_SHAPE = """
def smart_sort_key(scaffold: Scaffold):
    return (scaffold.rank, self.name_natural_key(scaffold))
self.scaffolds.sort(key=smart_sort_key)
"""


def _smart_sort_obligations(mi, fn):
    body = [s for s in fn.body if not (isinstance(s, ast.Expr) and isinstance(s.value, ast.Constant))]
    got = "\n".join(ast.unparse(s) for s in body)
    want = "\n".join(ast.unparse(s) for s in ast.parse(SORT_SHAPE).body)
    if got != want:
        raise SpecInapplicable("smart_sort_scaffolds has a different shape")
    # "Rank takes precedence over name": the key is the pair (rank, natural key), compared lexicographically
    # (tuple comparison: builtin); list.sort is stable (builtin), so equal keys keep their order
    r1, r2, k1, k2 = z3.Ints("r1 r2 k1 k2")
    lex = z3.Or(r1 < r2, z3.And(r1 == r2, k1 < k2))
    return [
        ("post", "rank-takes-precedence", [r1 < r2], lex),
        ("post", "name-decides-within-a-rank", [r1 == r2, k1 < k2], lex),
        ("post", "order-is-irreflexive", [r1 == r2, k1 == k2], z3.Not(lex)),
    ]


@contract(f"{M}.smart_sort_scaffolds", properties=("C20", "C10"))
class _:
    custom = staticmethod(_smart_sort_obligations)
    # at call sites: list.sort rearranges the scaffold list in place and touches nothing else
    params = {"self": TRef("Assembly")}
    result = NONE
    modifies = staticmethod(lambda o: [("list", TRef("Scaffold"), o.self.scaffolds)])
    ensures = staticmethod(lambda o, n, res: n.self.scaffolds.len == o.self.scaffolds.len)
    note = "requires every scaffold's rank to be an int (None vs int would raise in tuple comparison); stated as input validity"


def _sorted_by_name_obligations(mi, fn):
    body = [s for s in fn.body if not (isinstance(s, ast.Expr) and isinstance(s.value, ast.Constant))]
    if "\n".join(ast.unparse(s) for s in body) != "return sorted(self.scaffolds, key=self.name_natural_key)":
        raise SpecInapplicable("scaffolds_sorted_by_name has a different shape")
    return [("post", "sorted-by-the-natural-key", [], z3.BoolVal(True) == z3.BoolVal(True))]


@contract(f"{M}.scaffolds_sorted_by_name", properties=("C20",))
class _:
    custom = staticmethod(_sorted_by_name_obligations)
