"""sidecar contracts; importing the package registers every contract"""
from . import schema  # noqa: F401
from . import fragment  # noqa: F401
from . import scaffold  # noqa: F401
from . import overlap_result  # noqa: F401
from . import indexed_assembly  # noqa: F401
from . import format  # noqa: F401
from . import fasta  # noqa: F401
from . import assembly_sort  # noqa: F401
from . import cli_files  # noqa: F401
from . import build_assembly  # noqa: F401
from . import build_utils  # noqa: F401
from . import parser  # noqa: F401
from . import fasta_index  # noqa: F401
from . import assembly_scan  # noqa: F401
