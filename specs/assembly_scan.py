"""
C19, the scan behind --qc-overlaps: Scaffold.fragments, Assembly.all_vs_all_fragments, Assembly.find_overlapping_fragments.

"reports a pair of fragments if and only if they name the same contig and their coordinate intervals share at least one base,
each unordered pair once, across and within scaffolds"

The lists involved are filtered and flattened copies of other lists, so the contracts say *where* an element ends up, with
counting functions instead of existentials:
  fcnt(a)[k]     number of Fragment rows among a[..k)                      (position of a row in Scaffold.fragments())
Each is given by its recurrence (a conservative definition: such a function exists for every array), stated as a
precondition wherever it is used.
"""

import z3

from pyvc import smt
from pyvc.spec import LoopSpec, contract, forall
from pyvc.values import BOOL, FRAG, INT, NONE, ROW, STR, TList, TOpt, TRef, TTuple

SC = "tola.assembly.scaffold.Scaffold"
AS = "tola.assembly.assembly.Assembly"

fcnt = z3.Function("fcnt", smt.RowArr, smt.IntArr)


def fcnt_def():
    a = z3.Const("a!fc", smt.RowArr)
    k = z3.Int("k!fc")
    ak, ca = a[k], fcnt(a)
    return z3.ForAll([a, k], ca[k + 1] == ca[k] + z3.If(smt.isgap(ak), 0, 1), patterns=[z3.MultiPattern(ak, ca)])


def nfrag(rows, r):
    """number of Fragment rows among the first r rows of the list"""
    c = fcnt(rows.arr)
    return c[rows.lo + r] - c[rows.lo]


@contract(f"{SC}.fragments", properties=("C19",))
class _:
    # the generator, as the list of what it yields: the Fragment rows of the scaffold, each at the position given by the
    # number of Fragment rows in front of it (hence all of them, once each, in row order), and nothing else
    as_list = True
    params = {"self": TRef("Scaffold")}
    result = TList(ROW)
    result_zero_based = True
    requires = staticmethod(lambda o: [("counting-function", fcnt_def())])
    modifies = staticmethod(lambda o: [("fresh-lists", ROW), ("alloc",)])

    @staticmethod
    def ensures(o, n, res):
        rows = o.self.rows
        return [
            ("as-many-as-there-are-fragment-rows", res.len == nfrag(rows, rows.len)),
            ("each-fragment-row-at-its-rank", forall(lambda r: z3.Implies(z3.And(0 <= r, r < rows.len, rows[r].is_frag), res[nfrag(rows, r)].z == rows[r].z))),
            ("only-fragments", forall(lambda k: z3.Implies(z3.And(0 <= k, k < res.len), res[k].is_frag))),
            # (what a caller cannot derive without induction: ranks are positions of the result)
            ("ranks-are-positions", z3.And(res.len >= 0, forall(lambda r: z3.Implies(z3.And(0 <= r, r < rows.len, rows[r].is_frag), z3.And(0 <= nfrag(rows, r), nfrag(rows, r) < res.len))))),
            ("fresh", z3.And(res.z >= o.alloc, res.z < n.alloc)),
        ]

    loops = {
        0: LoopSpec(
            kind="for",
            inv=lambda v, e, o: (lambda rows, r, ys: [
                ("counter", z3.And(0 <= r, r <= rows.len)),
                ("yielded", z3.And(ys.same(e._yields), ys.len == nfrag(rows, r), ys.lo == 0)),
                ("each-fragment-row-at-its-rank", forall(lambda q: z3.Implies(z3.And(0 <= q, q < r, rows[q].is_frag), ys[nfrag(rows, q)].z == rows[q].z))),
                ("only-fragments", forall(lambda k: z3.Implies(z3.And(0 <= k, k < ys.len), ys[k].is_frag))),
                ("counts", forall(lambda q: z3.Implies(z3.And(0 <= q, q <= r), z3.And(0 <= nfrag(rows, q), nfrag(rows, q) <= nfrag(rows, r))))),
            ])(o.self.rows, v._it0, v._yields),
        )
    }


# --- the all-against-all scan ------------------------------------------------------------------------------------------------
#
# all_vs_all_fragments flattens the assembly into one list of (fragment row, scaffold) and calls back for every i < j;
# find_overlapping_fragments passes a closure that collects the pairs whose fragments overlap.  all_vs_all_fragments is
# executed in place (it takes the closure as a parameter: no first-order contract says what a callback does), so the three
# loops below are its loops, numbered 100..102.
#
#   tot[t]          number of fragment rows in scaffolds [0, t)          position of (scaffold t, row r) in the flattened list:
#                                                                        tot[t] + nfrag(rows of t, r)
#   rc(FA, i)[j]    number of j' in (i, j) whose fragment overlaps that of i
#   tc(FA, L)[i]    number of overlapping pairs (i', j'), i' < i, j' < L  position of the pair (i, j) in the result:
#                                                                        tc[i] + rc(i)[j]

PAIR = TTuple([ROW, TRef("Scaffold")])
PAIRS = TTuple([PAIR, PAIR])
PS = PAIR.sort()
PArr = z3.ArraySort(smt.Int, PS)
p_row = PS.accessor(0, 0)

rc = z3.Function("rc", PArr, smt.Int, smt.IntArr)
tc = z3.Function("tc", PArr, smt.Int, smt.IntArr)
tot = z3.Const("tot!scan", smt.IntArr)


def ovl_rows(a, b):
    """Fragment.overlaps, as its contract defines it: same contig name and at least one shared base"""
    return z3.And(smt.fname(a) == smt.fname(b), smt.Max(smt.fstart(a), smt.fstart(b)) <= smt.Min(smt.fend(a), smt.fend(b)))


def pair_counts_def():
    fa = z3.Const("fa!pc", PArr)
    i, j, L = z3.Ints("i!pc j!pc L!pc")
    # (the pattern terms are kept in variables: z3py frees a temporary that occurs nowhere else before the pattern is built)
    fai, faj, rci, tcl = fa[i], fa[j], rc(fa, i), tc(fa, L)
    rcij, tcli = rci[j], tcl[i]
    return [
        ("rc-start", z3.ForAll([fa, i], rci[i + 1] == 0, patterns=[rci])),
        # (instantiated where the count at j is spoken of and element j exists: the instances do not feed one another)
        ("rc-step", z3.ForAll([fa, i, j], rci[j + 1] == rcij + z3.If(ovl_rows(p_row(fai), p_row(faj)), 1, 0), patterns=[z3.MultiPattern(faj, rcij)])),
        ("tc-start", z3.ForAll([fa, L], tcl[0] == 0, patterns=[tcl])),
        ("tc-step", z3.ForAll([fa, L, i], tcl[i + 1] == tcli + rci[L], patterns=[z3.MultiPattern(fai, tcli)])),
    ]


def flat_pos(scs, t, r):
    return tot[t] + nfrag(scs[t].rows, r)


def tot_def(scs):
    return z3.And(tot[0] == 0, forall(lambda t: z3.Implies(z3.And(0 <= t, t < scs.len), tot[t + 1] == tot[t] + nfrag(scs[t].rows, scs[t].rows.len))))


def same_pair(x, y):
    return z3.And(x[0].z == y[0].z, x[1].z == y[1].z)


def flattened(frags, scs, upto, label="flattened"):
    """every fragment row of scaffolds [0, upto) stands at its position, paired with its scaffold"""
    t, r = z3.Ints("t!fl r!fl")
    sc = scs[t]
    row = sc.rows[r]
    pos = flat_pos(scs, t, r)
    el = frags[pos]
    cond = z3.And(0 <= t, t < upto, 0 <= r, r < sc.rows.len, row.is_frag)
    q = lambda body: z3.ForAll([t, r], z3.Implies(cond, body), patterns=[row.z])
    return [(label + "-position", q(z3.And(tot[t] <= pos, pos < tot[t + 1]))),
            (label + "-row", q(el[0].z == row.z)),
            (label + "-scaffold", q(el[1].z == sc.z))]


def ovl_at(fa, i, j):
    return ovl_rows(p_row(fa[i]), p_row(fa[j]))


def row_order(fa, i, upto):
    """within row i the counts grow with j, strictly past an overlapping partner: different partners, different positions"""
    q1, q2 = z3.Ints("q1!ro q2!ro")
    rng = z3.And(i + 1 <= q1, q1 < q2, q2 <= upto)
    c1, c2 = rc(fa, i)[q1], rc(fa, i)[q2]
    pat = [z3.MultiPattern(c1, c2)]
    return z3.And(z3.ForAll([q1, q2], z3.Implies(rng, c1 <= c2), patterns=pat),
                  z3.ForAll([q1, q2], z3.Implies(z3.And(rng, ovl_at(fa, i, q1)), c1 + 1 <= c2), patterns=pat))


def rows_order(fa, L, upto):
    """the same for every finished row, and the rows' blocks of positions follow one another"""
    i1, i2, q1, q2 = z3.Ints("i1!ro i2!ro q1!ro q2!ro")
    return [("finished-rows-order", z3.ForAll([i1, q1, q2], z3.Implies(z3.And(0 <= i1, i1 < upto, i1 + 1 <= q1, q1 < q2, q2 <= L),
                                                                      z3.And(0 <= rc(fa, i1)[q1], rc(fa, i1)[q1] + z3.If(ovl_at(fa, i1, q1), 1, 0) <= rc(fa, i1)[q2])),
                                              patterns=[z3.MultiPattern(rc(fa, i1)[q1], rc(fa, i1)[q2])])),
            ("blocks-order", z3.ForAll([i1, i2], z3.Implies(z3.And(0 <= i1, i1 < i2, i2 <= upto), tc(fa, L)[i1] + rc(fa, i1)[L] <= tc(fa, L)[i2]),
                                       patterns=[z3.MultiPattern(tc(fa, L)[i1], tc(fa, L)[i2])]))]


def distinct_positions(fa, L):
    """two different overlapping pairs i < j never share a position: the earlier pair (in scan order) stands first"""
    i1, j1, i2, j2 = z3.Ints("i1!dp j1!dp i2!dp j2!dp")
    pos = lambda i, j: tc(fa, L)[i] + rc(fa, i)[j]
    earlier = z3.Or(i1 < i2, z3.And(i1 == i2, j1 < j2))
    return z3.ForAll([i1, j1, i2, j2], z3.Implies(z3.And(0 <= i1, i1 < j1, j1 < L, 0 <= i2, i2 < j2, j2 < L, ovl_at(fa, i1, j1), ovl_at(fa, i2, j2), earlier),
                                                  pos(i1, j1) < pos(i2, j2)), patterns=[z3.MultiPattern(rc(fa, i1)[j1], rc(fa, i2)[j2])])


def reported(out, frags, L, i_done, i_cur=None, j_done=None):
    """every overlapping pair (i, j) already compared stands at its position in the result"""
    fa = frags.arr
    i, j = z3.Ints("i!rp j!rp")
    done = z3.And(0 <= i, i < i_done, i < j, j < L)
    if i_cur is not None:
        done = z3.Or(done, z3.And(i == i_cur, i < j, j < j_done))
    pos = tc(fa, L)[i] + rc(fa, i)[j]
    el = out[pos]
    return z3.ForAll([i, j], z3.Implies(z3.And(done, ovl_rows(p_row(fa[i]), p_row(fa[j]))),
                                        z3.And(0 <= pos, pos < out.len, same_pair(el[0], frags[i]), same_pair(el[1], frags[j]))))


@contract(f"{AS}.find_overlapping_fragments", properties=("C19",))
class _:
    params = {"self": TRef("Assembly")}
    result = TOpt(TList(PAIRS))
    inlined = [(f"{AS}.all_vs_all_fragments", 100)]
    local_types = {"over_pairs": TList(PAIRS), "frags": TList(PAIR)}
    ghost_locals = {"g_frags": TList(PAIR)}

    @staticmethod
    def requires(o):
        scs = o.self.scaffolds
        return [("counting-function", fcnt_def()), *pair_counts_def(), ("fragments-before", tot_def(scs)),
                ("scaffolds", forall(lambda k: z3.Implies(z3.And(0 <= k, k < scs.len), z3.And(scs[k].z >= 1, scs[k].z < o.alloc, scs[k].rows.z >= 1, scs[k].rows.z < o.alloc))))]

    modifies = staticmethod(lambda o: [("fresh-lists", ROW), ("fresh-lists", PAIR), ("fresh-lists", PAIRS), ("alloc",)])

    @staticmethod
    def ghost_exit(o, n, res, st):
        st.frames[0].vars["g_frags"] = st.lookup_any("frags")

    @staticmethod
    def ensures(o, n, res):
        scs = n.self.scaffolds
        frags = n.g_frags
        L = frags.len
        total = tc(frags.arr, L)[L]
        return [
            # the list that is scanned is the assembly's fragment rows, across and within scaffolds, each at its own position
            # (positions of scaffold t lie in [tot[t], tot[t+1]) and grow with the rank of the row, so no two rows share one)
            ("as-many-as-fragment-rows", L == tot[scs.len]),
            *flattened(frags, scs, scs.len, "every-fragment-row-is-scanned"),
            # "reports a pair ... if and only if ... each unordered pair once": as many results as there are overlapping
            # pairs i < j, and each such pair stands at its own position (positions are counts of earlier pairs)
            ("none-iff-no-pair-overlaps", res.is_none == (total == 0)),
            ("as-many-as-overlapping-pairs", z3.Implies(z3.Not(res.is_none), res.val.len == total)),
            ("each-overlapping-pair-at-its-position", z3.Implies(z3.Not(res.is_none), reported(res.val, frags, L, L))),
            ("different-pairs-at-different-positions", distinct_positions(frags.arr, L)),
        ]

    loops = {
        100: LoopSpec(kind="for", iter_src="self.scaffolds", inv=lambda v, e, o: (lambda scs, s, frags: [
            ("counter", z3.And(0 <= s, s <= scs.len)),
            ("objects", z3.And(v.self.z == o.self.z, frags.z == e.frags.z, frags.lo == 0, frags.z >= o.alloc, scs.z == o.self.scaffolds.z)),
            # (stated over the current heap, in the terms the call of fragments() in the body speaks in)
            ("fragments-before", tot_def(scs)),
            ("scaffolds", forall(lambda k: z3.Implies(z3.And(0 <= k, k < scs.len), z3.And(scs[k].z >= 1, scs[k].z < o.alloc, scs[k].rows.z >= 1, scs[k].rows.z < o.alloc)))),
            ("length", frags.len == tot[s]),
            *flattened(frags, scs, s),
            ("only-fragments", forall(lambda k: z3.Implies(z3.And(0 <= k, k < frags.len), frags[k][0].is_frag))),
            ("totals", forall(lambda t: z3.Implies(z3.And(0 <= t, t <= s), z3.And(0 <= tot[t], tot[t] <= tot[s])))),
        ])(v.self.scaffolds, v._it100, v.frags)),
        101: LoopSpec(kind="for", inv=lambda v, e, o: (lambda frags, out, L, i: [
            ("counter", z3.And(0 <= i, i <= L, L == frags.len)),
            ("objects", z3.And(frags.z == e.frags.z, out.z == e.over_pairs.z, out.lo == 0)),
            ("length", out.len == tc(frags.arr, L)[i]),
            ("reported", reported(out, frags, L, i)),
            ("totals", forall(lambda q: z3.Implies(z3.And(0 <= q, q <= i), z3.And(0 <= tc(frags.arr, L)[q], tc(frags.arr, L)[q] <= tc(frags.arr, L)[i])))),
            *rows_order(frags.arr, L, i),
        ])(v.frags, v.over_pairs, v.lgth, v._it101),
            frame=lambda v, e: {"LA.Tup_Tup_Row_Int_Tup_Row_Int": [e.over_pairs.z], "LHI.Tup_Tup_Row_Int_Tup_Row_Int": [e.over_pairs.z]}),
        102: LoopSpec(kind="for", inv=lambda v, e, o: (lambda frags, out, L, i, j: [
            ("counter", z3.And(i + 1 <= j, j <= smt.Max(L, i + 1))),
            ("objects", z3.And(frags.z == e.frags.z, out.z == e.over_pairs.z, out.lo == 0)),
            ("length", out.len == tc(frags.arr, L)[i] + rc(frags.arr, i)[j]),
            ("reported", reported(out, frags, L, i, i, j)),
            ("row-counts", forall(lambda q: z3.Implies(z3.And(i + 1 <= q, q <= j), z3.And(0 <= rc(frags.arr, i)[q], rc(frags.arr, i)[q] <= rc(frags.arr, i)[j])))),
            # (the instance of the recurrence the step needs, as a ground fact: the solver does not find it under the quantifiers)
            ("next-count", rc(frags.arr, i)[j + 1] == rc(frags.arr, i)[j] + z3.If(ovl_at(frags.arr, i, j), 1, 0)),
            ("row-order", row_order(frags.arr, i, j)),
            *rows_order(frags.arr, L, i),
        ])(v.frags, v.over_pairs, v.lgth, v.i, v._it102),
            frame=lambda v, e: {"LA.Tup_Tup_Row_Int_Tup_Row_Int": [e.over_pairs.z], "LHI.Tup_Tup_Row_Int_Tup_Row_Int": [e.over_pairs.z]}),
    }


# --- the report of the command line ----------------------------------------------------------------------------------------

from pyvc.engine import console_ref  # noqa: E402
from pyvc.spec import ObjView  # noqa: E402


@contract("tola.assembly.scripts.asm_format.report_overlaps", kind="function", properties=("C19",))
class _:
    # "reports a pair": one heading, then one block per pair handed over, in order, all on STDERR and nothing on STDOUT
    # (what a block says is text: the two scaffold names and str() of the two fragments; text is opaque here)
    params = {"asm_name": STR, "pairs": TList(PAIRS)}
    result = NONE

    @staticmethod
    def requires(o):
        err, out = ObjView(o.state, console_ref("stderr"), "TextOut"), ObjView(o.state, console_ref("stdout"), "TextOut")
        return [("streams", z3.And(err.g_out.z != out.g_out.z, err.g_out.z != o.pairs.z, out.g_out.z != o.pairs.z)),
                ("pairs-are-fragments", forall(lambda k: z3.Implies(z3.And(0 <= k, k < o.pairs.len), z3.And(o.pairs[k][0][0].is_frag, o.pairs[k][1][0].is_frag,
                                                                                                         o.pairs[k][0][1].z >= 1, o.pairs[k][0][1].z < o.alloc, o.pairs[k][1][1].z >= 1, o.pairs[k][1][1].z < o.alloc))))]

    modifies = staticmethod(lambda o: [("list", STR, ObjView(o.state, console_ref("stderr"), "TextOut").g_out)])

    @staticmethod
    def ensures(o, n, res):
        e0, e1 = ObjView(o.state, console_ref("stderr"), "TextOut").g_out, ObjView(n.state, console_ref("stderr"), "TextOut").g_out
        return [("one-heading-and-one-block-per-pair", e1.len == e0.len + 1 + o.pairs.len),
                ("earlier-output-kept", forall(lambda k: z3.Implies(z3.And(0 <= k, k < e0.len), e1[k] == e0[k])))]

    loops = {
        0: LoopSpec(kind="for", iter_src="pairs", inv=lambda v, e, o: (lambda e0, e1: [
            ("counter", z3.And(0 <= v._it0, v._it0 <= o.pairs.len)),
            ("blocks-so-far", z3.And(e1.z == e0.z, e1.len == e0.len + 1 + v._it0)),
            ("earlier-output-kept", forall(lambda k: z3.Implies(z3.And(0 <= k, k < e0.len), e1[k] == e0[k]))),
        ])(ObjView(o.state, console_ref("stderr"), "TextOut").g_out, ObjView(v.state, console_ref("stderr"), "TextOut").g_out)),
    }
