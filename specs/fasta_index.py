"""
Contract of tola.fasta.index.index_fasta_file (C04, and the indexing side of C03 / C06 / C13) over a ghost model
of the file being read:

  file.g_lines   the lines a binary read of the file yields, in order; a line is a value with
                 l_b0 (first byte), l_bm2 (second to last byte), l_len (bytes, terminator included),
                 l_slen (bytes left by rstrip(b"\\r\\n")), l_name (what the header parse extracts),
                 ghost l_off (byte offset of the line) and l_gp (residues on sequence lines before it)
  acgt(g)        residue number g of the file (l_gp numbering) is one of ACGTacgt

C04: "indexing yields per record the faidx quintuple (name, residue count, byte offset of the first residue,
residues per full line, bytes per full line including its terminator) ... The derived assembly tiles each record
completely and in order: each maximal run of A/C/G/T (either case) is one forward fragment with 1-based inclusive
coordinates and each other maximal run is one gap of the same length ... Duplicate record names and files without
records are rejected with an error."

The statement is per record, and so is the proof: whenever the code closes a record (at the next header line, or
after the last line) exactly one index entry and exactly one scaffold are added, and they are the ones the statement
describes (`record_done`); entries and scaffolds added earlier are not touched (frame).
"""

import z3

from pyvc import smt
from pyvc.spec import LoopSpec, contract, forall
from pyvc.values import BOOL, BYTES, INT, LINE, NONE, ROW, STR, TDict, TList, TOpt, TRef, TTuple

PATH = TRef("Path")
LF = TRef("LineFile")
INFO = TRef("FastaInfo")
REGION = TTuple([INT, INT])
RS = REGION.sort()


def r_start(t):
    return RS.accessor(0, 0)(t)


def r_end(t):
    return RS.accessor(0, 1)(t)


# --- external objects (TRUSTED models) ----------------------------------------------------------------------


@contract("ext.Path.open", status="TRUSTED")
class _:
    # file.open("rb"): a handle that yields the lines of the file in order
    params = {"self": PATH, "mode": STR}
    result = LF
    requires = staticmethod(lambda o: o.mode == z3.StringVal("rb"))
    modifies = staticmethod(lambda o: [("fresh-objs", "LineFile", ["g_lines", "g_pos"]), ("alloc",)])
    ensures = staticmethod(lambda o, n, res: z3.And(res.z >= o.alloc, res.z < n.alloc, res.g_lines.z == o.self.g_lines.z, res.g_pos == 0))


@contract("ext.Path.absolute", status="TRUSTED")
class _:
    params = {"self": PATH}
    result = PATH
    ensures = staticmethod(lambda o, n, res: res.z == o.self.z)


@contract("ext.LineFile.tell", status="TRUSTED")
class _:
    params = {"self": LF}
    result = INT
    pure = staticmethod(lambda o, s: s.g_pos)


# --- the file model ---------------------------------------------------------------------------------------------

rh = z3.Function("rec_header", smt.Int, smt.Int)  # ghost: index of the header line of the record line k belongs to
rn = z3.Function("rec_number", smt.Int, smt.Int)  # ghost: number of header lines among lines 0..k
first_named = z3.Function("first_header_named", smt.Str, smt.Int)  # ghost: index of the first header line carrying this name


def ln(lines, k):
    return lines.arr[k]


def hdr(l):
    return smt.l_b0(l) == 62


def eolw(l):
    """width of the line terminator as the code reads it off a header line"""
    return z3.If(smt.l_bm2(l) == 13, 2, 1)


def gp_end(l):
    """residues on sequence lines up to and including this line"""
    return smt.l_gp(l) + z3.If(hdr(l), 0, smt.l_slen(l))


def file_model(lines):
    n = lines.len
    L = lambda k: ln(lines, k)
    return [
        # what iterating a binary file gives: non-empty lines laid out one after the other
        ("lines", forall(lambda k: z3.Implies(z3.And(0 <= k, k < n), z3.And(smt.l_len(L(k)) >= 1, 0 <= smt.l_slen(L(k)), smt.l_slen(L(k)) <= smt.l_len(L(k)))))),
        ("offsets", z3.And(z3.Implies(n > 0, z3.And(smt.l_off(L(0)) == 0, smt.l_gp(L(0)) == 0)),
                           forall(lambda k: z3.Implies(z3.And(0 <= k, k + 1 < n), z3.And(smt.l_off(L(k + 1)) == smt.l_off(L(k)) + smt.l_len(L(k)),
                                                                                         smt.l_gp(L(k + 1)) == gp_end(L(k))))))),
        # a FASTA file: starts with a header; a header line has a name and is at least '>' 'x'; the first sequence
        # line of a record is not empty
        ("fasta", z3.And(z3.Implies(n > 0, hdr(L(0))),
                         forall(lambda k: z3.Implies(z3.And(0 <= k, k < n, hdr(L(k))), z3.And(smt.l_named(L(k)), smt.l_len(L(k)) >= 2, z3.Length(smt.l_name(L(k))) > 0))),
                         forall(lambda k: z3.Implies(z3.And(0 <= k, k + 1 < n, hdr(L(k)), z3.Not(hdr(L(k + 1)))), smt.l_slen(L(k + 1)) >= 1)))),
        # ghost functions, given by their characteristic properties (they exist for every file that starts with a header)
        ("record-header", forall(lambda k: z3.Implies(z3.And(0 <= k, k < n), z3.And(0 <= rh(k), rh(k) <= k, hdr(L(rh(k))),
                                                                                    z3.If(hdr(L(k)), rh(k) == k, z3.And(k > 0, rh(k) == rh(k - 1))))))),
        ("record-lines", (lambda k, j: z3.ForAll([k, j], z3.Implies(z3.And(0 <= k, k < n, rh(k) < j, j <= k), z3.Not(hdr(L(j))))))(z3.Int("k!rl"), z3.Int("j!rl"))),
        ("first-header-of-a-name", (lambda k: z3.ForAll([k], z3.Implies(z3.And(0 <= k, k < n, hdr(L(k))), (lambda f: z3.And(
            0 <= f, f <= k, hdr(L(f)), smt.l_name(L(f)) == smt.l_name(L(k))))(first_named(smt.l_name(L(k))))),
            patterns=[first_named(smt.l_name(L(k)))]))(z3.Int("k!fh"))),
        ("record-number", forall(lambda k: z3.Implies(z3.And(0 <= k, k < n), z3.And(rn(k) >= 1, rn(k) == z3.If(k > 0, rn(k - 1), 0) + z3.If(hdr(L(k)), 1, 0))))),
    ]


def duplicate_names(lines):
    a, b = z3.Int("a!dup"), z3.Int("b!dup")
    return z3.Exists([a, b], z3.And(0 <= a, a < b, b < lines.len, hdr(ln(lines, a)), hdr(ln(lines, b)),
                                    smt.l_name(ln(lines, a)) == smt.l_name(ln(lines, b))))


def last_of_record(lines, k):
    return z3.And(0 <= k, k < lines.len, z3.Or(k + 1 == lines.len, hdr(ln(lines, k + 1))))


# --- what a record has to look like ---------------------------------------------------------------------------------


def rows_tile(rows, name, base, upto, closed, length=None):
    """The rows describe residues [0, upto) of the record that starts at file residue `base`, each row by its own
    coordinates: a fragment row covers [start-1, end) and every residue there is ACGT; a gap row covers the stretch
    between its neighbours (from the end of the fragment before it, or 0, to the start of the fragment after it, or -
    for the last row of a closed record - the record length), that stretch is not empty and holds no ACGT residue;
    fragments and gaps alternate, so every run is maximal.  (That these coordinates are the running totals of the row
    lengths is lemma c04_rows_tile_by_running_total.)
    closed=False: the partial form used while rows are being added (the last row is a fragment ending at `upto`)."""
    n = rows.len
    p = z3.Int("g!rows")  # absolute residue number (base + position): the trigger acgt(g) stays free of arithmetic
    k = z3.Int("k!rows")
    R = lambda i: rows[i]
    lo = z3.If(k == 0, 0, R(k - 1).end)
    hi = z3.If(k + 1 < n, R(k + 1).start - 1, upto) if closed else R(k + 1).start - 1
    frag = z3.And(R(k).name == name, R(k).strand == 1, z3.Length(R(k).tags) == 0, 1 <= R(k).start, R(k).start <= R(k).end, R(k).end <= upto,
                  z3.ForAll([p], z3.Implies(z3.And(base + R(k).start - 1 <= p, p < base + R(k).end), smt.acgt(p)), patterns=[smt.acgt(p)]))
    gap = z3.And(R(k).gap_type == z3.StringVal("scaffold"), R(k).length == hi - lo, R(k).length >= 1,
                 z3.BoolVal(True) if closed else k + 1 < n,
                 z3.ForAll([p], z3.Implies(z3.And(base + lo <= p, p < base + hi), z3.Not(smt.acgt(p))), patterns=[smt.acgt(p)]))
    out = [
        ("rows", z3.ForAll([k], z3.Implies(z3.And(0 <= k, k < n), z3.If(R(k).is_gap, gap, frag)))),
        ("alternate", z3.ForAll([k], z3.Implies(z3.And(0 <= k, k + 1 < n), R(k).is_gap != R(k + 1).is_gap))),
        ("first", z3.Implies(z3.And(n > 0, R(0).is_frag), R(0).start == 1)),
    ]
    if closed:
        out.append(("last", z3.And(n >= 0, z3.If(n == 0, upto == 0, z3.Implies(R(n - 1).is_frag, R(n - 1).end == upto)))))
    else:
        out.append(("last", z3.And(n >= 0, z3.If(n == 0, upto == 0, z3.And(R(n - 1).is_frag, R(n - 1).end == upto)))))
    return out


OLDER = ["H.FastaInfo.length", "H.FastaInfo.file_offset", "H.FastaInfo.residues_per_line", "H.FastaInfo.max_line_length",
         "H.Scaffold.name", "H.Scaffold.rows", "LA.Row", "LLO.Row", "LHI.Row"]


def older_untouched(v, b):
    """index entries and scaffolds (with their rows) that existed before this step are not written to"""
    r = z3.Int("r!older")
    out = []
    hv, hb = v.state.heap, b.state.heap
    for name in OLDER:
        if name in hv and name in hb and not hv[name].eq(hb[name]):
            out.append(z3.ForAll([r], z3.Implies(r < b.alloc, hv[name][r] == hb[name][r])))
    return z3.And(*out) if out else z3.BoolVal(True)


def quintuple(info, lines, h, k):
    """the index entry of the record with header line h and last line k"""
    H = ln(lines, h)
    rpl = z3.If(k > h, smt.l_slen(ln(lines, h + 1)), 0)
    return z3.And(info.length == gp_end(ln(lines, k)) - smt.l_gp(H),
                  info.file_offset == smt.l_off(H) + smt.l_len(H),
                  info.residues_per_line == rpl,
                  info.max_line_length == rpl + eolw(H))


def record_done(idx_new, idx_old, asm_new, asm_old, lines, k):
    """closing the record whose last line is k added its index entry and its scaffold, and nothing else"""
    h = rh(k)
    name = smt.l_name(ln(lines, h))
    info = idx_new.get(name)
    sc = asm_new.scaffolds[asm_old.scaffolds.len]
    key = z3.String("key!idx")
    j = z3.Int("j!asm")
    out = [
        # "Duplicate record names ... are rejected": an entry is only ever added under a name that was not there
        ("entry", z3.And(idx_new.has(name), z3.Not(idx_old.has(name)), quintuple(info, lines, h, k))),
        ("other-entries-kept", z3.ForAll([key], z3.Implies(key != name, z3.And(idx_new.has(key) == idx_old.has(key), idx_new.raw(key) == idx_old.raw(key))))),
        ("one-scaffold", asm_new.scaffolds.len == asm_old.scaffolds.len + 1),
        ("scaffold-name", sc.name == name),
        ("other-scaffolds-kept", z3.ForAll([j], z3.Implies(z3.And(0 <= j, j < asm_old.scaffolds.len), asm_new.scaffolds[j].z == asm_old.scaffolds[j].z))),
    ]
    out += [("scaffold-" + lbl, f) for lbl, f in rows_tile(sc.rows, name, smt.l_gp(ln(lines, h)), info.length, closed=True)]
    return out


# --- ACGT runs collected so far -------------------------------------------------------------------------------------------


def _reg(regs, j):
    """(start, end) of region j; region lists are created by the function itself and never shortened from the
    front, so their window starts at 0 (invariant conjunct `regs.lo == 0`)"""
    t = regs.arr[j]
    return r_start(t), r_end(t)


class _O:
    """an Optional local, whatever static type it has on the current path"""

    def __init__(self, ns, name):
        from pyvc.spec import view
        from pyvc.values import TNone, TOpt as _TOpt, unpack

        raw = ns.raw(name)
        if raw is None:
            from pyvc.spec import SpecInapplicable

            raise SpecInapplicable(f"spec refers to unknown name '{name}'")
        st = ns.state
        self.z = None
        if isinstance(raw.ty, _TOpt):
            S = raw.ty.sort()
            self.is_none = raw.z == S.none
            self.val = view(st, unpack(raw.ty.inner, z3.simplify(S.val(raw.z))))
            self.z = raw.z
        elif isinstance(raw.ty, TNone):
            self.is_none = z3.BoolVal(True)
            self.val = z3.IntVal(0)  # never looked at: every use is guarded by is_none
        else:
            self.is_none = z3.BoolVal(False)
            self.val = view(st, raw)


def regions_ok(regs, rs, re, base, upto):
    """`regs` plus the region still open (rs, re) - if any - are exactly the maximal ACGT runs of residues [0, upto) of
    the record, in order; the open one is the last and may still grow if it ends at `upto`"""
    m = regs.hi  # the window of a region list starts at 0 (see _reg)
    j = z3.Int("j!reg")
    p = z3.Int("g!reg")  # absolute residue number
    S = lambda i: _reg(regs, i)[0]
    E = lambda i: _reg(regs, i)[1]
    T = lambda i: regs.arr[i]
    A = lambda lo, hi, yes: z3.ForAll([p], z3.Implies(z3.And(base + lo <= p, p < base + hi), smt.acgt(p) if yes else z3.Not(smt.acgt(p))), patterns=[smt.acgt(p)])
    open_none = re.is_none
    rsv, rev = rs.val, re.val
    last_end = z3.If(m > 0, E(m - 1), 0)
    return [
        ("closed-regions", z3.And(m >= 0, z3.ForAll([j], z3.Implies(z3.And(0 <= j, j < m), z3.And(0 <= S(j), S(j) < E(j), E(j) <= upto)), patterns=[T(j)]),
                                  z3.ForAll([j], z3.Implies(z3.And(0 <= j, j + 1 < m), E(j) < S(j + 1)), patterns=[T(j)]))),
        ("closed-acgt", z3.ForAll([j, p], z3.Implies(z3.And(0 <= j, j < m, base + S(j) <= p, p < base + E(j)), smt.acgt(p)), patterns=[z3.MultiPattern(T(j), smt.acgt(p))])),
        ("between", z3.And(z3.ForAll([j, p], z3.Implies(z3.And(0 <= j, j + 1 < m, base + E(j) <= p, p < base + S(j + 1)), z3.Not(smt.acgt(p))),
                                     patterns=[z3.MultiPattern(T(j), smt.acgt(p))]),
                           z3.Implies(m > 0, A(0, S(0), False)))),
        ("open", z3.If(open_none,
                       z3.And(m == 0, A(0, upto, False)),
                       z3.And(z3.Not(rs.is_none), last_end <= rsv, z3.Implies(m > 0, last_end < rsv), rsv < rev, rev <= upto,
                              A(rsv, rev, True), A(last_end, rsv, False), A(rev, upto, False)))),
    ]


def regions_final(regs, base, length):
    """all regions closed: exactly the maximal ACGT runs of the record"""
    m = regs.hi  # the window of a region list starts at 0 (see _reg)
    j = z3.Int("j!reg")
    p = z3.Int("g!reg")  # absolute residue number
    S = lambda i: _reg(regs, i)[0]
    E = lambda i: _reg(regs, i)[1]
    T = lambda i: regs.arr[i]
    A = lambda lo, hi: z3.ForAll([p], z3.Implies(z3.And(base + lo <= p, p < base + hi), z3.Not(smt.acgt(p))), patterns=[smt.acgt(p)])
    return [
        ("regions", z3.And(m >= 0, z3.ForAll([j], z3.Implies(z3.And(0 <= j, j < m), z3.And(0 <= S(j), S(j) < E(j), E(j) <= length)), patterns=[T(j)]),
                           z3.ForAll([j], z3.Implies(z3.And(0 <= j, j + 1 < m), E(j) < S(j + 1)), patterns=[T(j)]))),
        ("acgt", z3.ForAll([j, p], z3.Implies(z3.And(0 <= j, j < m, base + S(j) <= p, p < base + E(j)), smt.acgt(p)), patterns=[z3.MultiPattern(T(j), smt.acgt(p))])),
        ("rest", z3.And(z3.ForAll([j, p], z3.Implies(z3.And(0 <= j, j + 1 < m, base + E(j) <= p, p < base + S(j + 1)), z3.Not(smt.acgt(p))),
                                  patterns=[z3.MultiPattern(T(j), smt.acgt(p))]),
                        A(0, z3.If(m > 0, S(0), length)), z3.Implies(m > 0, A(E(m - 1), length)))),
    ]


# --- the contract -----------------------------------------------------------------------------------------------------

IDX = TDict(STR, INFO)
OPT_LOCALS = {"name": TOpt(STR), "seq_length": TOpt(INT), "file_offset": TOpt(INT), "residues_per_line": TOpt(INT), "region_start": TOpt(INT),
              "region_end": TOpt(INT), "seq_regions": TOpt(TList(REGION)), "line_end_bytes": TOpt(INT)}
FRESH_MAPS = ["H.Scaffold.name", "H.Scaffold.rows", "H.Scaffold.tag", "H.Scaffold.haplotype", "H.Scaffold.rank", "H.Scaffold.original_name",
              "H.Scaffold.original_tags", "H.$class", "LA.Row", "LLO.Row", "LHI.Row", "LA.Int", "LLO.Int", "LHI.Int", "LA.String", "LLO.String", "LHI.String",
              "H.FastaInfo.length", "H.FastaInfo.file_offset", "H.FastaInfo.residues_per_line", "H.FastaInfo.max_line_length",
              "H.BytesIO.g_kind", "H.BytesIO.g_first", "H.BytesIO.g_n", "H.BytesIO.g_pos", "H.LineFile.g_pos", "H.LineFile.g_lines"]


def _cur(v, o):
    """(i, lines, header line of the record being accumulated, its first residue) in any frame of the function"""
    t = v.top
    lines = o.file.g_lines
    i = t._it2
    H = ln(lines, rh(i - 1))
    return i, lines, H, smt.l_gp(H)


def _main_inv(v, e, o):
    lines = o.file.g_lines
    n = lines.len
    i = v._it2
    H = ln(lines, rh(i - 1))
    buf = v.seq_buffer
    sl = _O(v, "seq_length").val
    regs = _O(v, "seq_regions").val
    out = [
        ("counter", z3.And(0 <= i, i <= n)),
        ("objects", z3.And(v.asm.z == e.asm.z, v.idx_dict.z == e.idx_dict.z, v.seq_buffer.z == e.seq_buffer.z, v.fh.z == e.fh.z, v.file.z == o.file.z,
                           v.asm.z >= o.alloc, v.idx_dict.z >= o.alloc, v.seq_buffer.z >= o.alloc, v.fh.z >= o.alloc, v.fh.g_lines.z == lines.z,
                           v.asm.scaffolds.z == e.asm.scaffolds.z, v.asm.scaffolds.z >= o.alloc, v.buffer_size == o.buffer_size,
                           v.asm.z < v.alloc, v.idx_dict.z < v.alloc, v.seq_buffer.z < v.alloc, v.fh.z < v.alloc, v.asm.scaffolds.z < v.alloc)),
        ("size", z3.And(v.idx_dict.size >= 0, z3.Implies(v.asm.scaffolds.len > 0, v.idx_dict.size > 0))),
        # every name in the index is the name of a header line of an earlier record (so meeting it again is a duplicate)
        ("names-in-the-index", (lambda key: z3.ForAll([key], z3.Implies(v.idx_dict.has(key), (lambda f: z3.And(
            i > 0, 0 <= f, f < rh(i - 1), hdr(ln(lines, f)), smt.l_name(ln(lines, f)) == key))(first_named(key))),
            patterns=[v.idx_dict.has(key)]))(z3.String("key!names"))),
        ("start", z3.Implies(i == 0, z3.And(_O(v, "name").is_none, buf.g_n == 0, buf.g_pos == 0, v.idx_dict.size == 0, v.asm.scaffolds.len == 0))),
        ("header-values", z3.Implies(i > 0, z3.And(
            z3.Not(_O(v, "name").is_none), _O(v, "name").val == smt.l_name(H),
            z3.Not(_O(v, "file_offset").is_none), _O(v, "file_offset").val == smt.l_off(H) + smt.l_len(H),
            z3.Not(_O(v, "line_end_bytes").is_none), _O(v, "line_end_bytes").val == eolw(H),
            z3.Not(_O(v, "residues_per_line").is_none), _O(v, "residues_per_line").val == z3.If(i - 1 > rh(i - 1), smt.l_slen(ln(lines, rh(i - 1) + 1)), 0)))),
        ("buffer", z3.Implies(i > 0, z3.And(
            z3.Not(_O(v, "seq_length").is_none), sl >= 0, buf.g_n >= 0, buf.g_pos == buf.g_n,
            sl + buf.g_n == gp_end(ln(lines, i - 1)) - smt.l_gp(H),
            # C13: between lines the sequence buffer never holds more than buffer_size residues
            buf.g_n <= o.buffer_size,
            z3.Implies(buf.g_n > 0, z3.And(buf.g_kind == 0, buf.g_first == smt.l_gp(H) + sl))))),
        ("region-list", z3.Implies(i > 0, z3.And(z3.Not(_O(v, "seq_regions").is_none), regs.z >= o.alloc, regs.z < v.alloc, regs.lo == 0))),
    ]
    out += [("regions-" + lbl, z3.Implies(i > 0, f)) for lbl, f in regions_ok(regs, _O(v, "region_start"), _O(v, "region_end"), smt.l_gp(H), sl)]
    return out


def _main_iter_post(v, b, e, o):
    lines = o.file.g_lines
    i = b._it2
    closes = z3.And(hdr(b.line.z if hasattr(b.line, "z") else b.line), i > 0)
    out = [(lbl, z3.Implies(closes, f)) for lbl, f in record_done(v.idx_dict, b.idx_dict, v.asm, b.asm, lines, i - 1)]
    out.append(("older-entries-and-scaffolds-untouched", older_untouched(v, b)))
    key = z3.String("key!idx")
    out.append(("otherwise-nothing-is-added", z3.Implies(z3.Not(closes), z3.And(
        v.asm.scaffolds.len == b.asm.scaffolds.len,
        z3.ForAll([key], z3.And(v.idx_dict.has(key) == b.idx_dict.has(key), v.idx_dict.raw(key) == b.idx_dict.raw(key)))))))
    return out


def _runs_inv(v, e, o):
    """loop over the ACGT runs of one buffer (process_seq_buffer)"""
    i, lines, H, base = _cur(v, o)
    runs = v._it1_seq
    j = v._it1
    S = SPAN_SORT
    done = z3.If(j == 0, 0, S.accessor(0, 1)(runs.arr[j - 1]))
    sl = _O(v, "seq_length").val
    regs = _O(v, "seq_regions").val
    out = [
        ("counter", z3.And(0 <= j, j <= runs.len)),
        ("kept", z3.And(z3.Not(_O(v, "seq_length").is_none), _O(v, "seq_length").val == _O(e, "seq_length").val, z3.Not(_O(v, "seq_regions").is_none), _O(v, "seq_regions").val.z == _O(e, "seq_regions").val.z,
                        regs.lo == 0, regs.z >= o.alloc)),
    ]
    out += [("regions-" + lbl, f) for lbl, f in regions_ok(regs, _O(v, "region_start"), _O(v, "region_end"), base, sl + done)]
    return out


def _rows_inv(v, e, o):
    """loop over the regions of a finished record (store_info)"""
    i, lines, H, base = _cur(v, o)
    regs = v._it0_seq
    j = v._it0
    sl = _O(v, "seq_length").val
    prev0, prev1 = v.prev
    regs_len = regs.hi
    S = lambda x: _reg(regs, x)[0]
    E = lambda x: _reg(regs, x)[1]
    sc = v.scffld
    out = [
        ("counter", z3.And(0 <= j, j <= regs_len)),
        ("prev", z3.If(j == 0, z3.And(prev0 == 0, prev1 == 0), z3.And(prev0 == S(j - 1), prev1 == E(j - 1)))),
        ("kept", z3.And(z3.Not(_O(v, "seq_length").is_none), z3.Not(_O(v, "name").is_none), sc.z == e.scffld.z, sc.rows.z == e.scffld.rows.z, sc.z >= o.alloc, sc.rows.z >= o.alloc,
                        sc.name == _O(v, "name").val, regs.lo == 0, sc.rows.lo == 0)),
    ]
    out += [("regions-" + lbl, f) for lbl, f in regions_final(regs, base, sl)]
    out += [("rows-" + lbl, f) for lbl, f in rows_tile(sc.rows, _O(v, "name").val, base, prev1, closed=False)]
    return out


from pyvc.values import SPAN  # noqa: E402

SPAN_SORT = SPAN.sort()


def _final_record(v, b, o):
    lines = o.file.g_lines
    return ([(lbl, z3.Implies(z3.Not(_O(b, "name").is_none), f)) for lbl, f in record_done(v.idx_dict, b.idx_dict, v.asm, b.asm, lines, lines.len - 1)]
            + [("older-entries-and-scaffolds-untouched", older_untouched(v, b))])


@contract("tola.fasta.index.index_fasta_file", kind="function", properties=("C04", "C03", "C06", "C13"))
class _:
    params = {"file": PATH, "buffer_size": INT}
    defaults = {"buffer_size": 250000}
    result = TTuple([IDX, TRef("Assembly")])
    local_types = {"idx_dict": IDX, "seq_regions": TList(REGION)}

    @staticmethod
    def requires(o):
        return file_model(o.file.g_lines) + [("buffer", o.buffer_size >= 1)]

    # "Duplicate record names and files without records are rejected with an error": ValueError is the only way out
    # other than returning (no TypeError / IndexError / AttributeError / KeyError on any well-formed file)
    # and that way is taken only for those two reasons: no well-formed file is rejected
    raises = {"ValueError": lambda o: z3.Or(o.file.g_lines.len == 0, duplicate_names(o.file.g_lines))}
    modifies = staticmethod(lambda o: [("fresh-objs", "Assembly", ["name", "scaffolds", "header", "curated"]),
                                       ("fresh-objs", "Scaffold", ["name", "rows", "tag", "haplotype", "rank", "original_name", "original_tags"]),
                                       ("fresh-objs", "FastaInfo", ["length", "file_offset", "residues_per_line", "max_line_length"]),
                                       ("fresh-objs", "BytesIO", ["g_kind", "g_first", "g_n", "g_pos"]),
                                       ("fresh-objs", "LineFile", ["g_lines", "g_pos"]),
                                       ("fresh-lists", STR), ("fresh-lists", TRef("Scaffold")), ("fresh-lists", ROW), ("fresh-lists", REGION),
                                       ("fresh-lists", TTuple([INT, INT])), ("dict-maps", STR, INFO), ("alloc",), ("ralloc",)])

    @staticmethod
    def ensures(o, n, res):
        # a file without records never returns normally
        return [("has-records", o.file.g_lines.len > 0), ("new-objects", z3.And(res[0].z >= o.alloc, res[1].z >= o.alloc))]

    # the record that ends with the file is closed by the statement after the loop
    stmt_post = {("if name:\n    store_info()", 1): _final_record}

    loops = {
        # the row loop only appends to the rows of the scaffold being built; the run loop only appends to the region list
        0: LoopSpec(kind="for", iter_src="seq_regions", inv=_rows_inv,
                    frame=lambda v, e: {"LA.Row": [e.scffld.rows.z], "LHI.Row": [e.scffld.rows.z]}),
        1: LoopSpec(kind="for", inv=_runs_inv,
                    frame=lambda v, e: {"LA.Tup_Int_Int": [_O(e, "seq_regions").val.z], "LHI.Tup_Int_Int": [_O(e, "seq_regions").val.z]}),
        2: LoopSpec(kind="for", iter_src="fh", types=OPT_LOCALS, inv=_main_inv, iter_post=_main_iter_post,
                    frame=lambda v, e: {"$fresh-only": FRESH_MAPS + ["LA.Tup_Int_Int", "LLO.Tup_Int_Int", "LHI.Tup_Int_Int", "DH.String.Int", "DV.String.Int", "DSZ.String.Int"]}),
    }
