"""
Contracts for tola.assembly.indexed_assembly.IndexedAssembly (C12).

C12: "For every scaffold and every query interval on it the lookup returns exactly the rows whose
scaffold-coordinate span intersects the query, minus leading and trailing gap rows, together with the
scaffold coordinates of the first and last returned row. It returns nothing when no contig row
intersects the query ... and never fails on such queries."
"""

import z3

from pyvc import smt
from pyvc.spec import LoopSpec, contract, forall, forall2
from pyvc.values import BOOL, FRAG, GAP, INT, NONE, ROW, STR, TDict, TList, TOpt, TRef

from .overlap_result import distinct_frags
from .overlap_result import wf as or_wf
from .scaffold import same_rows

M = "tola.assembly.indexed_assembly.IndexedAssembly"
IA = TRef("IndexedAssembly")


def valid_rows(rows):
    """input validity: every row is at least one base long (Gap validates nothing itself)"""
    return forall(lambda k: z3.Implies(z3.And(0 <= k, k < rows.len), rows[k].length >= 1))


def idx_wf(rows, idx):
    """the index of a scaffold: idx[k] is the scaffold coordinate of the last base of row k"""
    n = rows.len
    return z3.And(
        idx.len == n,
        forall(lambda k: z3.Implies(z3.And(0 <= k, k < n), idx[k] == rows.cum(k + 1))),
        # two-index monotonicity (the adjacent-pair form would need induction)
        forall2(lambda a, b: z3.Implies(z3.And(0 <= a, a < b, b < n), idx[a] < idx[b])),
        z3.Implies(n > 0, idx[0] >= 1),
    )


def ia_shape(self):
    """the two dictionaries of an IndexedAssembly are different objects (made by __init__)"""
    return self._scaffold_dict.z != self._scaffold_index.z


def entry_wf(self, name):
    """what add_scaffold establishes for one name"""
    d, x = self._scaffold_dict, self._scaffold_index
    sc = d.get(name)
    return z3.Implies(
        d.has(name),
        z3.And(x.has(name), sc.name == name, valid_rows(sc.rows), idx_wf(sc.rows, x.get(name))),
    )


@contract(f"{M}.add_scaffold", properties=("C12",))
class _:
    params = {"self": IA, "scffld": TRef("Scaffold")}
    result = NONE
    local_types = {"idx": TList(INT)}

    @staticmethod
    def requires(o):
        return [("valid-rows", valid_rows(o.scffld.rows)), ("two-dicts", ia_shape(o.self))]

    @staticmethod
    def modifies(o):
        return [("map", "DH.String.Int"), ("map", "DV.String.Int"), ("map", "DSZ.String.Int"), ("alloc",), ("fresh-lists", INT)]

    raises = {"ValueError": lambda o: o.self._scaffold_dict.has(o.scffld.name)}

    @staticmethod
    def ensures(o, n, res):
        name = o.scffld.name
        return [
            ("stored", z3.And(n.self._scaffold_dict.has(name), n.self._scaffold_dict.get(name).same(o.scffld))),
            ("indexed", entry_wf(n.self, name)),
        ]

    loops = {
        0: LoopSpec(
            kind="for",
            iter_src="scffld.rows",
            inv=lambda v, e: [
                ("end", v.end == v.scffld.rows.cum(v._it0)),
                ("counter", z3.And(0 <= v._it0, v._it0 <= v.scffld.rows.len)),
                ("len", v.idx.len == v._it0),
                ("idx", forall(lambda k: z3.Implies(z3.And(0 <= k, k < v._it0), v.idx[k] == v.scffld.rows.cum(k + 1)))),
                ("bound", forall(lambda k: z3.Implies(z3.And(0 <= k, k < v._it0), v.idx[k] <= v.end))),
                ("mono", forall2(lambda a, b: z3.Implies(z3.And(0 <= a, a < b, b < v._it0), v.idx[a] < v.idx[b]))),
                ("first", z3.Implies(v._it0 > 0, v.idx[0] >= 1)),
                ("end>=0", v.end >= 0),
                ("same-idx", v.idx.same(e.idx)),
            ],
            frame=lambda v, e: {"LA.Int": [v.idx], "LHI.Int": [v.idx]},
        )
    }


@contract(f"{M}.scaffold_by_name", properties=("C12",))
class _:
    params = {"self": IA, "name": STR}
    result = TRef("Scaffold")
    raises = {"ValueError": lambda o: z3.Not(o.self._scaffold_dict.has(o.name))}

    @staticmethod
    def ensures(o, n, res):
        d = o.self._scaffold_dict
        return z3.And(d.has(o.name), res.same(d.get(o.name)))


# --- find_overlaps -----------------------------------------------------------------------


def row_start(idx, k):
    """scaffold coordinate of the first base of row k, as the code derives it from the index"""
    return z3.If(k == 0, 1, 1 + idx[k - 1])


def span_lo(rows, k):
    return 1 + rows.cum(k)


def span_hi(rows, k):
    return rows.cum(k + 1)


def hit(rows, k, a, b):
    """row k's scaffold-coordinate span intersects the query [a, b]"""
    return z3.And(span_hi(rows, k) >= a, span_lo(rows, k) <= b)


def _fo_common(v):
    sc = v.scffld
    rows, idx = sc.rows, v.idx
    n = rows.len
    return sc, rows, idx, n


def _idx_facts(rows, idx):
    n = rows.len
    return [
        idx.len == n,
        forall(lambda k: z3.Implies(z3.And(0 <= k, k < n), idx[k] == rows.cum(k + 1))),
        forall2(lambda a, b: z3.Implies(z3.And(0 <= a, a < b, b < n), idx[a] < idx[b])),
        z3.Implies(n > 0, idx[0] >= 1),
    ]


@contract(f"{M}.find_overlaps", properties=("C12", "C18", "C07"))
class _:
    # C07 only needs "no terminal gap" of this contract: a lost obligation is reported for C12 and C18
    escalate = ("C12", "C18")
    params = {"self": IA, "bait": FRAG}
    result = TOpt(TRef("OverlapResult"))

    @staticmethod
    def requires(o):
        # "every query interval [a,b] with 1 <= a <= b" (a <= b is the Fragment invariant)
        d = o.self._scaffold_dict
        return [
            ("query", o.bait.start >= 1),
            ("two-dicts", ia_shape(o.self)),
            ("indexed", entry_wf(o.self, o.bait.name)),
            # input validity: a scaffold does not list the same Fragment object twice
            ("distinct-fragments", z3.Implies(d.has(o.bait.name), distinct_frags(d.get(o.bait.name).rows, o.ralloc))),
        ]

    @staticmethod
    def modifies(o):
        return [("fresh-objs", "OverlapResult", ["name", "rows", "tag", "haplotype", "rank", "original_name", "original_tags",
                                                  "bait", "start", "end", "g_src", "g_lo", "g_hi", "g_ts", "g_te"]),
                ("fresh-lists", ROW), ("alloc",)]

    # "never fails on such queries": the only error is an unknown / empty / unindexed scaffold
    raises = {
        "ValueError": lambda o: z3.Or(
            z3.Not(o.self._scaffold_dict.has(o.bait.name)),
            o.self._scaffold_dict.get(o.bait.name).rows.len == 0,
        )
    }

    @staticmethod
    def ghost_exit(o, n, res, st):
        """the window of source rows the result was cut from: read off the locals of the real code"""
        from pyvc.spec import field_map
        from pyvc.values import TOpt as _TOpt

        if res.ty == NONE or not n.has("i_ovr") or not n.has("j_ovr"):
            return
        S = res.ty.sort() if isinstance(res.ty, _TOpt) else None
        if S is not None and z3.is_true(z3.simplify(res.z == S.none)):
            return  # `return None`: no result object, no ghost state
        ref = z3.simplify(S.val(res.z)) if S is not None else res.z
        sc = n.raw("scffld")
        _, mrows, _ = field_map(st, "Scaffold", "rows")
        for attr, val in (("g_src", mrows[sc.z]), ("g_lo", n.i_ovr), ("g_hi", n.j_ovr), ("g_ts", z3.IntVal(0)), ("g_te", z3.IntVal(0))):
            name, m, ty = field_map(st, "OverlapResult", attr)
            st.heap[name] = z3.Store(m, ref, val)

    @staticmethod
    def ensures(o, n, res):
        sc = o.self._scaffold_dict.get(o.bait.name)
        rows = sc.rows
        idx = o.self._scaffold_index.get(o.bait.name)
        nrows = rows.len
        a, b = o.bait.start, o.bait.end
        # spans read through the stored index: by the class invariant (precondition `indexed`)
        # idx[k] == cum(k+1), so [row_start(idx,k), idx[k]] *is* the scaffold-coordinate span of row k
        # (lemma c12_index_is_span proves the two readings equal)
        hit_k = lambda k: z3.And(idx[k] >= a, row_start(idx, k) <= b)
        contig_hit = lambda k: z3.And(0 <= k, k < nrows, hit_k(k), rows[k].is_frag)
        none_hit = forall(lambda k: z3.Not(contig_hit(k)))
        r = res.val
        lo, hi = r.g_lo, r.g_hi
        out = r.rows
        return [
            # "It returns nothing when no contig row intersects the query"
            ("nothing-iff-no-contig-hit", res.is_none == none_hit),
            # "returns exactly the rows whose span intersects the query, minus leading and trailing gap rows"
            ("window", z3.Implies(z3.Not(res.is_none), z3.And(
                0 <= lo, lo <= hi, hi < nrows,
                contig_hit(lo), contig_hit(hi),
                forall(lambda k: z3.Implies(contig_hit(k), z3.And(lo <= k, k <= hi))),
                forall(lambda k: z3.Implies(z3.And(lo <= k, k <= hi), hit_k(k))),
            ))),
            ("rows", z3.Implies(z3.Not(res.is_none), z3.And(
                out.len == hi - lo + 1,
                forall(lambda k: z3.Implies(z3.And(0 <= k, k <= hi - lo), out[k].z == rows[lo + k].z)),
            ))),
            # "together with the scaffold coordinates of the first and last returned row"
            ("coordinates", z3.Implies(z3.Not(res.is_none), z3.And(r.start == row_start(idx, lo), r.end == idx[hi]))),
            ("bait", z3.Implies(z3.Not(res.is_none), r.bait.z == o.bait.z)),
            ("ghost-source", z3.Implies(z3.Not(res.is_none), z3.And(r.g_src.same(rows), r.g_ts == 0, r.g_te == 0))),
            ("fresh", z3.Implies(z3.Not(res.is_none), z3.And(r.z >= o.alloc, out.z >= o.alloc))),
            # establishes the representation invariant of overlap results (C18)
            ("wf", z3.Implies(z3.Not(res.is_none), or_wf(r, src=rows))),
        ]

    loops = {
        # binary search
        0: LoopSpec(
            kind="while",
            iter_src="a < z",
            inv=lambda v, e: (lambda sc, rows, idx, n: [
                ("bounds", z3.And(0 <= v.a, v.a <= v.z, v.z <= n)),
                ("left-of-a", forall(lambda k: z3.Implies(z3.And(0 <= k, k < v.a), idx[k] < v.bait_start))),
                ("right-of-z", forall(lambda k: z3.Implies(z3.And(v.z <= k, k < n), row_start(idx, k) > v.bait_end))),
            ])(*_fo_common(v)),
            variant=lambda v: v.z - v.a,
        ),
        # extension to the left
        1: LoopSpec(
            kind="for",
            iter_src="range(ovr - 1, -1, -1)",
            inv=lambda v, e: (lambda sc, rows, idx, n: [
                ("i_ovr", z3.And(v.i_ovr == v._it1 + 1, -1 <= v._it1, v._it1 < v.ovr)),
                ("all-hit", forall(lambda k: z3.Implies(z3.And(v.i_ovr <= k, k <= v.ovr), idx[k] >= v.bait_start))),
            ])(*_fo_common(v)),
        ),
        # extension to the right
        2: LoopSpec(
            kind="for",
            iter_src="range(ovr + 1, len(idx))",
            inv=lambda v, e: (lambda sc, rows, idx, n: [
                ("j_ovr", z3.And(v.j_ovr == v._it2 - 1, v.ovr < v._it2, v._it2 <= n)),
                ("all-hit", forall(lambda k: z3.Implies(z3.And(v.ovr <= k, k <= v.j_ovr), row_start(idx, k) <= v.bait_end))),
            ])(*_fo_common(v)),
        ),
        # strip leading gaps
        3: LoopSpec(
            kind="while",
            inv=lambda v, e: (lambda sc, rows, idx, n: [
                ("range", z3.And(e.i_ovr <= v.i_ovr, v.i_ovr <= v.j_ovr + 1)),
                ("gaps", forall(lambda k: z3.Implies(z3.And(e.i_ovr <= k, k < v.i_ovr), rows[k].is_gap))),
            ])(*_fo_common(v)),
            variant=lambda v: v.j_ovr - v.i_ovr + 1,
        ),
        # strip trailing gaps
        4: LoopSpec(
            kind="while",
            inv=lambda v, e: (lambda sc, rows, idx, n: [
                ("range", z3.And(v.i_ovr - 1 <= v.j_ovr, v.j_ovr <= e.j_ovr)),
                ("gaps", forall(lambda k: z3.Implies(z3.And(v.j_ovr < k, k <= e.j_ovr), rows[k].is_gap))),
            ])(*_fo_common(v)),
            variant=lambda v: v.j_ovr - v.i_ovr + 1,
        ),
    }
