"""
Contracts for tola.assembly.indexed_assembly.IndexedAssembly (C12).

C12: "For every scaffold and every query interval on it the lookup returns exactly the rows whose
scaffold-coordinate span intersects the query, minus leading and trailing gap rows, together with the
scaffold coordinates of the first and last returned row. It returns nothing when no contig row
intersects the query ... and never fails on such queries."
"""

import z3

from pyvc import smt
from pyvc.spec import LoopSpec, contract, forall, forall2
from pyvc.values import BOOL, FRAG, GAP, INT, NONE, ROW, STR, TDict, TList, TOpt, TRef

from .scaffold import same_rows

M = "tola.assembly.indexed_assembly.IndexedAssembly"
IA = TRef("IndexedAssembly")


def valid_rows(rows):
    """input validity: every row is at least one base long (Gap validates nothing itself)"""
    return forall(lambda k: z3.Implies(z3.And(0 <= k, k < rows.len), rows[k].length >= 1))


def idx_wf(rows, idx):
    """the index of a scaffold: idx[k] is the scaffold coordinate of the last base of row k"""
    n = rows.len
    return z3.And(
        idx.len == n,
        forall(lambda k: z3.Implies(z3.And(0 <= k, k < n), idx[k] == rows.cum(k + 1))),
        # two-index monotonicity (the adjacent-pair form would need induction)
        forall2(lambda a, b: z3.Implies(z3.And(0 <= a, a < b, b < n), idx[a] < idx[b])),
        z3.Implies(n > 0, idx[0] >= 1),
    )


def ia_shape(self):
    """the two dictionaries of an IndexedAssembly are different objects (made by __init__)"""
    return self._scaffold_dict.z != self._scaffold_index.z


def entry_wf(self, name):
    """what add_scaffold establishes for one name"""
    d, x = self._scaffold_dict, self._scaffold_index
    sc = d.get(name)
    return z3.Implies(
        d.has(name),
        z3.And(x.has(name), sc.name == name, valid_rows(sc.rows), idx_wf(sc.rows, x.get(name))),
    )


@contract(f"{M}.add_scaffold", properties=("C12",))
class _:
    params = {"self": IA, "scffld": TRef("Scaffold")}
    result = NONE
    local_types = {"idx": TList(INT)}

    @staticmethod
    def requires(o):
        return [("valid-rows", valid_rows(o.scffld.rows)), ("two-dicts", ia_shape(o.self))]

    @staticmethod
    def modifies(o):
        return [("map", "DH.String.Int"), ("map", "DV.String.Int"), ("alloc",), ("fresh-lists", INT)]

    raises = {"ValueError": lambda o: o.self._scaffold_dict.has(o.scffld.name)}

    @staticmethod
    def ensures(o, n, res):
        name = o.scffld.name
        return [
            ("stored", z3.And(n.self._scaffold_dict.has(name), n.self._scaffold_dict.get(name).same(o.scffld))),
            ("indexed", entry_wf(n.self, name)),
        ]

    loops = {
        0: LoopSpec(
            kind="for",
            iter_src="scffld.rows",
            inv=lambda v, e: [
                ("end", v.end == v.scffld.rows.cum(v._it0)),
                ("counter", z3.And(0 <= v._it0, v._it0 <= v.scffld.rows.len)),
                ("len", v.idx.len == v._it0),
                ("idx", forall(lambda k: z3.Implies(z3.And(0 <= k, k < v._it0), v.idx[k] == v.scffld.rows.cum(k + 1)))),
                ("bound", forall(lambda k: z3.Implies(z3.And(0 <= k, k < v._it0), v.idx[k] <= v.end))),
                ("mono", forall2(lambda a, b: z3.Implies(z3.And(0 <= a, a < b, b < v._it0), v.idx[a] < v.idx[b]))),
                ("first", z3.Implies(v._it0 > 0, v.idx[0] >= 1)),
                ("end>=0", v.end >= 0),
                ("same-idx", v.idx.same(e.idx)),
            ],
            frame=lambda v, e: {"LA.Int": [v.idx], "LHI.Int": [v.idx]},
        )
    }
