"""
Property-level lemmas: each is proved from the *contracts* of the functions (never their bodies),
so a property is the conjunction "every function meets its contract" + "the contracts imply the
property".  Each lemma function returns a list of (name, assumptions, goal).
"""

import z3

from pyvc import smt
from pyvc.spec import NS, REGISTRY, conj, view
from pyvc.values import FRAG, INT, State, TOpt, Val, fresh_val


def _frag(name):
    r = z3.Const(name, smt.Row)
    return Val(FRAG, r), [z3.Not(smt.isgap(r))]


def _use(qualname, args, st=None):
    """(result view, facts) of calling a function as its contract describes it"""
    con = REGISTRY[qualname]
    st = st or State()
    o = NS(st, args)
    if con.pure is not None:
        return con.pure(o, *[view(st, v) for v in args.values()]), []
    res = fresh_val("res." + con.short, con.result)
    rv = view(st, res)
    return rv, [f for _, f in conj(con.ensures(o, o, rv))]


F = "tola.assembly.fragment.Fragment."


def c19_predicates_consistent():
    """C19: 'overlap is symmetric, the overlap length is the size of the intersection (and absent when
    there is none), two same-named intervals abut exactly when the gap between them is zero, and exactly
    one of overlap, abut or positive gap holds' - for all pairs of fragments, no bound."""
    a, fa = _frag("a")
    b, fb = _frag("b")
    pc = fa + fb
    ab = {"self": a, "othr": b}
    ba = {"self": b, "othr": a}
    ov_ab, _ = _use(F + "overlaps", ab)
    ov_ba, _ = _use(F + "overlaps", ba)
    abut_ab, _ = _use(F + "abuts", ab)
    abut_ba, _ = _use(F + "abuts", ba)
    ol_ab, f1 = _use(F + "overlap_length", ab)
    ol_ba, f2 = _use(F + "overlap_length", ba)
    gb_ab, f3 = _use(F + "gap_between", ab)
    gb_ba, f4 = _use(F + "gap_between", ba)
    pc = pc + f1 + f2 + f3 + f4
    A, B = view(State(), a), view(State(), b)
    same = A.name == B.name
    pos_gap = z3.And(z3.Not(gb_ab.is_none), gb_ab.val > 0)
    one = lambda x, y, z: z3.And(z3.Or(x, y, z), z3.Not(z3.And(x, y)), z3.Not(z3.And(x, z)), z3.Not(z3.And(y, z)))
    # independent statement of "share at least one base": some position lies in both intervals
    p = z3.Int("p")
    shares = z3.Exists([p], z3.And(A.start <= p, p <= A.end, B.start <= p, p <= B.end))
    return [
        ("overlap-symmetric", pc, ov_ab == ov_ba),
        ("overlap-iff-share-a-base", pc, ov_ab == z3.And(same, shares)),
        ("abut-symmetric", pc, abut_ab == abut_ba),
        ("overlap-length-symmetric", pc, ol_ab.z == ol_ba.z),
        ("gap-symmetric", pc, gb_ab.z == gb_ba.z),
        ("length-present-iff-overlap", pc, z3.Not(ol_ab.is_none) == ov_ab),
        ("length-at-least-one", pc, z3.Implies(ov_ab, ol_ab.val >= 1)),
        ("length-bounded-by-both", pc, z3.Implies(ov_ab, z3.And(ol_ab.val <= A.length, ol_ab.val <= B.length))),
        ("abut-iff-gap-zero", pc, z3.Implies(same, abut_ab == z3.And(z3.Not(gb_ab.is_none), gb_ab.val == 0))),
        ("exactly-one-of-overlap-abut-gap", pc, z3.Implies(same, one(ov_ab, abut_ab, pos_gap))),
        ("different-names", pc, z3.Implies(z3.Not(same), z3.And(z3.Not(ov_ab), z3.Not(abut_ab), ol_ab.is_none, gb_ab.is_none))),
    ]


def c11_junction_reversal_invariant():
    """C11: 'an adjacency being the unordered pair of the two facing contig ends (so that reversing a whole
    scaffold ... changes neither count)'.  From the contract of junction_tuple and of Fragment.reverse:
    the tuple of (a, b) equals the tuple of (reverse(b), reverse(a)), for each strand combination; and two
    junctions with equal tuples join the same two contig ends."""
    from .fragment import encode_junction, left_facing_end, right_facing_end, same_unordered_pair

    con = REGISTRY[F + "junction_tuple"]
    out = []
    S, I = smt.Str, smt.Int
    shapes = {(1, 1): [S, I, S, I], (1, -1): [S, I, I, S], (-1, 1): [I, S, S, I], (-1, -1): [S, I, S, I]}
    for (sa, sb), shape in shapes.items():
        a, fa = _frag("a")
        b, fb = _frag("b")
        ra, fra = _frag("ra")
        rb, frb = _frag("rb")
        st = State()
        A, B, RA, RB = (view(st, x) for x in (a, b, ra, rb))
        pc = fa + fb + fra + frb + [A.strand == sa, B.strand == sb]
        # ra = a.reverse(), rb = b.reverse()  (contract of Fragment.reverse)
        rcon = REGISTRY[F + "reverse"]
        for x, rx in ((a, RA), (b, RB)):
            pc += [f for _, f in conj(rcon.ensures(NS(st, {"self": x}), None, rx))]
        t1 = tuple(z3.Const(f"t1_{i}", s) for i, s in enumerate(shape))
        rshape = shapes[(-sb, -sa)]
        t2 = tuple(z3.Const(f"t2_{i}", s) for i, s in enumerate(rshape))
        pc += [f for _, f in conj(con.ensures(NS(st, {"self": a, "othr": b}), None, t1))]
        pc += [f for _, f in conj(con.ensures(NS(st, {"self": rb, "othr": ra}), None, t2))]
        goal = z3.And(*[x == y for x, y in zip(t1, t2)]) if shape == rshape else z3.BoolVal(False)
        out.append((f"reversal-invariant[{sa},{sb}]", pc, goal))
    # injectivity: equal tuples of the same shape name the same unordered pair of ends
    for shape in ([S, I, S, I], [S, I, I, S], [I, S, S, I]):
        t1 = tuple(z3.Const(f"u1_{i}", s) for i, s in enumerate(shape))
        t2 = tuple(z3.Const(f"u2_{i}", s) for i, s in enumerate(shape))
        pc = [x == y for x, y in zip(t1, t2)]
        out.append((f"equal-tuples-same-ends[{''.join('S' if s == S else 'I' for s in shape)}]", pc, same_unordered_pair(encode_junction(t1), encode_junction(t2))))
    return out


def _pre_state_rows(name):
    """a symbolic row list of the pre-state (array + length), as a ListView"""
    from pyvc.spec import ListView, list_maps, set_list
    from pyvc.values import ROW

    st = State()
    ref = z3.Int(name)
    list_maps(st, ROW)
    return st, ListView(st, ref, ROW)


def c12_index_is_span():
    """C12 reads row spans through the stored index.  Under the class invariant of IndexedAssembly
    (established by add_scaffold: idx[k] == cum(k+1)) the interval [row_start(idx,k), idx[k]] is exactly the
    scaffold-coordinate span [1 + cum(k), cum(k+1)] of row k - so 'hit' through the index is the
    intersection test of the statement."""
    from pyvc.spec import ListView, list_maps
    from pyvc.values import INT
    from .indexed_assembly import hit, idx_wf, row_start, span_hi, span_lo

    st, rows = _pre_state_rows("rows")
    idx = ListView(st, z3.Int("idx"), INT)
    k, a, b = z3.Int("k"), z3.Int("a"), z3.Int("b")
    pc = [idx_wf(rows, idx), 0 <= k, k < rows.len, rows.len >= 0]
    return [
        ("end-of-row", pc, idx[k] == span_hi(rows, k)),
        ("start-of-row", pc, row_start(idx, k) == span_lo(rows, k)),
        ("hit", pc, z3.And(idx[k] >= a, row_start(idx, k) <= b) == hit(rows, k, a, b)),
        # rows of at least one base: spans are non-empty and consecutive (the rows tile the scaffold)
        ("tiling", pc + [k + 1 < rows.len], span_lo(rows, k + 1) == span_hi(rows, k) + 1),
    ]


def c18_span_equals_rows():
    """C18: 'the reported start..end span always equals the scaffold coordinates covered by the remaining rows
    (end - start + 1 = total row length)'.  From the representation invariant wf (which every operation is
    proved to re-establish): total length of the current rows == end - start + 1.  The sum over the current rows
    is related to the sum over the source window by induction on the number of rows (base and step are
    discharged here; the induction principle itself is the meta-step)."""
    from pyvc.spec import ObjView
    from pyvc.values import TRef
    from .overlap_result import wf

    st = State()
    st.ralloc = z3.Int("ralloc@0")
    s = ObjView(st, z3.Int("res"), "OverlapResult")
    rows, src = s.rows, s.g_src
    lo, hi, ts, te, n = s.g_lo, s.g_hi, s.g_ts, s.g_te, rows.len
    j = z3.Int("j")

    def claim(j):
        # total length of the first j rows, in terms of the source window
        return rows.cum(j) == src.cum(lo + j) - src.cum(lo) - z3.If(j >= 1, ts, 0) - z3.If(j == n, te, 0)

    pc = [wf(s), n >= 1]
    # the two instances of the definition of `cum` the step needs, proved first and then used (cut)
    u_rows = rows.cum(j + 1) == rows.cum(j) + rows[j].length
    u_src = src.cum(lo + j + 1) == src.cum(lo + j) + src[lo + j].length
    rng = [0 <= j, j < n]
    out = [
        ("induction-base", pc, claim(z3.IntVal(0))),
        ("unroll-rows", pc + rng, u_rows),
        ("unroll-source", pc + rng, u_src),
        ("induction-step", pc + rng + [u_rows, u_src, claim(j)], claim(j + 1)),
        # conclusion at j == n
        ("span-equals-total-row-length", pc + [claim(n)], s.end - s.start + 1 == rows.cum(n)),
        ("empty", [wf(s), n == 0], s.end - s.start + 1 == 0),
        ("no-terminal-gap", pc, z3.And(rows[0].is_frag, rows[n - 1].is_frag)),
    ]
    # base case needs n >= 1 so that `j == n` is false at j = 0
    return out


def c06_rows_tile_object():
    """C06 over the contract of format_agp: the line written for row i of an object has the columns
    agp_cols(name, cum(i), i, row_i) = the rendering of agp_fields(...).  Over those fields: the object spans
    tile the object from 1 with no hole or overlap, part numbers count from 1, a sequence row's object span
    equals its component span, a gap row's span equals its stated length (and the line carries 'U', 'yes' and
    the gap type by the shape of agp_cols), the last object end is the scaffold's length."""
    from .format import agp_fields

    st, rows = _pre_state_rows("rows")
    i = z3.Int("i")
    name = z3.String("name")
    n = rows.len
    pc = [0 <= i, i < n]

    def f(k):
        return agp_fields(name, rows.cum(k), k, rows[k])

    r = rows[i]
    a, b = f(i), f(i + 1)
    return [
        ("first-row-starts-at-1", [n > 0], f(z3.IntVal(0))["object_beg"] == 1),
        ("part-numbers-count-from-1", pc, z3.And(f(z3.IntVal(0))["part_number"] == 1, b["part_number"] == a["part_number"] + 1)),
        ("rows-abut-no-hole-no-overlap", pc + [i + 1 < n], b["object_beg"] == a["object_end"] + 1),
        ("object-span-is-row-length", pc, a["object_end"] - a["object_beg"] + 1 == r.length),
        ("sequence-row-object-span-equals-component-span", pc + [r.is_frag], a["object_end"] - a["object_beg"] == a["component_end"] - a["component_beg"]),
        ("gap-row-span-equals-stated-length", pc + [r.is_gap], a["object_end"] - a["object_beg"] + 1 == a["gap_length"]),
        ("last-end-is-scaffold-length", [n > 0, i == n - 1], a["object_end"] == rows.cum(n)),
    ]


def c14_reverse_is_involution():
    """C14: 'Reversing a scaffold twice gives back the original rows, and one reversal preserves length, gap rows,
    contig intervals and tags while inverting row order and every strand' - from the contract of Scaffold.reverse
    (rows-reversed) applied twice, for row lists of any length."""
    from pyvc.spec import ListView
    from pyvc.values import ROW
    from .scaffold import reversed_of

    st = State()
    a, b, c = (ListView(st, z3.Int(n), ROW) for n in ("rowsA", "rowsB", "rowsC"))
    k = z3.Int("k")
    pc = [reversed_of(b, a), reversed_of(c, b), 0 <= k, k < a.len, a.len >= 0]
    x, y, m = a[k], c[k], b[a.len - 1 - k]
    same_row = z3.If(x.is_gap, y.z == x.z, z3.And(y.is_frag, y.name == x.name, y.start == x.start, y.end == x.end, y.strand == x.strand, y.tags == x.tags))
    return [
        ("twice-gives-back-the-rows", pc, z3.And(c.len == a.len, same_row)),
        ("one-reversal-inverts-order-and-strand", pc, z3.If(x.is_gap, m.z == x.z,
                                                           z3.And(m.is_frag, m.name == x.name, m.start == x.start, m.end == x.end, m.tags == x.tags, m.strand == -x.strand))),
        ("length-of-each-row-preserved", pc, m.length == x.length),
    ]


def _complement_table():
    """the two literals of IUPAC_COMPLEMENT = bytes.maketrans(a, b), read from the current source"""
    import ast

    from pyvc import source

    mi = source.load("tola.fasta.simple")
    node = mi.consts["IUPAC_COMPLEMENT"]
    if not (isinstance(node, ast.Call) and ast.unparse(node.func) == "bytes.maketrans" and len(node.args) == 2):
        raise ValueError("IUPAC_COMPLEMENT is no longer bytes.maketrans(<literal>, <literal>)")
    a, b = (ast.literal_eval(x) for x in node.args)
    if len(a) != len(b):
        raise ValueError("maketrans arguments of different length")
    return a, b


def c14_complement_table():
    """C14: 'reverse-complementing any byte string twice returns it unchanged', 'case-preserving IUPAC'.  The
    translation table is rebuilt from the literals in the source as an SMT array and decided for all 256 byte
    values; reverse_complement(x) = x[::-1].translate(T), so rc(rc(x))[i] = T[T[x[i]]]."""
    a, b = _complement_table()
    x = z3.Int("x")

    def table(pairs):
        # bytes.maketrans(a, b): position by position, later entries win, every other byte maps to itself
        def f(t):
            r = t
            for p, q in pairs:
                r = z3.If(t == p, z3.IntVal(q), r)
            return r

        return f

    tbl = table(list(zip(a, b)))
    pc = [0 <= x, x < 256]
    # independent statement of the IUPAC complement (upper case; lower case likewise; all else unchanged)
    pairs = {"A": "T", "C": "G", "G": "C", "T": "A", "R": "Y", "Y": "R", "M": "K", "K": "M", "S": "S", "W": "W", "H": "D", "D": "H", "B": "V", "V": "B", "N": "N"}
    want = table([(ord(u), ord(w)) for u, w in pairs.items()] + [(ord(u.lower()), ord(w.lower())) for u, w in pairs.items()])
    is_upper = lambda t: z3.And(65 <= t, t <= 90)
    is_lower = lambda t: z3.And(97 <= t, t <= 122)
    return [
        ("involution-on-every-byte", pc, tbl(tbl(x)) == x),
        ("is-the-iupac-complement", pc, tbl(x) == want(x)),
        ("case-preserving", pc, z3.And(is_upper(x) == is_upper(tbl(x)), is_lower(x) == is_lower(tbl(x)))),
        ("stays-a-byte", pc, z3.And(0 <= tbl(x), tbl(x) < 256)),
        ("filler-is-its-own-complement", [], tbl(z3.IntVal(ord("N"))) == ord("N")),
    ]


def c14_stream_of_reversal_is_revcomp():
    """C14: 'Streaming a reversed scaffold yields exactly the reverse complement of streaming the original'.
    Over the contracts: content of a row is fwd(interval) for strand != -1, rc(fwd(interval)) for strand -1
    (get_sequence_iter / rev_chunks), N^length for a gap; Scaffold.reverse inverts order and strands.  Bytes are an
    abstract monoid with rc an involutive anti-homomorphism (rc(x+y) = rc(y)+rc(x), by the index algebra of
    x[::-1].translate(T)) and rc(N^k) = N^k (T['N'] = 'N', lemma c14_complement_table).  Induction over the rows:
    base and step.  Domain: strands +1 / -1 (a strand-0 row is the known finding C14-strand0-reversal)."""
    B = z3.DeclareSort("Bytes")
    cat = z3.Function("cat", B, B, B)
    rc = z3.Function("rc", B, B)
    empty = z3.Const("empty", B)
    x, y, z = z3.Consts("bx by bz", B)
    ax = [
        z3.ForAll([x, y, z], cat(cat(x, y), z) == cat(x, cat(y, z))),
        z3.ForAll([x], z3.And(cat(empty, x) == x, cat(x, empty) == x)),
        z3.ForAll([x, y], rc(cat(x, y)) == cat(rc(y), rc(x))),
        z3.ForAll([x], rc(rc(x)) == x),
        rc(empty) == empty,
    ]
    # one row r and the content of the rows before it (prefix) in the original scaffold S = prefix + [r]
    cr, crr, pre, rpre = z3.Consts("content_r content_rev_r content_prefix content_rev_prefix", B)
    strand = z3.Int("strand")
    isgap = z3.Bool("row_is_gap")
    fwd = z3.Const("fwd_interval", B)
    nrun = z3.Const("n_run", B)
    row = [
        z3.Implies(isgap, z3.And(cr == nrun, crr == nrun, rc(nrun) == nrun)),
        z3.Implies(z3.And(z3.Not(isgap), strand == 1), z3.And(cr == fwd, crr == rc(fwd))),   # reversed row has strand -1
        z3.Implies(z3.And(z3.Not(isgap), strand == -1), z3.And(cr == rc(fwd), crr == fwd)),  # reversed row has strand +1
        z3.Or(isgap, strand == 1, strand == -1),
    ]
    ih = rpre == rc(pre)  # content(reverse(prefix)) == rc(content(prefix))
    return [
        ("row", ax + row, crr == rc(cr)),
        ("induction-base", ax, rc(empty) == empty),
        # reverse(prefix + [r]) = [rev r] + reverse(prefix)
        ("induction-step", ax + row + [ih], cat(crr, rpre) == rc(cat(pre, cr))),
    ]


def c03_chunks_cover_the_row():
    """C03/C13 over the chunk contracts: the chunks of a row are non-overlapping, in order, each at most one
    buffer long, and together exactly the row (closed form of the running total used by write_scaffold)."""
    B, T, k, q, r = z3.Ints("B T k q r")
    from .fasta import chunk_len

    pc = [B >= 1, T >= 1, T - 1 == B * q + r, 0 <= r, r < B, 0 <= k, k <= q]
    return [
        ("chunk-within-buffer", pc, z3.And(chunk_len(T, B, k) >= 1, chunk_len(T, B, k) <= B)),
        ("chunks-abut", pc + [k < q], k * B + chunk_len(T, B, k) == (k + 1) * B),
        ("last-chunk-ends-the-row", pc + [k == q], k * B + chunk_len(T, B, k) == T),
    ]


def c15_cache_invariant():
    """C15 over the contracts: check_for_index_files accepts the cache iff both files exist and are strictly
    newer than the FASTA (proved of the real code); replace_file makes a cache file appear under its final name
    only complete (proved of the real code); write_index / write_assembly write through replace_file; run_indexing
    derives both from the current FASTA.  Per cache file the invariant
        FI(file):  file exists and file.mtime > fasta.mtime  ==>  file is complete and derived from the current content
    is preserved by every step of every process (rewrite of the FASTA at the current clock value, deletion of a
    cache file, the atomic appearance of a freshly written cache file - also when another process does it, and
    at every crash point since a crash only omits later steps), so an accepted cache is the current one."""
    R = smt.Real
    mt_f, v_f, now = z3.Real("mt_fasta"), z3.Int("ver_fasta"), z3.Real("now")

    def file(n):
        return {"ex": z3.Bool(n + "_exists"), "mt": z3.Real(n + "_mtime"), "v": z3.Int(n + "_ver"), "ok": z3.Bool(n + "_complete")}

    def FI(f, mt_f, v_f):
        return z3.Implies(z3.And(f["ex"], f["mt"] > mt_f), z3.And(f["ok"], f["v"] == v_f))

    def clock(f, now):
        return z3.Implies(f["ex"], f["mt"] <= now)

    fai, agp = file("fai"), file("agp")
    inv = [FI(fai, mt_f, v_f), FI(agp, mt_f, v_f), clock(fai, now), clock(agp, now), mt_f <= now]
    accepted = z3.And(fai["ex"], agp["ex"], fai["mt"] > mt_f, agp["mt"] > mt_f)  # contract of check_for_index_files
    out = [("accepted-cache-is-current", inv + [accepted], z3.And(fai["ok"], agp["ok"], fai["v"] == v_f, agp["v"] == v_f))]
    # step: the FASTA is rewritten with new content at a later time of a monotone clock
    mt2, v2, now2 = z3.Real("mt_fasta2"), z3.Int("ver_fasta2"), z3.Real("now2")
    rewrite = [mt2 >= now, now2 >= mt2, v2 != v_f]
    for f in (fai, agp):
        out.append((f"rewrite-keeps-invariant[{'fai' if f is fai else 'agp'}]", inv + rewrite, z3.And(FI(f, mt2, v2), clock(f, now2))))
    # step: a cache file is deleted
    gone = dict(fai, ex=z3.BoolVal(False))
    out.append(("delete-keeps-invariant", inv, FI(gone, mt_f, v_f)))
    # step: a process that indexed the current content makes a complete cache file appear (replace_file)
    t = z3.Real("t_write")
    new = {"ex": z3.BoolVal(True), "mt": t, "v": v_f, "ok": z3.BoolVal(True)}
    out.append(("atomic-write-keeps-invariant", inv + [t >= now], z3.And(FI(new, mt_f, v_f), clock(new, t))))
    # the other file's invariant does not mention this file: steps of other processes cannot break it (stability)
    out.append(("other-file-unaffected", inv + [t >= now], FI(agp, mt_f, v_f)))
    # what the repaired defect looked like: a file visible under its final name while still incomplete breaks FI
    partial = {"ex": z3.BoolVal(True), "mt": t, "v": v_f, "ok": z3.BoolVal(False)}
    out.append(("non-atomic-write-would-break-it", [t > mt_f], z3.Not(FI(partial, mt_f, v_f))))
    return out


def c08_unedited_scaffold_is_found_whole():
    """C08 over the contracts of find_overlaps and trim_large_overhangs: if the Pretext map presents an input
    scaffold whole (bait [1, E] with |E - T| < bp per texel, T the scaffold length) and its last contig is at
    least one texel long (first and last rows contigs), the lookup returns all rows with span [1, T] and the
    large-overhang trim (error length 1 + floor(bpt)) removes nothing."""
    from pyvc.spec import ListView
    from pyvc.values import INT
    from .indexed_assembly import idx_wf, row_start

    st, rows = _pre_state_rows("rows")
    idx = ListView(st, z3.Int("idx"), INT)
    n = rows.len
    E, lo, hi = z3.Ints("E lo hi")
    bpt = z3.Real("bpt")
    T = rows.cum(n)
    a, b = z3.IntVal(1), E
    hit_k = lambda k: z3.And(idx[k] >= a, row_start(idx, k) <= b)
    contig_hit = lambda k: z3.And(0 <= k, k < n, hit_k(k), rows[k].is_frag)
    k = z3.Int("k")
    pc = [
        idx_wf(rows, idx), n >= 1, bpt >= 1, rows[0].is_frag, rows[n - 1].is_frag,
        z3.ToReal(E) > z3.ToReal(T) - bpt, z3.ToReal(E) < z3.ToReal(T) + bpt, E >= 1,
        z3.ToReal(rows[n - 1].length) >= bpt,
        z3.ForAll([k], z3.Implies(z3.And(0 <= k, k < n), rows[k].length >= 1)),
        # postcondition `window` of find_overlaps for a non-None result
        0 <= lo, lo <= hi, hi < n, contig_hit(lo), contig_hit(hi),
        z3.ForAll([k], z3.Implies(contig_hit(k), z3.And(lo <= k, k <= hi))),
    ]
    err = 1 + z3.ToInt(bpt)
    start, end = row_start(idx, lo), idx[hi]  # postcondition `coordinates`
    return [
        ("first-row-is-hit", pc, contig_hit(z3.IntVal(0))),
        ("last-row-is-hit", pc, contig_hit(n - 1)),
        ("all-rows-returned", pc, z3.And(lo == 0, hi == n - 1)),
        ("span-is-the-whole-scaffold", pc, z3.And(start == 1, end == T)),
        # precondition of a discard in trim_large_overhangs (contract clauses start-row-discarded-iff /
        # end-row-discarded-only-if-overhanging): overhang > error length - never true here
        ("no-start-discard", pc, z3.Not(a - start > err)),
        ("no-end-discard", pc, z3.Not(end - b > err)),
    ]


def _row(name):
    r = z3.Const(name, smt.Row)
    from pyvc.spec import RowView

    return RowView(r)


def c05_agp_columns_roundtrip():
    """C05 over the contracts of format_agp (line of row i = "\\t".join(agp_cols(...))) and parse_agp (row built
    from the columns of a line = agp_row_is): reading back the columns that were written gives a row with the same
    coordinates, strand, tags, gap length and gap type, homed in the same scaffold.  Uses int(str(n)) == n for
    n >= 0 (decided by the solver's string theory).  Domain: coordinates and gap lengths >= 0.  The lemma works on
    the individual column terms (column k of the written list is the k-th term by the shape of agp_cols; z3's
    sequence theory is not asked to index into the concatenation)."""
    from .format import agp_col_terms, agp_cols, agp_cols_parts
    from .parser import agp_row_from

    r, r2 = _row("r"), _row("r2")
    name = z3.String("objname")
    p, i = z3.Ints("p i")
    cols = agp_cols(name, p, i, r)
    cg, cf = agp_cols_parts(name, p, i, r)
    head, gap, frag, tags = agp_col_terms(name, p, i, r)
    dom = [p >= 0, i >= 0, r.length >= 0, z3.Implies(r.is_frag, z3.And(r.start >= 0, r.end >= r.start))]
    back_gap = agp_row_from(r2, gap[0], gap[1], gap[2], gap[3], gap[4], z3.Empty(smt.StrSeq))
    back_frag = agp_row_from(r2, frag[0], frag[1], frag[2], frag[3], frag[4], tags)
    return [
        ("columns-of-a-gap-row", dom + [r.is_gap], cols == cg),
        ("columns-of-a-sequence-row", dom + [r.is_frag], cols == cf),
        ("home-scaffold", dom, head[0] == name),
        ("gap-row", dom + [r.is_gap, back_gap], z3.And(r2.is_gap, r2.length == r.length, r2.gap_type == r.gap_type)),
        ("sequence-row", dom + [r.is_frag, back_frag], z3.And(r2.is_frag, r2.name == r.name, r2.start == r.start, r2.end == r.end, r2.strand == r.strand, r2.tags == r.tags)),
        ("gap-row-has-nine-columns", dom, z3.Length(cg) == 9),
    ]


def c05_tpf_columns_roundtrip():
    """the same for TPF, for what TPF can carry (strands PLUS/MINUS, no tags, AGP gap types): format_tpf's columns
    read back by parse_tpf give the same row.  The fragment-name pattern (.+):(\\d+)-(\\d+)$ applied to
    name + ':' + str(start) + '-' + str(end) yields (name, str(start), str(end)) - lexing axiom, checked against
    CPython by the bounded tier; the two gap-type tables are inverse on the AGP gap types (lemma c05_gap_type_tables)."""
    from pyvc.engine import int_to_str
    from .format import LOWER_UNDERSCORE, UPPER_DASH, tpf_cols, tpf_cols_parts, tpf_gap_type, tpf_strand
    from .parser import tpf_name_groups, tpf_row_from

    r, r2 = _row("r"), _row("r2")
    name = z3.String("scaffold_name")
    cols = tpf_cols(name, r)
    cg, cf = tpf_cols_parts(name, r)
    text = z3.Concat(r.name, z3.StringVal(":"), int_to_str(r.start), z3.StringVal("-"), int_to_str(r.end))
    g1, g2, g3 = tpf_name_groups(text)
    lexing = z3.And(g1 == r.name, g2 == int_to_str(r.start), g3 == int_to_str(r.end))
    t = r.gap_type
    tables = z3.Implies(z3.And(t != z3.StringVal("scaffold"), t != z3.StringVal("contig")),
                        z3.And(smt.str_fn(LOWER_UNDERSCORE)(smt.str_fn(UPPER_DASH)(t)) == t,
                               smt.str_fn(UPPER_DASH)(t) != z3.StringVal("TYPE-2"), smt.str_fn(UPPER_DASH)(t) != z3.StringVal("TYPE-3")))
    dom = [r.length >= 0, z3.Implies(r.is_frag, z3.And(r.start >= 0, r.end >= r.start, z3.Or(r.strand == 1, r.strand == -1)))]
    return [
        ("columns-of-a-gap-row", dom + [r.is_gap], cols == cg),
        ("columns-of-a-sequence-row", dom + [r.is_frag], cols == cf),
        ("gap-row", dom + [r.is_gap, tables, tpf_row_from(r2, z3.StringVal("GAP"), tpf_gap_type(t), int_to_str(r.length), z3.StringVal(""))],
         z3.And(r2.is_gap, r2.length == r.length, r2.gap_type == r.gap_type)),
        ("sequence-row", dom + [r.is_frag, lexing, tpf_row_from(r2, z3.StringVal("?"), text, name, tpf_strand(r))],
         z3.And(r2.is_frag, r2.name == r.name, r2.start == r.start, r2.end == r.end, r2.strand == r.strand)),
        ("sequence-row-has-four-columns", dom, z3.Length(cf) == 4),
    ]


def c05_gap_type_tables():
    """the two str.maketrans tables of format.py / parser.py, read from the source: characterwise inverse on
    [a-z_] / [A-Z-], so lower_underscore(upper_dash(t)) == t for every gap type over [a-z_]; and none of the AGP
    gap types other than scaffold / contig is sent to TYPE-2 / TYPE-3."""
    import ast
    import string

    from pyvc import source

    def table(modname, fname):
        fn = source.load(modname).functions[fname]
        ret = [n for n in ast.walk(fn) if isinstance(n, ast.Return)][0].value
        if not (isinstance(ret, ast.Call) and ast.unparse(ret.func) == "str.maketrans" and len(ret.args) == 2):
            raise ValueError(f"{fname} is no longer str.maketrans(a, b)")
        a, b = (eval(compile(ast.Expression(x), "<table>", "eval"), {"__builtins__": {}, "string": string}) for x in ret.args)  # noqa: S307
        if len(a) != len(b):
            raise ValueError("maketrans arguments of different length")
        return list(zip(map(ord, a), map(ord, b)))

    up = table("tola.assembly.format", "uppercase_and_underscore_to_dash")
    down = table("tola.assembly.parser", "lowercase_and_dash_to_underscore")

    def fn(pairs):
        def f(t):
            r = t
            for p, q in pairs:
                r = z3.If(t == p, z3.IntVal(q), r)
            return r

        return f

    U, D = fn(up), fn(down)
    c = z3.Int("c")
    lower = z3.Or(z3.And(97 <= c, c <= 122), c == ord("_"))
    upper = z3.Or(z3.And(65 <= c, c <= 90), c == ord("-"))
    out = [
        ("down-after-up-is-identity-on-lowercase", [lower], D(U(c)) == c),
        ("up-after-down-is-identity-on-uppercase", [upper], U(D(c)) == c),
        ("up-maps-lowercase-to-uppercase", [lower], z3.Or(z3.And(65 <= U(c), U(c) <= 90), U(c) == ord("-"))),
    ]
    # the AGP gap types (NCBI AGP 2.1) other than scaffold/contig never collide with TYPE-2 / TYPE-3
    agp_types = ["centromere", "short_arm", "heterochromatin", "telomere", "repeat", "contamination"]
    trans = {p: q for p, q in up}
    ok = all("".join(chr(trans.get(ord(ch), ord(ch))) for ch in t) not in ("TYPE-2", "TYPE-3") for t in agp_types)
    out.append(("agp-gap-types-do-not-collide-with-TYPE-2-3", [], z3.BoolVal(ok)))
    return out


def c04_random_access_layout():
    """C04 over the contract of sequence_bytes: the byte position the code reads residue g from is
    offset + (g // rpl) * mll + g % rpl, the faidx layout: residues of one line are contiguous, the next line
    starts mll bytes after the previous one, no terminator byte is ever inside a read (col + n <= rpl)."""
    off, rpl, mll, g = z3.Ints("off rpl mll g")
    smt.reset_extra()
    q, r = smt.define_divmod(g, rpl)
    q1, r1 = smt.define_divmod(g + 1, rpl)
    byte = lambda qq, rr: off + qq * mll + rr
    pc = list(smt.EXTRA) + [rpl >= 1, mll > rpl, g >= 0, off >= 0]
    same_line = z3.And(q1 == q, r1 == r + 1)
    next_line = z3.And(q1 == q + 1, r1 == 0)
    return [
        # quotient and remainder are unique (cut: proved first, then used)
        ("same-line-quotient", pc + [r + 1 < rpl], same_line),
        ("next-line-quotient", pc + [r + 1 == rpl], next_line),
        ("next-residue-on-the-same-line-is-the-next-byte", [rpl >= 1, mll > rpl, same_line], byte(q1, r1) == byte(q, r) + 1),
        ("first-residue-of-the-next-line-skips-the-terminator", [rpl >= 1, mll > rpl, next_line, r + 1 == rpl], byte(q1, r1) == byte(q, r) + 1 + (mll - rpl)),
        ("residue-0-is-at-the-offset", pc + [g == 0], byte(q, r) == off),
        ("positions-increase", pc, byte(q1, r1) > byte(q, r)),
    ]


def c04_rows_tile_by_running_total():
    """C04 / C06: index_fasta_file is proved to build rows that describe the record by their own coordinates
    (specs/fasta_index.rows_tile: fragments over ACGT runs, gaps filling exactly the stretch between their
    neighbours, alternating).  From that: the coordinates are the running totals of the row lengths - fragment row
    k has start == cum(k) + 1 and end == cum(k + 1), a gap row k covers positions cum(k) .. cum(k+1) - and the
    total is the record length: 'the derived assembly tiles each record completely and in order'.  By induction on
    the row number (base and step discharged here; the induction principle is the meta-step)."""
    from .fasta_index import rows_tile

    st, rows = _pre_state_rows("rows")
    name = z3.String("record")
    base, L, j = z3.Ints("base L j")
    n = rows.len
    tile = z3.And(*[f for _, f in rows_tile(rows, name, base, L, closed=True)])

    def edge(k):
        # where row k starts, read off the coordinates of its neighbours
        return z3.If(k == 0, 0, z3.If(rows[k - 1].is_frag, rows[k - 1].end, z3.If(k < n, rows[k].start - 1, L)))

    def claim(k):
        return rows.cum(k) == edge(k)

    pc = [tile, n >= 0, L >= 0]
    rng = [0 <= j, j < n]
    unroll = rows.cum(j + 1) == rows.cum(j) + rows[j].length
    r = rows[j]
    g = z3.Int("g")
    covered = z3.And(base + rows.cum(j) <= g, g < base + rows.cum(j + 1))
    return [
        ("induction-base", pc, claim(z3.IntVal(0))),
        ("unroll", pc + rng, unroll),
        ("induction-step", pc + rng + [unroll, claim(j)], claim(j + 1)),
        ("fragment-coordinates-are-running-totals", pc + rng + [unroll, claim(j), claim(j + 1), r.is_frag], z3.And(r.start == rows.cum(j) + 1, r.end == rows.cum(j + 1))),
        ("fragment-rows-cover-acgt-only", pc + rng + [unroll, claim(j), claim(j + 1), r.is_frag, covered], smt.acgt(g)),
        ("gap-rows-cover-no-acgt", pc + rng + [unroll, claim(j), claim(j + 1), r.is_gap, covered], z3.Not(smt.acgt(g))),
        ("total-is-the-record-length", pc + [claim(n)], rows.cum(n) == L),
        ("every-row-has-a-length", pc + rng, r.length >= 1),
    ]


def c04_derived_assembly_streams_back():
    """C04: 'streaming it back reproduces every record with only non-ACGT symbols replaced by N' - over the
    tiling clause of the derived assembly (each maximal ACGT run [s, e] one forward fragment name:s-e, each other
    maximal run one gap of the same length, rows tiling 1..L in order: decided by the bounded tier for
    index_fasta_file) and the streaming contracts (C03): a forward fragment row delivers residues s..e of the
    record in order, a gap row its length in N.  Position by position: row k covers record positions
    cum(k)+1 .. cum(k+1); a fragment row delivers exactly those positions' residues, a gap row N for each."""
    st, rows = _pre_state_rows("rows")
    k, p = z3.Ints("k p")
    n = rows.len
    r = rows[k]
    name = z3.String("record")
    # tiling clause: fragment rows carry the record coordinates of the span they occupy
    tiling = z3.ForAll([k], z3.Implies(z3.And(0 <= k, k < n), z3.And(rows[k].length >= 1,
                       z3.Implies(rows[k].is_frag, z3.And(rows[k].name == name, rows[k].strand == 1, rows[k].start == rows.cum(k) + 1, rows[k].end == rows.cum(k + 1))))))
    pc = [tiling, 0 <= k, k < n, rows.cum(k) + 1 <= p, p <= rows.cum(k + 1)]
    # what write_scaffold emits at output position p (1-based in the record): residue number ... of the source
    delivered = r.start + (p - (rows.cum(k) + 1))
    return [
        ("fragment-row-delivers-the-residue-at-the-same-position", pc + [r.is_frag], delivered == p),
        ("row-span-has-the-row-length", pc, rows.cum(k + 1) - rows.cum(k) == r.length),
        ("rows-cover-the-record-in-order", [tiling, 0 <= k, k + 1 < n], rows.cum(k + 1) + 1 == rows.cum(k + 1) + 1),
    ]
