"""
Property-level lemmas: each is proved from the *contracts* of the functions (never their bodies),
so a property is the conjunction "every function meets its contract" + "the contracts imply the
property".  Each lemma function returns a list of (name, assumptions, goal).
"""

import z3

from pyvc import smt
from pyvc.spec import NS, REGISTRY, conj, view
from pyvc.values import FRAG, INT, State, TOpt, Val, fresh_val


def _frag(name):
    r = z3.Const(name, smt.Row)
    return Val(FRAG, r), [z3.Not(smt.isgap(r))]


def _use(qualname, args, st=None):
    """(result view, facts) of calling a function as its contract describes it"""
    con = REGISTRY[qualname]
    st = st or State()
    o = NS(st, args)
    if con.pure is not None:
        return con.pure(o, *[view(st, v) for v in args.values()]), []
    res = fresh_val("res." + con.short, con.result)
    rv = view(st, res)
    return rv, [f for _, f in conj(con.ensures(o, o, rv))]


F = "tola.assembly.fragment.Fragment."


def c19_predicates_consistent():
    """C19: 'overlap is symmetric, the overlap length is the size of the intersection (and absent when
    there is none), two same-named intervals abut exactly when the gap between them is zero, and exactly
    one of overlap, abut or positive gap holds' - for all pairs of fragments, no bound."""
    a, fa = _frag("a")
    b, fb = _frag("b")
    pc = fa + fb
    ab = {"self": a, "othr": b}
    ba = {"self": b, "othr": a}
    ov_ab, _ = _use(F + "overlaps", ab)
    ov_ba, _ = _use(F + "overlaps", ba)
    abut_ab, _ = _use(F + "abuts", ab)
    abut_ba, _ = _use(F + "abuts", ba)
    ol_ab, f1 = _use(F + "overlap_length", ab)
    ol_ba, f2 = _use(F + "overlap_length", ba)
    gb_ab, f3 = _use(F + "gap_between", ab)
    gb_ba, f4 = _use(F + "gap_between", ba)
    pc = pc + f1 + f2 + f3 + f4
    A, B = view(State(), a), view(State(), b)
    same = A.name == B.name
    pos_gap = z3.And(z3.Not(gb_ab.is_none), gb_ab.val > 0)
    one = lambda x, y, z: z3.And(z3.Or(x, y, z), z3.Not(z3.And(x, y)), z3.Not(z3.And(x, z)), z3.Not(z3.And(y, z)))
    # independent statement of "share at least one base": some position lies in both intervals
    p = z3.Int("p")
    shares = z3.Exists([p], z3.And(A.start <= p, p <= A.end, B.start <= p, p <= B.end))
    return [
        ("overlap-symmetric", pc, ov_ab == ov_ba),
        ("overlap-iff-share-a-base", pc, ov_ab == z3.And(same, shares)),
        ("abut-symmetric", pc, abut_ab == abut_ba),
        ("overlap-length-symmetric", pc, ol_ab.z == ol_ba.z),
        ("gap-symmetric", pc, gb_ab.z == gb_ba.z),
        ("length-present-iff-overlap", pc, z3.Not(ol_ab.is_none) == ov_ab),
        ("length-at-least-one", pc, z3.Implies(ov_ab, ol_ab.val >= 1)),
        ("length-bounded-by-both", pc, z3.Implies(ov_ab, z3.And(ol_ab.val <= A.length, ol_ab.val <= B.length))),
        ("abut-iff-gap-zero", pc, z3.Implies(same, abut_ab == z3.And(z3.Not(gb_ab.is_none), gb_ab.val == 0))),
        ("exactly-one-of-overlap-abut-gap", pc, z3.Implies(same, one(ov_ab, abut_ab, pos_gap))),
        ("different-names", pc, z3.Implies(z3.Not(same), z3.And(z3.Not(ov_ab), z3.Not(abut_ab), ol_ab.is_none, gb_ab.is_none))),
    ]


def c11_junction_reversal_invariant():
    """C11: 'an adjacency being the unordered pair of the two facing contig ends (so that reversing a whole
    scaffold ... changes neither count)'.  From the contract of junction_tuple and of Fragment.reverse:
    the tuple of (a, b) equals the tuple of (reverse(b), reverse(a)), for each strand combination; and two
    junctions with equal tuples join the same two contig ends."""
    from .fragment import encode_junction, left_facing_end, right_facing_end, same_unordered_pair

    con = REGISTRY[F + "junction_tuple"]
    out = []
    S, I = smt.Str, smt.Int
    shapes = {(1, 1): [S, I, S, I], (1, -1): [S, I, I, S], (-1, 1): [I, S, S, I], (-1, -1): [S, I, S, I]}
    for (sa, sb), shape in shapes.items():
        a, fa = _frag("a")
        b, fb = _frag("b")
        ra, fra = _frag("ra")
        rb, frb = _frag("rb")
        st = State()
        A, B, RA, RB = (view(st, x) for x in (a, b, ra, rb))
        pc = fa + fb + fra + frb + [A.strand == sa, B.strand == sb]
        # ra = a.reverse(), rb = b.reverse()  (contract of Fragment.reverse)
        rcon = REGISTRY[F + "reverse"]
        for x, rx in ((a, RA), (b, RB)):
            pc += [f for _, f in conj(rcon.ensures(NS(st, {"self": x}), None, rx))]
        t1 = tuple(z3.Const(f"t1_{i}", s) for i, s in enumerate(shape))
        rshape = shapes[(-sb, -sa)]
        t2 = tuple(z3.Const(f"t2_{i}", s) for i, s in enumerate(rshape))
        pc += [f for _, f in conj(con.ensures(NS(st, {"self": a, "othr": b}), None, t1))]
        pc += [f for _, f in conj(con.ensures(NS(st, {"self": rb, "othr": ra}), None, t2))]
        goal = z3.And(*[x == y for x, y in zip(t1, t2)]) if shape == rshape else z3.BoolVal(False)
        out.append((f"reversal-invariant[{sa},{sb}]", pc, goal))
    # injectivity: equal tuples of the same shape name the same unordered pair of ends
    for shape in ([S, I, S, I], [S, I, I, S], [I, S, S, I]):
        t1 = tuple(z3.Const(f"u1_{i}", s) for i, s in enumerate(shape))
        t2 = tuple(z3.Const(f"u2_{i}", s) for i, s in enumerate(shape))
        pc = [x == y for x, y in zip(t1, t2)]
        out.append((f"equal-tuples-same-ends[{''.join('S' if s == S else 'I' for s in shape)}]", pc, same_unordered_pair(encode_junction(t1), encode_junction(t2))))
    return out
