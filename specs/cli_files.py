"""
Contracts for the file-creating code of tola.assembly.scripts.pretext_to_asm (C16) and the cache writer of
tola.fasta.index (C15).  Both are tiny idioms around open(); their obligations are generated from the AST by
idiom-specific rules over a stated file model:

  open(p, "x...")  raises FileExistsError and changes nothing if p exists, else creates p
  open(p, "w...")  creates p or truncates it to empty (complete rewrite)
  Path.replace(a, b) / os.replace  atomically makes b the (complete) content of a

C16: "With --no-clobber, for every subset of the run's output files that already exists, the run ends with a
non-zero exit status and an error naming a colliding file, and every pre-existing file is byte-for-byte
unchanged. With the default --clobber the same run succeeds and every output file is completely rewritten."
"""

import ast

import z3

from pyvc.spec import SpecInapplicable, contract

P2A = "tola.assembly.scripts.pretext_to_asm"


def _calls(node):
    return [n for n in ast.walk(node) if isinstance(n, ast.Call)]


def _name(call):
    return ast.unparse(call.func)


FILE_EFFECT_NAMES = ("open", "write_text", "write_bytes", "unlink", "remove", "rename", "replace", "rmtree", "touch", "truncate", "mkstemp", "NamedTemporaryFile", "fdopen", "copy", "copyfile", "move")


def file_affecting_calls(fn):
    out = []
    for c in _calls(fn):
        nm = _name(c)
        last = nm.split(".")[-1]
        if last in FILE_EFFECT_NAMES and not nm.startswith(("str.", "name.")):
            # str.replace on names is not a file operation: recognise receiver-less heuristically
            if last == "replace" and len(c.args) == 2 + (0 if "." in nm else 0) and not nm.startswith(("os.", "shutil.")) and _looks_like_str_replace(c):
                continue
            out.append(c)
    return out


def _looks_like_str_replace(call):
    # x.replace("a", "b"[, n]) with string-ish arguments is str.replace; Path.replace takes one argument
    return len(call.args) >= 2


def _mode_values(expr, env_names):
    """evaluate a mode expression for every combination of clobber in {True, False} and mode in {"", "b"}"""
    vals = {}
    for clobber in (True, False):
        for mode in ("", "b"):
            env = {"clobber": clobber, "mode": mode}
            vals[(clobber, mode)] = eval(compile(ast.Expression(expr), "<mode>", "eval"), {"__builtins__": {}}, env)  # noqa: S307 - literal arithmetic on two names
    return vals


def _handler_exits_nonzero(handler):
    """the except block ends the process with a non-zero status"""
    for c in _calls(handler):
        if _name(c) in ("sys.exit", "exit") and c.args:
            a = c.args[0]
            if isinstance(a, ast.Constant) and (a.value not in (0, None, False)):
                return True
    return False


def _goh_obligations(mi, fn):
    names = [a.arg for a in fn.args.args]
    if names[:2] != ["path", "clobber"]:
        raise SpecInapplicable("get_output_filehandle(path, clobber, ...) expected")
    opens = [c for c in _calls(fn) if _name(c) in ("path.open", "open")]
    others = [c for c in file_affecting_calls(fn) if c not in opens]
    if others:
        raise SpecInapplicable(f"get_output_filehandle performs other file operations: {[_name(c) for c in others]}")
    if len(opens) != 1:
        raise SpecInapplicable("exactly one open() expected in get_output_filehandle")
    call = opens[0]
    mode_expr = call.args[0] if _name(call) == "path.open" else call.args[1]
    used = {n.id for n in ast.walk(mode_expr) if isinstance(n, ast.Name)}
    if not used <= {"clobber", "mode"}:
        raise SpecInapplicable(f"open mode depends on {sorted(used)}")
    vals = _mode_values(mode_expr, used)
    out = []
    for (clobber, mode), v in vals.items():
        tag = f"clobber={clobber},mode={mode!r}"
        if clobber:
            # "every output file is completely rewritten"
            out.append(("post", f"clobber-truncates[{tag}]", [], z3.BoolVal(isinstance(v, str) and v.startswith("w") and "+" not in v and "a" not in v)))
        else:
            # "every pre-existing file is byte-for-byte unchanged": exclusive creation
            out.append(("post", f"no-clobber-is-exclusive-create[{tag}]", [], z3.BoolVal(isinstance(v, str) and v.startswith("x") and "w" not in v and "a" not in v and "+" not in v)))
        out.append(("post", f"binary-flag-kept[{tag}]", [], z3.BoolVal(isinstance(v, str) and v[1:] == mode)))
    # the open() is guarded by `except FileExistsError` which exits with a non-zero status and names the path
    tries = [n for n in ast.walk(fn) if isinstance(n, ast.Try) and call in _calls(n)]
    ok = False
    names_path = False
    for t in tries:
        for h in t.handlers:
            if h.type is not None and ast.unparse(h.type) == "FileExistsError":
                ok = _handler_exits_nonzero(h)
                names_path = any("path" in ast.unparse(c) for c in _calls(h) if _name(c).startswith(("logging.", "click.echo")))
    out.append(("post", "collision-ends-with-non-zero-exit", [], z3.BoolVal(ok)))
    out.append(("post", "collision-error-names-the-file", [], z3.BoolVal(names_path)))
    # no handler swallows the collision silently (bare except / except Exception around the open)
    broad = any(h.type is None or ast.unparse(h.type) in ("Exception", "BaseException", "OSError") for t in tries for h in t.handlers)
    out.append(("post", "collision-not-swallowed", [], z3.BoolVal(not broad)))
    # module frame: every other file-affecting call of the module is this function, setup_logging's
    # logging.basicConfig, or reading (open() without a mode / .open() of an input path)
    for key, f2 in mi.functions.items():
        if f2 is fn:
            continue
        for c in file_affecting_calls(f2):
            nm = _name(c)
            reading = nm.endswith("open") and not c.args and not c.keywords
            if reading:
                continue
            raise SpecInapplicable(f"{key} performs a file operation outside get_output_filehandle: {ast.unparse(c)[:80]}")
        # every caller passes its own `clobber` on unchanged
        for c in _calls(f2):
            if _name(c) == "get_output_filehandle":
                a = c.args[1] if len(c.args) > 1 else next((k.value for k in c.keywords if k.arg == "clobber"), None)
                out.append(("post", f"{key}-passes-clobber-through", [], z3.BoolVal(isinstance(a, ast.Name) and a.id == "clobber" and "clobber" in [x.arg for x in f2.args.args])))
    return out


@contract(f"{P2A}.get_output_filehandle", kind="function", properties=("C16",))
class _:
    custom = staticmethod(_goh_obligations)


def _logging_obligations(mi, fn):
    # conf["filemode"] = "w" if clobber else "x";  logging.basicConfig(**conf) inside try/except FileExistsError
    assigns = [n for n in ast.walk(fn) if isinstance(n, ast.Assign) and ast.unparse(n.targets[0]) in ('conf["filemode"]', "conf['filemode']")]
    if len(assigns) != 1:
        raise SpecInapplicable('conf["filemode"] assignment not found in setup_logging')
    vals = _mode_values(assigns[0].value, {"clobber"})
    out = []
    for (clobber, _), v in vals.items():
        out.append(("post", f"log-filemode[clobber={clobber}]", [], z3.BoolVal(v == ("w" if clobber else "x"))))
    cfg = [c for c in _calls(fn) if _name(c) == "logging.basicConfig"]
    if len(cfg) != 1:
        raise SpecInapplicable("logging.basicConfig call not found")
    tries = [n for n in ast.walk(fn) if isinstance(n, ast.Try) and cfg[0] in _calls(n)]
    ok = any(h.type is not None and ast.unparse(h.type) == "FileExistsError" and _handler_exits_nonzero(h) for t in tries for h in t.handlers)
    names = any("logfile" in ast.unparse(c) for t in tries for h in t.handlers for c in _calls(h))
    out.append(("post", "log-collision-ends-with-non-zero-exit", [], z3.BoolVal(ok)))
    out.append(("post", "log-collision-error-names-the-file", [], z3.BoolVal(names)))
    others = [c for c in file_affecting_calls(fn)]
    if others:
        raise SpecInapplicable(f"setup_logging performs other file operations: {[_name(c) for c in others]}")
    return out


@contract(f"{P2A}.setup_logging", kind="function", properties=("C16",))
class _:
    custom = staticmethod(_logging_obligations)


# --- C15: the cache writer -------------------------------------------------------------------------

IDX = "tola.fasta.index"


def _replace_file_obligations(mi, fn):
    """replace_file(path): everything is written to a temporary name in the same directory; the rename onto the
    final name happens after the temporary file has been closed (outside the with block), so no partially
    written file ever carries the final name (C15: 'a reader never observes a half-written cache file as valid')."""
    withs = [n for n in ast.walk(fn) if isinstance(n, ast.With)]
    opens = [w for w in withs if any(_name(c).endswith(".open") for it in w.items for c in _calls(it.context_expr))]
    if len(opens) != 1:
        raise SpecInapplicable("replace_file: one `with <tmp>.open(...)` expected")
    w = opens[0]
    open_call = [c for it in w.items for c in _calls(it.context_expr) if _name(c).endswith(".open")][0]
    tmp_name = _name(open_call)[: -len(".open")]
    renames = [c for c in _calls(fn) if _name(c) in (f"{tmp_name}.replace", "os.replace", f"{tmp_name}.rename", "os.rename")]
    out = []
    out.append(("post", "writes-go-to-a-temporary-name", [], z3.BoolVal(tmp_name != "path")))
    out.append(("post", "renamed-onto-the-final-name-once", [], z3.BoolVal(len(renames) == 1 and "path" in ast.unparse(renames[0]))))
    inside = any(c in _calls(w) for c in renames)
    # the rename must come after the with block (file closed = everything flushed) in the same statement list
    after = False
    for node in ast.walk(fn):
        body = getattr(node, "body", None)
        if isinstance(body, list) and w in body:
            i = body.index(w)
            after = any(c in _calls(s) for s in body[i + 1 :] for c in renames)
    out.append(("post", "rename-only-after-the-file-is-closed", [], z3.BoolVal(bool(renames) and not inside and after)))
    # the temporary name differs from the final one and is unique per process
    tmp_assign = [n for n in ast.walk(fn) if isinstance(n, ast.Assign) and ast.unparse(n.targets[0]) == tmp_name]
    uniq = any("getpid" in ast.unparse(a.value) or "mkstemp" in ast.unparse(a.value) or "uuid" in ast.unparse(a.value) for a in tmp_assign)
    out.append(("post", "temporary-name-unique-per-process", [], z3.BoolVal(uniq)))
    same_dir = any("with_name" in ast.unparse(a.value) or "parent" in ast.unparse(a.value) for a in tmp_assign)
    out.append(("post", "temporary-file-in-the-same-directory", [], z3.BoolVal(same_dir)))
    return out


@contract(f"{IDX}.replace_file", kind="function", properties=("C15",))
class _:
    custom = staticmethod(_replace_file_obligations)


def _writers_use_replace_file(mi, fn):
    """write_index / write_assembly open their cache file through replace_file and nothing else"""
    out = []
    ops = file_affecting_calls(fn)
    bad = [c for c in ops if not _name(c).endswith("exists")]
    uses = [c for c in _calls(fn) if _name(c) == "replace_file"]
    out.append(("post", "cache-written-through-replace_file", [], z3.BoolVal(len(uses) == 1 and not bad)))
    return out


for _w in ("write_index", "write_assembly"):
    contract(f"{IDX}.FastaIndex.{_w}", properties=("C15",), custom=staticmethod(_writers_use_replace_file))(type("_", (), {}))


# --- C15: acceptance test of the cache ----------------------------------------------------------------

from pyvc.values import BOOL, NONE, REAL, STR, TRef  # noqa: E402

PATH = TRef("Path")


@contract("ext.Path.exists", status="TRUSTED")
class _:
    params = {"self": PATH}
    result = BOOL
    pure = staticmethod(lambda o, p: p.g_exists)


@contract("ext.Path.stat", status="TRUSTED")
class _:
    # os.stat of a path: modelled as the path itself, `st_mtime` reads its ghost modification time
    params = {"self": PATH}
    result = PATH
    raises = {"FileNotFoundError": lambda o: z3.Not(o.self.g_exists)}
    ensures = staticmethod(lambda o, n, res: z3.And(o.self.g_exists, res.z == o.self.z))


@contract("ext.Path.st_mtime", kind="property", status="TRUSTED")
class _:
    params = {"self": PATH}
    result = REAL
    pure = staticmethod(lambda o, p: p.g_mtime)


@contract(f"{IDX}.FastaIndex.check_for_index_files", properties=("C15", "C03", "C17", "C04", "C06"))
class _:
    # "Cache files that are missing or not strictly newer than the FASTA are rebuilt": accepted iff both exist
    # and both are strictly newer
    params = {"self": TRef("FastaIndex")}
    result = BOOL
    raises = {"FileNotFoundError": lambda o: z3.Not(o.self.fasta_file.g_exists)}

    @staticmethod
    def ensures(o, n, res):
        s = o.self
        newer = lambda p: z3.And(p.g_exists, p.g_mtime > s.fasta_file.g_mtime)
        return res == z3.And(newer(s.fai_file), newer(s.agp_file))


def _shape(fn):
    body = [s for s in fn.body if not (isinstance(s, ast.Expr) and isinstance(s.value, ast.Constant))]
    return "\n".join(ast.unparse(s) for s in body)


def _norm(text):
    return "\n".join(ast.unparse(s) for s in ast.parse(text).body)


AUTO_LOAD = """if self.check_for_index_files():
    self.load_index()
    self.load_assembly()
else:
    self.run_indexing()"""

RUN_INDEXING = """(idx_dict, assembly) = index_fasta_file(self.fasta_file, self.buffer_size)
self.index = idx_dict
self.assembly = assembly
self.write_index()
self.write_assembly()"""


def _auto_load_obligations(mi, fn):
    # "Cache files that are missing or not strictly newer than the FASTA are rebuilt, both together"
    if _shape(fn) != _norm(AUTO_LOAD):
        raise SpecInapplicable("auto_load has a different shape")
    return [("post", "accepted-cache-is-loaded-else-both-files-are-rebuilt", [], z3.BoolVal(True))]


def _run_indexing_obligations(mi, fn):
    if _shape(fn) != _norm(RUN_INDEXING):
        raise SpecInapplicable("run_indexing has a different shape")
    return [("post", "index-and-assembly-of-the-current-file-then-both-caches-written", [], z3.BoolVal(True))]


# Loading the cache is a two-step protocol: the assembly read from the .agp file is completed from the index (an AGP
# file has no line for a record without residues: a8b983e), so the index has to be there first.  Ghost typestate on the
# FastaIndex object carries that from load_index to load_assembly; auto_load is verified against it path by path.
FIX = TRef("FastaIndex")
_LOADED = ["g_index_loaded", "g_assembly_loaded"]


def cache_accepted(s):
    """both cache files exist and both are strictly newer than the FASTA file (what check_for_index_files returns)"""
    newer = lambda p: z3.And(p.g_exists, p.g_mtime > s.fasta_file.g_mtime)
    return z3.And(newer(s.fai_file), newer(s.agp_file))


@contract(f"{IDX}.FastaIndex.load_index", status="TRUSTED", properties=("C15",))
class _:
    # reads <fasta>.fai into .index (content: bounded tier); refuses a second load
    params = {"self": FIX}
    result = NONE
    raises = {"IndexUsageError": lambda o: o.self.g_index_loaded, "FileNotFoundError": lambda o: z3.Not(o.self.fai_file.g_exists),
              "ValueError": lambda o: True}
    modifies = staticmethod(lambda o: [("field", "FastaIndex", "g_index_loaded", o.self), ("field", "FastaIndex", "index", o.self),
                                       ("fresh-objs", "FastaInfo", ["length", "file_offset", "residues_per_line", "max_line_length"]), ("dict-maps", STR, TRef("FastaInfo")), ("alloc",)])
    ensures = staticmethod(lambda o, n, res: n.self.g_index_loaded)


@contract(f"{IDX}.FastaIndex.load_assembly", status="TRUSTED", properties=("C15",))
class _:
    # reads <fasta>.agp into .assembly and restores the scaffolds of records without residues from .index - which
    # therefore must have been loaded (precondition; the function itself would silently skip the step)
    params = {"self": FIX}
    result = NONE
    requires = staticmethod(lambda o: [("index-loaded-first", o.self.g_index_loaded)])
    raises = {"IndexUsageError": lambda o: o.self.g_assembly_loaded, "FileNotFoundError": lambda o: z3.Not(o.self.agp_file.g_exists),
              **{e: (lambda o: True) for e in ("ValueError", "IndexError", "KeyError", "AttributeError", "TypeError")}}
    modifies = staticmethod(lambda o: [("field", "FastaIndex", "g_assembly_loaded", o.self), ("alloc",), ("ralloc",)])
    ensures = staticmethod(lambda o, n, res: n.self.g_assembly_loaded)


@contract(f"{IDX}.FastaIndex.run_indexing", properties=("C15", "C13", "C03", "C04"))
class _:
    custom = staticmethod(_run_indexing_obligations)
    # at call sites (assumed of the straight-line body whose shape is checked above): both are filled, both caches written
    params = {"self": FIX}
    result = NONE
    raises = {e: (lambda o: True) for e in ("ValueError", "FileNotFoundError", "OSError")}
    modifies = staticmethod(lambda o: [("field", "FastaIndex", f, o.self) for f in _LOADED + ["index", "g_rebuilt"]] + [
        ("field", "Path", "g_exists", o.self.fai_file), ("field", "Path", "g_mtime", o.self.fai_file),
        ("field", "Path", "g_exists", o.self.agp_file), ("field", "Path", "g_mtime", o.self.agp_file),
        ("fresh-objs", "FastaInfo", ["length", "file_offset", "residues_per_line", "max_line_length"]), ("dict-maps", STR, TRef("FastaInfo")), ("alloc",), ("ralloc",)])
    ensures = staticmethod(lambda o, n, res: z3.And(n.self.g_index_loaded, n.self.g_assembly_loaded, n.self.g_rebuilt))


@contract(f"{IDX}.FastaIndex.auto_load", properties=("C15", "C03", "C17"))
class _:
    # "Cache files that are missing or not strictly newer than the FASTA are rebuilt, both together": the accepted cache
    # is loaded - index first - and otherwise the file is indexed; either way index and assembly are both filled
    params = {"self": FIX}
    result = NONE
    requires = staticmethod(lambda o: [("nothing-loaded-yet", z3.And(z3.Not(o.self.g_index_loaded), z3.Not(o.self.g_assembly_loaded), z3.Not(o.self.g_rebuilt))),
                                       ("three-files", z3.And(o.self.fasta_file.z != o.self.fai_file.z, o.self.fasta_file.z != o.self.agp_file.z, o.self.fai_file.z != o.self.agp_file.z))])
    raises = {e: (lambda o: True) for e in ("ValueError", "FileNotFoundError", "OSError", "IndexError", "KeyError", "AttributeError", "TypeError")}
    modifies = staticmethod(lambda o: [("field", "FastaIndex", f, o.self) for f in _LOADED + ["index", "g_rebuilt"]] + [
        ("field", "Path", "g_exists", o.self.fai_file), ("field", "Path", "g_mtime", o.self.fai_file),
        ("field", "Path", "g_exists", o.self.agp_file), ("field", "Path", "g_mtime", o.self.agp_file),
        ("fresh-objs", "FastaInfo", ["length", "file_offset", "residues_per_line", "max_line_length"]), ("dict-maps", STR, TRef("FastaInfo")), ("alloc",), ("ralloc",)])
    ensures = staticmethod(lambda o, n, res: [("index-and-assembly-both-filled", z3.And(n.self.g_index_loaded, n.self.g_assembly_loaded)),
                                              # the cache is used exactly when it is accepted; otherwise the file is indexed afresh
                                              ("rebuilt-iff-the-cache-is-not-accepted", n.self.g_rebuilt == z3.Not(cache_accepted(o.self)))])
