"""
Contracts for tola.assembly.scaffold.Scaffold.
"""

import z3

from pyvc import smt
from pyvc.spec import LoopSpec, contract, forall
from pyvc.values import BOOL, FRAG, GAP, INT, NONE, ROW, STR, TList, TOpt, TRef, TSet

M = "tola.assembly.scaffold.Scaffold"
SC = TRef("Scaffold")


def same_rows(a, b, n=None):
    """list views a and b hold the same row objects position by position"""
    n = a.len if n is None else n
    return z3.And(a.len == b.len, forall(lambda k: z3.Implies(z3.And(0 <= k, k < n), a[k].z == b[k].z)))


def same_repr(a, b):
    """list a is a copy of list b in the list model: same backing array and window (implies same_rows
    without a quantifier)"""
    return z3.And(a.arr == b.arr, a.lo == b.lo, a.hi == b.hi)


def fresh_list(o, n, lst):
    """`lst` was allocated during the call"""
    return z3.And(lst.z >= o.alloc, lst.z < n.alloc)


def scaffold_fields(cls="Scaffold"):
    return ["name", "rows", "tag", "haplotype", "rank", "original_name", "original_tags"]


def _rank_default(mi, fn):
    """C20: 'Rank takes precedence over name in output order' and sorting must succeed for scaffolds however they were
    built: the output order key is (rank, natural key), a tuple comparison that needs every rank to be a number - also the
    rank of a scaffold constructed without one (the parsers, Scaffold.reverse).  The default is read from the signature."""
    import ast

    a = fn.args
    names = [x.arg for x in a.posonlyargs + a.args]
    defaults = dict(zip(names[len(names) - len(a.defaults):], a.defaults))
    defaults.update({x.arg: d for x, d in zip(a.kwonlyargs, a.kw_defaults) if d is not None})
    d = defaults.get("rank")
    ok = isinstance(d, ast.Constant) and isinstance(d.value, int) and not isinstance(d.value, bool)
    return [("post", "a-scaffold-built-without-a-rank-has-a-numeric-rank", [], z3.BoolVal(ok))]


@contract(f"{M}.__init__", kind="init", properties=("C12", "C18", "C14", "C07", "C20"))
class _:
    custom = staticmethod(_rank_default)
    also_verify = True
    escalate = ("C12", "C18", "C14", "C07")
    params = {
        "self": SC,
        "name": STR,
        "rows": TOpt(TList(ROW)),
        "tag": TOpt(STR),
        "haplotype": TOpt(STR),
        "rank": TOpt(INT),
        "original_name": TOpt(STR),
        "original_tags": TOpt(TSet(STR)),
    }

    @staticmethod
    def modifies(o):
        return [("field", "Scaffold", f, o.self) for f in scaffold_fields()] + [("fresh-lists", ROW), ("alloc",)]

    @staticmethod
    def ensures(o, n, res):
        s = n.self
        new = s.rows
        src = o.rows
        return [
            ("name", s.name == o.name),
            ("meta", z3.And(s.tag.z == o.tag.z, s.haplotype.z == o.haplotype.z, s.rank.z == o.rank.z,
                            s.original_name.z == o.original_name.z, s.original_tags.z == o.original_tags.z)),
            ("rows-fresh", fresh_list(o, n, new)),
            ("rows-copied", z3.If(src.is_none, new.len == 0, same_rows(new, src.val))),
            ("rows-copied-repr", z3.If(z3.Or(src.is_none, src.val.len == 0), new.len == 0, same_repr(new, src.val))),
            ("alloc-grows", n.alloc >= o.alloc),
        ]

    # Scaffold(name) without rows starts from a new empty list
    zero_based = staticmethod(lambda o, n, res: [(o.rows.is_none, n.self.rows)])


@contract(f"{M}.add_row", properties=("C05", "C04", "C07"))
class _:
    params = {"self": SC, "row": ROW}
    result = NONE

    @staticmethod
    def modifies(o):
        return [("list-append", ROW, o.self.rows)]

    @staticmethod
    def ensures(o, n, res):
        a, b = o.self.rows, n.self.rows
        return [
            ("appended", z3.And(b.len == a.len + 1, b[a.len].z == o.row.z)),
            ("prefix-kept", forall(lambda k: z3.Implies(z3.And(0 <= k, k < a.len), b[k].z == a[k].z))),
        ]


@contract(f"{M}.length", kind="property", properties=("C06", "C03"))
class _:
    params = {"self": SC}
    result = INT
    # "the last object end equals the scaffold's length": Scaffold.length is the total of its rows
    pure = staticmethod(lambda o, s: s.rows.cum(s.rows.len))


@contract(f"{M}.last_row_is_fragment", kind="property", properties=())
class _:
    params = {"self": SC}
    result = BOOL
    pure = staticmethod(lambda o, s: z3.And(s.rows.len > 0, s.rows[-1].is_frag))


@contract(f"{M}.append_scaffold", properties=("C07",))
class _:
    # "every join carries a gap": the gap is inserted exactly when one is given and rows exist already
    params = {"self": SC, "othr": SC, "gap": TOpt(ROW)}
    result = NONE

    @staticmethod
    def requires(o):
        return z3.Not(o.self.rows.same(o.othr.rows))

    @staticmethod
    def modifies(o):
        return [("list-append", ROW, o.self.rows)]

    @staticmethod
    def ensures(o, n, res):
        a, b, x = o.self.rows, n.self.rows, o.othr.rows
        with_gap = z3.And(z3.Not(o.gap.is_none), a.len > 0)
        off = z3.If(with_gap, a.len + 1, a.len)
        return [
            ("length", b.len == off + x.len),
            ("old-rows-kept", forall(lambda k: z3.Implies(z3.And(0 <= k, k < a.len), b[k].z == a[k].z))),
            ("gap-inserted-iff-join", z3.Implies(with_gap, b[a.len].z == o.gap.val.z)),
            ("othr-rows-follow", forall(lambda k: z3.Implies(z3.And(0 <= k, k < x.len), b[off + k].z == x[k].z))),
        ]


def reversed_of(new, old):
    """new rows are the old rows in inverse order, every fragment strand-inverted, gaps untouched"""
    n = old.len

    def row(k):
        a, b = new[k], old[n - 1 - k]
        return z3.If(
            b.is_gap,
            a.z == b.z,
            z3.And(a.is_frag, a.name == b.name, a.start == b.start, a.end == b.end, a.tags == b.tags, a.strand == -b.strand),
        )

    return z3.And(new.len == n, forall(lambda k: z3.Implies(z3.And(0 <= k, k < n), row(k))))


@contract(f"{M}.reverse", properties=("C14",))
class _:
    # "one reversal preserves length, gap rows, contig intervals and tags while inverting row order
    #  and every strand"
    params = {"self": SC}
    result = SC
    inlined = [(f"{M}.idx_fragments", 100)]

    @staticmethod
    def modifies(o):
        return [("fresh-objs", "Scaffold", scaffold_fields()), ("fresh-lists", ROW), ("alloc",), ("ralloc",)]

    @staticmethod
    def ensures(o, n, res):
        return [
            ("rows-reversed", reversed_of(res.rows, o.self.rows)),
            ("name", res.name == o.self.name),
            ("orig", z3.And(res.original_name.z == o.self.original_name.z, res.original_tags.z == o.self.original_tags.z)),
            ("source-untouched", z3.And(n.self.rows.same(o.self.rows), n.self.rows.len == o.self.rows.len)),
            ("fresh", z3.And(res.z >= o.alloc, res.rows.z >= o.alloc)),
        ]

    loops = {
        # the loop of the inlined generator idx_fragments, consumed by `for i, frag in new.idx_fragments()`
        100: LoopSpec(
            kind="for",
            inv=lambda v, e: _reverse_inv(v, e),
            frame=lambda v, e: {"LA.Row": [e.new.rows]},
        )
    }


def _reverse_inv(v, e):
    new = v.new.rows
    src = v.top.self.rows  # the scaffold being reversed (`self` of the inlined generator is `new`)
    n = src.len
    k0 = v._it100

    def row(k):
        a, b = new[k], src[n - 1 - k]
        done = z3.If(
            b.is_gap,
            a.z == b.z,
            z3.And(a.is_frag, a.name == b.name, a.start == b.start, a.end == b.end, a.tags == b.tags, a.strand == -b.strand),
        )
        return z3.If(k < k0, done, a.z == b.z)

    return [
        ("counter", z3.And(0 <= k0, k0 <= n)),
        ("len", new.len == n),
        ("same-list", new.same(e.new.rows)),
        ("rows", forall(lambda k: z3.Implies(z3.And(0 <= k, k < n), row(k)))),
    ]
