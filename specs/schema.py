"""
Schema of the mutable classes of tola (fields and their static types) as the real code
uses them.  Ghost fields are prefixed g_ and exist only in specifications.
"""

from pyvc.spec import declare_class
from pyvc.values import BYTES, LINE, BOOL, FRAG, INT, REAL, ROW, STR, TDict, TList, TOpt, TRef, TSet, TTuple

declare_class(
    "Scaffold",
    fields={
        "name": STR,
        "rows": TList(ROW),
        "tag": TOpt(STR),
        "haplotype": TOpt(STR),
        "rank": TOpt(INT),
        "original_name": TOpt(STR),
        "original_tags": TOpt(TSet(STR)),
    },
)
declare_class(
    "OverlapResult",
    bases=["Scaffold"],
    fields={
        "bait": FRAG,
        "start": INT,
        "end": INT,
        # ghost: the scaffold row list this result was cut from and the window it still covers
        "g_src": TList(ROW),
        "g_lo": INT,
        "g_hi": INT,
        "g_ts": INT,
        "g_te": INT,
    },
)
declare_class(
    "Assembly",
    fields={
        "name": STR,
        "scaffolds": TList(TRef("Scaffold")),
        "header": TList(STR),
        "curated": BOOL,
        "_bp_per_texel": TOpt(REAL),
    },
)
declare_class(
    "IndexedAssembly",
    bases=["Assembly"],
    fields={
        "_scaffold_dict": TDict(STR, TRef("Scaffold")),
        "_scaffold_index": TDict(STR, TList(INT)),
    },
)
declare_class(
    "FoundFragment",
    fields={"fragment": FRAG, "scaffolds": TList(TRef("OverlapResult"))},
)
# a text file opened for writing: the ghost list of chunks passed to write(), in order
declare_class("TextOut", fields={"g_out": TList(STR)})
# (the two memo dictionaries are only ever assigned an empty dict in code under contract; their value types - nested
# dictionaries of names and lengths - are not modelled and stand here as INT)
declare_class("AssemblyStats", fields={"cuts": INT, "breaks": INT, "joins": INT, "autosome_prefix": STR, "input_assembly": TOpt(TRef("Assembly")),
                                       "per_assembly_stats": TDict(STR, INT), "assembly_scaffold_lengths": TDict(TOpt(STR), INT)})
declare_class(
    "BuildAssembly",
    bases=["Assembly"],
    fields={
        "default_gap": TOpt(ROW),
        "assembly_stats": TRef("AssemblyStats"),
        "bp_per_texel": REAL,
        "scaffold_namer": TRef("ScaffoldNamer"),
        "found_fragments": TDict(TTuple([STR, INT, INT]), TRef("FoundFragment")),
        "fragments_found_more_than_once": TDict(TTuple([STR, INT, INT]), TRef("FoundFragment")),
    },
)
# groups and names chromosomes across haplotypes: opaque here (its effect is limited to Scaffold.name, see the
# TRUSTED contracts in specs/build_assembly.py)
declare_class("ChrGroup", fields={})
declare_class(
    "ChrNamer",
    fields={
        "chr_prefix": STR,
        "scaffolds": TList(TTuple([STR, TRef("Scaffold")])),
        "haplotypes_seen": TDict(STR, BOOL),
        "groups": TOpt(TList(TRef("ChrGroup"))),
    },
)

# --- FASTA side -----------------------------------------------------------------------------
# Abstract bytes values are triples (kind, first, n):
#   kind 0: residues [first, first+n) (0-based) of the record being read, in file order
#   kind 2: the reverse complement of residues [first, first+n)
#   kind 1: n filler (gap) characters            kind 3: a line terminator
declare_class("FastaInfo", fields={"length": INT, "file_offset": INT, "residues_per_line": INT, "max_line_length": INT})
# binary file handle on the FASTA file: cursor `pos`; ghost: the layout reads are checked against and the
# index of the next residue the caller is entitled to read
declare_class("FastaFH", fields={"pos": INT, "g_info": TRef("FastaInfo"), "g_next": INT})
declare_class("BytesIO", fields={"g_kind": INT, "g_first": INT, "g_n": INT, "g_pos": INT})
# a whole record as returned by get_fasta_seq: its name and (ghost) the abstract bytes value it holds
declare_class("FastaSeq", fields={"name": STR, "g_kind": INT, "g_first": INT, "g_n": INT})
declare_class(
    "FastaIndex",
    fields={"fasta_fileandle": TRef("FastaFH"), "buffer_size": INT, "index": TDict(STR, TRef("FastaInfo")),
            "fasta_file": TRef("Path"), "fai_file": TRef("Path"), "agp_file": TRef("Path"),
            # ghost typestate: whether .index / .assembly have been filled (they start as None)
            "g_index_loaded": BOOL, "g_assembly_loaded": BOOL,
            # ghost: the FASTA file has been indexed afresh by this object (run_indexing) rather than served from the cache
            "g_rebuilt": BOOL},
)
# binary output stream of FastaStream: ghost column of the current line, residues written for the
# current record, and the line length the writes are checked against
declare_class("BinOut", fields={"g_col": INT, "g_total": INT, "g_L": INT})
declare_class(
    "FastaStream",
    fields={"out": TRef("BinOut"), "index": TRef("FastaIndex"), "line_length": INT, "gap_character": BYTES},
)
# a filesystem path: ghost existence and modification time of the file it names
declare_class("Path", fields={"g_exists": BOOL, "g_mtime": REAL, "name": STR, "g_lines": TList(LINE)})
# a file opened "rb" and read line by line: ghost list of its lines and the cursor tell() reports
declare_class("LineFile", fields={"g_lines": TList(LINE), "g_pos": INT})
declare_class(
    "ScaffoldNamer",
    fields={
        "autosome_prefix": STR,
        "current_scaffold_name": TOpt(STR),
        "current_rank": TOpt(INT),
        "current_haplotype": TOpt(STR),
        "haplotig_n": INT,
        "unloc_n": INT,
        "target_tags": BOOL,
        "primary_haplotype": TOpt(STR),
        "haplotig_scaffolds": TList(TRef("Scaffold")),
        "unloc_scaffolds": TList(TRef("Scaffold")),
        "haplotype_lc_dict": TDict(STR, STR),
    },
)

# "what-if" wrappers around one end of an overlap result (build_utils.py)
declare_class("OverhangPremise", fields={"scaffold": TRef("OverlapResult"), "fragment": FRAG})
declare_class("StartOverhangPremise", bases=["OverhangPremise"], fields={})
declare_class("EndOverhangPremise", bases=["OverhangPremise"], fields={})
declare_class("OverhangResolver", fields={"premises_by_fragment_key": TDict(TTuple([STR, INT, INT]), TList(TRef("OverhangPremise"))), "error_length": TOpt(INT)})
