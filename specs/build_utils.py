"""
Contracts for tola.assembly.build_utils (C09, C10, C02).
"""

import z3

from pyvc import smt
from pyvc.spec import LoopSpec, contract, forall, forall2
from pyvc.values import BOOL, FRAG, INT, NONE, ROW, STR, TList, TOpt, TRef, TSet

U = "tola.assembly.build_utils"
SN = TRef("ScaffoldNamer")


def sv(x):
    return z3.StringVal(x)


def has_tag(tags, t):
    return z3.Contains(tags, z3.Unit(sv(t)))


@contract(f"{U}.ScaffoldNamer.haplotig_name", properties=("C10",))
class _:
    # fresh names: the counter strictly increases, so H_<n> is used once
    params = {"self": SN}
    result = STR
    modifies = staticmethod(lambda o: [("field", "ScaffoldNamer", "haplotig_n", o.self)])
    ensures = staticmethod(lambda o, n, res: n.self.haplotig_n == o.self.haplotig_n + 1)


@contract(f"{U}.ScaffoldNamer.unloc_name", properties=("C10",))
class _:
    params = {"self": SN}
    result = STR
    modifies = staticmethod(lambda o: [("field", "ScaffoldNamer", "unloc_n", o.self)])
    ensures = staticmethod(lambda o, n, res: n.self.unloc_n == o.self.unloc_n + 1)


def some_str(optview, text):
    return z3.And(z3.Not(optview.is_none), optview.val == sv(text))


@contract(f"{U}.ScaffoldNamer.label_scaffold", properties=("C09", "C10"))
class _:
    # C09: "Pieces tagged Haplotig, Contaminant or FalseDuplicate are written to the haplotig, contaminant or
    # false-duplicate assembly ...; once a Target tag has been seen, every later Pretext scaffold without one ...
    # is treated as contaminant."  The destination is decided by the tag set here.
    params = {"self": SN, "scaffold": TRef("Scaffold"), "fragment": FRAG, "scaffold_tags": TSet(STR), "original_name": STR}
    result = NONE

    @staticmethod
    def requires(o):
        s = o.self
        return [("named", z3.Not(s.current_scaffold_name.is_none)),
                ("lists", z3.And(s.haplotig_scaffolds.z != s.unloc_scaffolds.z))]

    @staticmethod
    def modifies(o):
        sc = o.scaffold
        return ([("field", "Scaffold", f, sc) for f in ("tag", "name", "haplotype", "rank", "original_name", "original_tags")]
                + [("field", "ScaffoldNamer", "haplotig_n", o.self), ("field", "ScaffoldNamer", "unloc_n", o.self),
                   ("list", TRef("Scaffold"), o.self.haplotig_scaffolds), ("list", TRef("Scaffold"), o.self.unloc_scaffolds)])

    raises = {"ValueError": lambda o: z3.And(has_tag(o.fragment.tags, "Unloc"), z3.Not(o.scaffold_tags.has(sv("Painted"))))}

    @staticmethod
    def ensures(o, n, res):
        t = o.fragment.tags
        fd, ht, ct = has_tag(t, "FalseDuplicate"), has_tag(t, "Haplotig"), has_tag(t, "Contaminant")
        target_mode_contaminant = z3.And(o.self.target_tags, z3.Not(o.scaffold_tags.has(sv("Target"))))
        sc = n.scaffold
        special = z3.Or(fd, ht, ct, target_mode_contaminant)
        return [
            ("false-duplicate", z3.Implies(fd, some_str(sc.tag, "FalseDuplicate"))),
            ("haplotig", z3.Implies(z3.And(ht, z3.Not(fd)), some_str(sc.tag, "Haplotig"))),
            ("contaminant", z3.Implies(z3.And(z3.Or(ct, target_mode_contaminant), z3.Not(fd), z3.Not(ht)), some_str(sc.tag, "Contaminant"))),
            ("untagged-stays-untagged", z3.Implies(z3.Not(special), sc.tag.z == o.scaffold.tag.z)),
            ("special-pieces-are-unplaced", z3.Implies(special, z3.And(z3.Not(sc.rank.is_none), sc.rank.val == 3))),
            ("other-pieces-keep-the-scaffold-rank", z3.Implies(z3.Not(special), sc.rank.z == o.self.current_rank.z)),
            ("haplotype", sc.haplotype.z == o.self.current_haplotype.z),
            ("origin", z3.And(z3.Not(sc.original_name.is_none), sc.original_name.val == o.original_name)),
            ("plain-name", z3.Implies(z3.And(z3.Not(ht), z3.Not(z3.And(has_tag(t, "Unloc"), z3.Not(fd)))), sc.name == o.self.current_scaffold_name.val)),
            ("haplotig-registered", z3.Implies(z3.And(ht, z3.Not(fd)), z3.And(n.self.haplotig_scaffolds.len == o.self.haplotig_scaffolds.len + 1,
                                                                             n.self.haplotig_scaffolds[o.self.haplotig_scaffolds.len].z == o.scaffold.z))),
        ]


# --- C17: determinism --------------------------------------------------------------------------------
# "byte-identical output files regardless of the Python hash seed": the only iteration over a set whose order
# can reach the output is `for tag in fragment_tags` in ScaffoldNamer.make_scaffold_name (fragment_tags is the
# set returned by Scaffold.fragment_tags()).  Obligation: executing the real loop body for two different tags in
# either order, from the same state, either raises in both orders or ends in the same state (by adjacent
# transpositions this gives independence of any iteration order).

from pyvc.spec import dict_maps  # noqa: E402


@contract(f"{U}.ScaffoldNamer.get_set_haplotype", properties=("C17",))
class _:
    params = {"self": SN, "haplotype": STR}
    result = STR

    @staticmethod
    def modifies(o):
        return [("dict-maps", STR, STR)]

    @staticmethod
    def ensures(o, n, res):
        d0, d1 = o.self.haplotype_lc_dict, n.self.haplotype_lc_dict
        key = smt.str_fn("str.lower('')")(o.haplotype)
        _, has0, _, val0 = dict_maps(o.state, STR, STR)
        _, has1, _, val1 = dict_maps(n.state, STR, STR)
        ref = d0.z
        known = has0[ref][key]
        sz0 = o.state.hmap("DSZ.String.String", smt.Int, smt.Int)
        return [
            ("result", res == z3.If(known, val0[ref][key], o.haplotype)),
            ("dict", z3.And(has1[ref] == z3.Store(has0[ref], key, True), val1[ref] == z3.If(known, val0[ref], z3.Store(val0[ref], key, o.haplotype)))),
            ("other-dicts", forall(lambda r: z3.Implies(r != ref, z3.And(has1[r] == has0[r], val1[r] == val0[r])))),
            ("sizes", n.state.hmap("DSZ.String.String", smt.Int, smt.Int) == z3.Store(sz0, ref, sz0[ref] + z3.If(known, 0, 1))),
        ]


def _tag_loop_order_insensitive(mi, fn):
    import ast

    from pyvc.engine import Engine, OutOfSubset
    from pyvc.spec import REGISTRY, SpecInapplicable, field_map
    from pyvc.values import BOOL as _B, INT as _I, STR as _S, State, TOpt as _O, TRef as _R, Val, fresh_val

    loops = [n for n in ast.walk(fn) if isinstance(n, ast.For) and isinstance(n.iter, ast.Name) and n.iter.id == "fragment_tags"]
    if len(loops) != 1 or not isinstance(loops[0].target, ast.Name):
        raise SpecInapplicable("`for tag in fragment_tags` not found in make_scaffold_name")
    loop = loops[0]
    assigned = sorted({n.id for n in ast.walk(loop) if isinstance(n, ast.Name) and isinstance(n.ctx, ast.Store)} - {loop.target.id})
    types = {"scaffold_name": _O(_S), "haplotype": _O(_S), "is_painted": _B, "rank": _O(_I), "primary_tag": _B}
    for name in assigned:
        if name not in types and name != "msg":
            raise SpecInapplicable(f"the tag loop assigns an unexpected local: {name}")
    con = REGISTRY[f"{U}.ScaffoldNamer.make_scaffold_name"]

    def run(order):
        eng = Engine({})
        eng.fn = con
        eng.mi = mi
        eng.gen_stack = []
        st = State()
        st.alloc = z3.Int("alloc@0")
        st.ralloc = z3.Int("ralloc@0")
        st.frames[0].func = (mi, fn)
        st.frames[0].vars["self"] = Val(_R("ScaffoldNamer"), z3.Int("self"))
        st.frames[0].vars["scaffold"] = Val(_R("Scaffold"), z3.Int("scaffold"))
        for name, ty in types.items():
            st.frames[0].vars[name] = Val(ty, z3.Const(f"{name}@0", ty.sort()))
        outs = [("normal", st)]
        for t in order:
            nxt = []
            for kind, s in outs:
                if kind != "normal":
                    nxt.append((kind, s))
                    continue
                s.assign(loop.target.id, Val(_S, t))
                for oc in eng.exec_block(loop.body, s):
                    if oc.kind in ("normal", "continue"):
                        nxt.append(("normal", oc.st))
                    elif oc.kind == "raise":
                        nxt.append(("raise", oc.st))
                    else:
                        raise OutOfSubset(f"{oc.kind} in the tag loop body")
            outs = nxt
        return outs

    t1, t2 = z3.String("tag1"), z3.String("tag2")
    a_outs, b_outs = run([t1, t2]), run([t2, t1])
    # domain: tags are non-empty strings (PretextView never writes an empty tag column), and so are the haplotype
    # names already recorded
    st0 = State()
    _, has0, _, val0 = dict_maps(st0, _S, _S)
    _, lcm, _ = field_map(st0, "ScaffoldNamer", "haplotype_lc_dict")
    kk = z3.String("k!dom")
    domain = [z3.Length(t1) > 0, z3.Length(t2) > 0,
              z3.ForAll([kk], z3.Implies(has0[lcm[z3.Int("self")]][kk], z3.Length(val0[lcm[z3.Int("self")]][kk]) > 0))]

    def snapshot(s):
        vals = []
        for name in types:
            v = s.frames[0].vars[name]
            from pyvc.values import pack

            vals.append((name, pack(v, types[name]) if not isinstance(v.ty, type(types[name])) or True else v.z))
        return vals, dict(s.heap)

    out = []
    for i, (ka, sa) in enumerate(a_outs):
        for j, (kb, sb) in enumerate(b_outs):
            pc = [t1 != t2] + domain + list(sa.pc) + list(sb.pc)
            if ka != kb:
                # the two orders must not disagree on raising: the combination has to be impossible
                out.append(("post", f"orders-agree-on-raising[{i},{j}]", pc, z3.BoolVal(False)))
                continue
            if ka == "raise":
                continue
            va, ha = snapshot(sa)
            vb, hb = snapshot(sb)
            same = [x == y for (_, x), (_, y) in zip(va, vb)]
            for name in set(ha) | set(hb):
                ma, mb = ha.get(name), hb.get(name)
                if ma is None or mb is None:
                    init = z3.Const(f"{name}@0", (ma if ma is not None else mb).sort())
                    ma = init if ma is None else ma
                    mb = init if mb is None else mb
                same.append(ma == mb)
            out.append(("post", f"same-final-state[{i},{j}]", pc, z3.And(*same)))
    if not out:
        raise SpecInapplicable("no outcome pairs generated")
    return out


@contract(f"{U}.ScaffoldNamer.make_scaffold_name", properties=("C17",))
class _:
    custom = staticmethod(_tag_loop_order_insensitive)
    note = "self-composition of the loop body over two distinct tags"
    # at call sites (assumed, not derived from the body): name / rank / haplotype are worked out from the tags and kept
    # in the namer, a new empty unloc list is started; the scaffold it is given is only read
    params = {"self": SN, "scaffold": TRef("Scaffold"), "fragment_tags": TOpt(TSet(STR))}
    defaults = {"fragment_tags": None}
    result = NONE
    modifies = staticmethod(lambda o: [("field", "ScaffoldNamer", f, o.self) for f in (
        "current_scaffold_name", "current_rank", "current_haplotype", "unloc_n", "target_tags", "primary_haplotype", "unloc_scaffolds")]
        + [("dict-maps", STR, STR), ("fresh-lists", TRef("Scaffold")), ("alloc",)])
    raises = {e: (lambda o: True) for e in ("TaggingError", "ValueError", "IndexError")}
    ensures = staticmethod(lambda o, n, res: z3.And(z3.Not(n.self.current_scaffold_name.is_none), n.self.unloc_scaffolds.z >= o.alloc, n.self.unloc_scaffolds.z < n.alloc,
                                                     n.self.unloc_scaffolds.len == 0, n.self.unloc_n == 0))


def _set_attributes(modules):
    """names of attributes that are assigned a set somewhere in the package (self.x = set() ...)"""
    import ast

    names = set()
    for mi in modules:
        for n in ast.walk(mi.tree):
            if isinstance(n, ast.Assign) and len(n.targets) == 1 and isinstance(n.targets[0], ast.Attribute):
                v = n.value
                if isinstance(v, (ast.Set, ast.SetComp)) or (isinstance(v, ast.Call) and ast.unparse(v.func) in ("set", "frozenset")):
                    names.add(n.targets[0].attr)
    return names


def _set_iteration_sites(mi, setattrs=()):
    """(function, line, text) of every place where the iteration order of a set can flow into a value:
    for loops, comprehensions, star-unpacking, list()/tuple()/join() over a name or attribute bound to a set"""
    import ast

    sites = []
    for key, fn in mi.functions.items():
        setnames = set()
        for a in fn.args.args + fn.args.kwonlyargs:
            if a.annotation is not None and ast.unparse(a.annotation).startswith("set"):
                setnames.add(a.arg)

        def is_set_expr(e):
            if isinstance(e, (ast.Set, ast.SetComp)):
                return True
            if isinstance(e, ast.Call):
                f = ast.unparse(e.func)
                if f in ("set", "frozenset") or f.endswith(".fragment_tags") or f.endswith("fragment_junction_set"):
                    return True
            if isinstance(e, ast.Name) and e.id in setnames:
                return True
            if isinstance(e, ast.Attribute) and e.attr in setattrs:
                return True
            if isinstance(e, ast.BinOp) and isinstance(e.op, (ast.BitOr, ast.BitAnd, ast.Sub, ast.BitXor)):
                return is_set_expr(e.left) or is_set_expr(e.right)
            return False

        changed = True
        while changed:
            changed = False
            for n in ast.walk(fn):
                if isinstance(n, ast.Assign) and len(n.targets) == 1 and isinstance(n.targets[0], ast.Name) and is_set_expr(n.value):
                    if n.targets[0].id not in setnames:
                        setnames.add(n.targets[0].id)
                        changed = True
        for n in ast.walk(fn):
            it = None
            if isinstance(n, (ast.For, ast.comprehension)):
                it = n.iter
            elif isinstance(n, ast.Starred):
                it = n.value
            elif isinstance(n, ast.Call) and ast.unparse(n.func) in ("list", "tuple", "next", "iter", "enumerate", "zip") and n.args:
                it = n.args[0]
            elif isinstance(n, ast.Call) and isinstance(n.func, ast.Attribute) and n.func.attr == "join" and n.args:
                it = n.args[0]
            if it is not None and is_set_expr(it):
                sites.append((key, getattr(n, "lineno", getattr(it, "lineno", 0)), ast.unparse(it)))
    return sites


SANCTIONED_SET_ITERATIONS = {
    ("tola.assembly.build_utils", "ScaffoldNamer.make_scaffold_name", "fragment_tags"),  # proved order-insensitive above
    ("tola.assembly.scaffold", "Scaffold.fragment_tags", "frag.tags"),
}


def _no_other_set_iteration(mi, fn):
    """frame of C17: no other place in the package lets the iteration order of a set reach a value"""
    import glob
    import os

    from pyvc import source
    from pyvc.spec import SpecInapplicable

    root = os.path.join(source.REPO_SRC, "tola")
    found = []
    mods = []
    for path in sorted(glob.glob(os.path.join(root, "**", "*.py"), recursive=True)):
        mod = os.path.relpath(path, source.REPO_SRC)[:-3].replace(os.sep, ".")
        if mod.endswith("__init__"):
            continue
        mods.append((mod, source.load(mod)))
    setattrs = _set_attributes([m for _, m in mods])
    for mod, m in mods:
        for key, line, text in _set_iteration_sites(m, setattrs):
            if (mod, key, text) not in SANCTIONED_SET_ITERATIONS:
                found.append(f"{mod}:{key}:L{line}: {text}")
    if found:
        # a new site is not necessarily order-sensitive: undecided here, the bounded tier runs under several hash seeds
        raise SpecInapplicable("iteration over a set outside the verified sites: " + "; ".join(found[:4]))
    return [("post", "set-iteration-only-at-verified-sites", [], z3.BoolVal(True))]


@contract(f"{U}.ScaffoldNamer.__init__", kind="init", properties=("C17", "C10"))
class _:
    # "named <prefix>1..<prefix>n", "H_1..", "_unloc_1..": a namer starts with the prefix it is given, both counters at
    # zero (the first name handed out carries 1), nothing remembered, no Target tag seen; plus the C17 site check
    custom = staticmethod(_no_other_set_iteration)
    also_verify = True
    params = {"self": SN, "autosome_prefix": STR}
    defaults = {"autosome_prefix": "SUPER_"}
    modifies = staticmethod(lambda o: [("field", "ScaffoldNamer", f, o.self) for f in (
        "autosome_prefix", "current_scaffold_name", "current_rank", "current_haplotype", "haplotig_n", "unloc_n", "target_tags",
        "primary_haplotype", "haplotig_scaffolds", "unloc_scaffolds", "haplotype_lc_dict")] + [("fresh-lists", TRef("Scaffold")), ("alloc",)])
    ensures = staticmethod(lambda o, n, res: [
        ("prefix", n.self.autosome_prefix == o.autosome_prefix),
        ("counters-start-at-zero", z3.And(n.self.haplotig_n == 0, n.self.unloc_n == 0)),
        ("nothing-remembered", z3.And(n.self.haplotig_scaffolds.len == 0, n.self.unloc_scaffolds.len == 0,
                                      n.self.current_scaffold_name.is_none, n.self.current_rank.is_none, n.self.current_haplotype.is_none,
                                      n.self.primary_haplotype.is_none)),
        ("no-target-tag-seen", z3.Not(n.self.target_tags)),
        ("two-different-new-lists", z3.And(n.self.haplotig_scaffolds.z != n.self.unloc_scaffolds.z,
                                            n.self.haplotig_scaffolds.z >= o.alloc, n.self.unloc_scaffolds.z >= o.alloc)),
        ("alloc-grows", n.alloc >= o.alloc),
    ])


# --- C10: "unlocs / haplotigs ... numbered so that numbers follow non-increasing length" ---------------------------------


def _length_of(st, ref):
    """Scaffold.length of an object that may be an OverlapResult (which overrides it)"""
    from pyvc.spec import CLASSES, ObjView, class_map

    sc = ObjView(st, ref, "Scaffold")
    orr = ObjView(st, ref, "OverlapResult")
    return z3.If(class_map(st)[ref] == CLASSES["OverlapResult"]["id"], orr.end - orr.start + 1, sc.rows.cum(sc.rows.len))


def _renamed_only(st0, st1, lst, upto):
    """every object whose Scaffold.name differs between the two states stands in lst[0:upto]"""
    from pyvc.spec import field_map

    nm0, nm1 = field_map(st0, "Scaffold", "name")[1], field_map(st1, "Scaffold", "name")[1]
    r, k = z3.Int("r!ren"), z3.Int("k!ren")
    return z3.ForAll([r], z3.Implies(nm1[r] != nm0[r], z3.Exists([k], z3.And(0 <= k, k < upto, lst[k].z == r))), patterns=[nm1[r]])


@contract(f"{U}.ScaffoldNamer.rename_by_size", properties=("C10",))
class _:
    # the names the scaffolds carry (handed out in order of appearance: ..._1, ..._2, ...) are redistributed so that
    # the k-th name goes to the k-th longest scaffold: ranked by size, same set of names, nothing else changes
    params = {"self": TRef("ScaffoldNamer"), "scaffolds": TList(TRef("Scaffold"))}
    result = NONE
    ghost_locals = {"g_by_size": TList(TRef("Scaffold"))}

    @staticmethod
    def requires(o):
        scs = o.scaffolds
        return [("objects", forall(lambda k: z3.Implies(z3.And(0 <= k, k < scs.len), z3.And(scs[k].z >= 1, scs[k].z < o.alloc)))),
                ("distinct", forall2(lambda a, b: z3.Implies(z3.And(0 <= a, a < b, b < scs.len), scs[a].z != scs[b].z)))]

    modifies = staticmethod(lambda o: [("map", "H.Scaffold.name"), ("fresh-lists", STR), ("fresh-lists", TRef("Scaffold")), ("alloc",)])

    @staticmethod
    def ghost_exit(o, n, res, st):
        raw = n.raw("by_size")
        if raw is not None:
            st.frames[0].vars["g_by_size"] = raw

    @staticmethod
    def ensures(o, n, res):
        scs = o.scaffolds
        if n.raw("g_by_size") is None:
            return [("nothing-to-rename", scs.len == 0)]
        bs = n.g_by_size
        st0 = o.state
        return [
            ("same-scaffolds", bs.len == scs.len),
            ("ranked-by-size", forall2(lambda a, b: z3.Implies(z3.And(0 <= a, a < b, b < bs.len), _length_of(st0, bs[a].z) >= _length_of(st0, bs[b].z)))),
            ("k-th-name-to-the-k-th-longest", forall(lambda k: z3.Implies(z3.And(0 <= k, k < bs.len), bs[k].name == scs[k].name))),
            # "changes nothing but [these] names": a scaffold whose name differs afterwards is one of the list
            ("others-keep-their-names", _renamed_only(o.state, n.state, scs, scs.len)),
        ]

    loops = {
        0: LoopSpec(
            kind="for",
            inv=lambda v, e, o: (lambda bs, names, i: [
                ("counter", z3.And(0 <= i, i <= bs.len, bs.len == names.len, names.len == o.scaffolds.len)),
                ("lists", z3.And(bs.z == e.by_size.z, names.z == e.names.z, bs.arr == e.by_size.arr, names.arr == e.names.arr, bs.hi == e.by_size.hi, names.hi == e.names.hi,
                                 bs.lo == 0, names.lo == 0)),
                ("renamed-so-far", forall(lambda k: z3.Implies(z3.And(0 <= k, k < i), bs[k].name == names[k]))),
                ("others-keep-their-names", _renamed_only(o.state, v.state, bs, i)),
            ])(v.by_size, v.names, v._it0),
            frame=lambda v, e: {"$free": ["H.Scaffold.name"]},
        )
    }


def _rename_wrapper(method, field, what):
    @contract(f"{U}.ScaffoldNamer.{method}", properties=("C10",))
    class _:
        # the size ranking is applied to the namer's own list of these scaffolds and renames nothing outside it
        params = {"self": TRef("ScaffoldNamer")}
        result = NONE

        @staticmethod
        def requires(o):
            scs = getattr(o.self, field)
            return [("objects", forall(lambda k: z3.Implies(z3.And(0 <= k, k < scs.len), z3.And(scs[k].z >= 1, scs[k].z < o.alloc)))),
                    ("distinct", forall2(lambda a, b: z3.Implies(z3.And(0 <= a, a < b, b < scs.len), scs[a].z != scs[b].z)))]

        modifies = staticmethod(lambda o: [("map", "H.Scaffold.name"), ("fresh-lists", STR), ("fresh-lists", TRef("Scaffold")), ("alloc",)])
        ensures = staticmethod(lambda o, n, res: [(f"only-{what}-renamed", _renamed_only(o.state, n.state, getattr(o.self, field), getattr(o.self, field).len))])


_rename_wrapper("rename_haplotigs_by_size", "haplotig_scaffolds", "haplotigs")
_rename_wrapper("rename_unlocs_by_size", "unloc_scaffolds", "unlocs")
