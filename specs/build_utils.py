"""
Contracts for tola.assembly.build_utils (C09, C10, C02).
"""

import z3

from pyvc import smt
from pyvc.spec import LoopSpec, contract, forall, forall2
from pyvc.values import BOOL, FRAG, INT, NONE, ROW, STR, TList, TOpt, TRef, TSet

U = "tola.assembly.build_utils"
SN = TRef("ScaffoldNamer")


def sv(x):
    return z3.StringVal(x)


def has_tag(tags, t):
    return z3.Contains(tags, z3.Unit(sv(t)))


@contract(f"{U}.ScaffoldNamer.haplotig_name", properties=("C10",))
class _:
    # fresh names: the counter strictly increases, so H_<n> is used once
    params = {"self": SN}
    result = STR
    modifies = staticmethod(lambda o: [("field", "ScaffoldNamer", "haplotig_n", o.self)])
    ensures = staticmethod(lambda o, n, res: n.self.haplotig_n == o.self.haplotig_n + 1)


@contract(f"{U}.ScaffoldNamer.unloc_name", properties=("C10",))
class _:
    params = {"self": SN}
    result = STR
    modifies = staticmethod(lambda o: [("field", "ScaffoldNamer", "unloc_n", o.self)])
    ensures = staticmethod(lambda o, n, res: n.self.unloc_n == o.self.unloc_n + 1)


def some_str(optview, text):
    return z3.And(z3.Not(optview.is_none), optview.val == sv(text))


@contract(f"{U}.ScaffoldNamer.label_scaffold", properties=("C09", "C10"))
class _:
    # C09: "Pieces tagged Haplotig, Contaminant or FalseDuplicate are written to the haplotig, contaminant or
    # false-duplicate assembly ...; once a Target tag has been seen, every later Pretext scaffold without one ...
    # is treated as contaminant."  The destination is decided by the tag set here.
    params = {"self": SN, "scaffold": TRef("Scaffold"), "fragment": FRAG, "scaffold_tags": TSet(STR), "original_name": STR}
    result = NONE

    @staticmethod
    def requires(o):
        s = o.self
        return [("named", z3.Not(s.current_scaffold_name.is_none)),
                ("lists", z3.And(s.haplotig_scaffolds.z != s.unloc_scaffolds.z))]

    @staticmethod
    def modifies(o):
        sc = o.scaffold
        return ([("field", "Scaffold", f, sc) for f in ("tag", "name", "haplotype", "rank", "original_name", "original_tags")]
                + [("field", "ScaffoldNamer", "haplotig_n", o.self), ("field", "ScaffoldNamer", "unloc_n", o.self),
                   ("list", TRef("Scaffold"), o.self.haplotig_scaffolds), ("list", TRef("Scaffold"), o.self.unloc_scaffolds)])

    raises = {"ValueError": lambda o: z3.And(has_tag(o.fragment.tags, "Unloc"), z3.Not(o.scaffold_tags.has(sv("Painted"))))}

    @staticmethod
    def ensures(o, n, res):
        t = o.fragment.tags
        fd, ht, ct = has_tag(t, "FalseDuplicate"), has_tag(t, "Haplotig"), has_tag(t, "Contaminant")
        target_mode_contaminant = z3.And(o.self.target_tags, z3.Not(o.scaffold_tags.has(sv("Target"))))
        sc = n.scaffold
        special = z3.Or(fd, ht, ct, target_mode_contaminant)
        return [
            ("false-duplicate", z3.Implies(fd, some_str(sc.tag, "FalseDuplicate"))),
            ("haplotig", z3.Implies(z3.And(ht, z3.Not(fd)), some_str(sc.tag, "Haplotig"))),
            ("contaminant", z3.Implies(z3.And(z3.Or(ct, target_mode_contaminant), z3.Not(fd), z3.Not(ht)), some_str(sc.tag, "Contaminant"))),
            ("untagged-stays-untagged", z3.Implies(z3.Not(special), sc.tag.z == o.scaffold.tag.z)),
            ("special-pieces-are-unplaced", z3.Implies(special, z3.And(z3.Not(sc.rank.is_none), sc.rank.val == 3))),
            ("other-pieces-keep-the-scaffold-rank", z3.Implies(z3.Not(special), sc.rank.z == o.self.current_rank.z)),
            ("haplotype", sc.haplotype.z == o.self.current_haplotype.z),
            ("origin", z3.And(z3.Not(sc.original_name.is_none), sc.original_name.val == o.original_name)),
            ("plain-name", z3.Implies(z3.And(z3.Not(ht), z3.Not(z3.And(has_tag(t, "Unloc"), z3.Not(fd)))), sc.name == o.self.current_scaffold_name.val)),
            ("haplotig-registered", z3.Implies(z3.And(ht, z3.Not(fd)), z3.And(n.self.haplotig_scaffolds.len == o.self.haplotig_scaffolds.len + 1,
                                                                             n.self.haplotig_scaffolds[o.self.haplotig_scaffolds.len].z == o.scaffold.z))),
        ]
