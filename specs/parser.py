"""
Contracts for tola.assembly.parser (C05) and tola.assembly.assembly.Assembly's small mutators.

C05: "Every non-blank, non-comment input line yields exactly one row or an error (no line is silently
skipped, merged or re-homed)".  Lexing (blank test, comment test, splitting on tabs) is modelled by
uninterpreted functions of the line; what the parsers do with the resulting columns is verified exactly.
"""

import z3

from pyvc import smt
from pyvc.spec import LoopSpec, contract, forall
from pyvc.values import BOOL, FRAG, GAP, INT, NONE, ROW, STR, TList, TOpt, TRef

from .format import sv

A = "tola.assembly.assembly.Assembly"
P = "tola.assembly.parser"
ASM = TRef("Assembly")


@contract(f"{A}.__init__", kind="init", properties=("C05",))
class _:
    params = {"self": ASM, "name": STR, "header": TOpt(TList(STR)), "scaffolds": TOpt(TList(TRef("Scaffold"))), "bp_per_texel": TOpt(INT), "curated": BOOL}

    @staticmethod
    def requires(o):
        # the forms in use: Assembly(name) in the parsers and Assembly(name, header=[...]) in the FASTA indexer
        return z3.And(o.scaffolds.is_none, o.bp_per_texel.is_none)

    modifies = staticmethod(lambda o: [("field", "Assembly", f, o.self) for f in ("name", "scaffolds", "header", "curated")]
                            + [("fresh-lists", STR), ("fresh-lists", TRef("Scaffold")), ("alloc",)])

    @staticmethod
    def ensures(o, n, res):
        s = n.self
        given = z3.And(z3.Not(o.header.is_none), o.header.val.len > 0)
        return z3.And(s.name == o.name, s.scaffolds.len == 0, s.scaffolds.z >= o.alloc, s.scaffolds.z < n.alloc, s.curated == o.curated,
                      z3.If(given, s.header.z == o.header.val.z, z3.And(s.header.len == 0, s.header.z >= o.alloc, s.header.z < n.alloc)))

    # the lists an Assembly creates for itself start empty, with a window at 0
    zero_based = staticmethod(lambda o, n, res: [(o.scaffolds.is_none, n.self.scaffolds), (o.header.is_none, n.self.header)])


def _appended(a, b, x):
    return z3.And(b.same(a), b.len == a.len + 1, b[a.len] == x if not hasattr(x, "z") else b[a.len].z == x.z,
                  forall(lambda k: z3.Implies(z3.And(0 <= k, k < a.len), (b[k] == a[k]) if not hasattr(x, "z") else (b[k].z == a[k].z))))


@contract(f"{A}.add_header_line", properties=("C05",))
class _:
    params = {"self": ASM, "txt": STR}
    result = NONE
    modifies = staticmethod(lambda o: [("list-append", STR, o.self.header)])
    ensures = staticmethod(lambda o, n, res: _appended(o.self.header, n.self.header, o.txt))


@contract(f"{A}.add_scaffold", properties=("C05",))
class _:
    params = {"self": ASM, "scffld": TRef("Scaffold")}
    result = NONE
    modifies = staticmethod(lambda o: [("list-append", TRef("Scaffold"), o.self.scaffolds)])
    ensures = staticmethod(lambda o, n, res: _appended(o.self.scaffolds, n.self.scaffolds, o.scffld))


# --- lexing model -------------------------------------------------------------------------------------


def blank(line):
    return smt.bool_fn("re.match('match:\\\\s*$')")(line)


def agp_fields(line):
    """line.rstrip().split('\\t')"""
    return smt.seq_fn("str.split('\\t')")(smt.str_fn("str.rstrip('')")(line))


def tpf_fields(line):
    """line.rstrip('\\r\\n').split('\\t')"""
    return smt.seq_fn("str.split('\\t')")(smt.str_fn("str.rstrip('\\r\\n')")(line))


def agp_strand_value(t):
    return z3.If(t == sv("?"), 0, z3.If(t == sv("+"), 1, -1))


def agp_row_from(r, c4, c5, c6, c7, c8, tags):
    """row r is what parse_agp builds from columns 5.. of one line (c4 = component type column)"""
    gap = z3.And(r.is_gap, r.length == z3.StrToInt(c5), r.gap_type == c6)
    frag = z3.And(r.is_frag, r.name == c5, r.start == z3.StrToInt(c6), r.end == z3.StrToInt(c7),
                  r.strand == agp_strand_value(c8), r.tags == tags)
    return z3.If(z3.Or(c4 == sv("U"), c4 == sv("N")), gap, frag)


def agp_row_is(r, F):
    """row r is what parse_agp builds from the columns F of one line"""
    n = z3.Length(F)
    return agp_row_from(r, F[4], F[5], F[6], F[7], F[8], z3.If(n <= 9, z3.Empty(smt.StrSeq), z3.SubSeq(F, 9, n - 9)))


def cur_scaffold(ns):
    """(is_none, reference term, view or None) of the local `scaffold`, whatever static type it has on this path"""
    from pyvc.spec import view
    from pyvc.values import TOpt as _TOpt, TRef as _TRef, Val, unpack

    raw = ns.raw("scaffold")
    st = ns.state
    if isinstance(raw.ty, _TOpt):
        S = raw.ty.sort()
        inner = unpack(raw.ty.inner, S.val(raw.z))
        return raw.z == S.none, inner.z, view(st, inner)
    if isinstance(raw.ty, _TRef):
        return z3.BoolVal(False), raw.z, view(st, raw)
    return z3.BoolVal(True), z3.IntVal(0), None


def _one_row_added(v, b, F, row_is, home):
    """exactly one row was added, to the scaffold the line names (`home` column), nothing else changed"""
    none1, ref1, sc1 = cur_scaffold(v)
    none0, ref0, sc0 = cur_scaffold(b)
    same = F[home] == b.scaffold_name
    rows1 = sc1.rows
    asm0, asm1 = b.asm.scaffolds, v.asm.scaffolds
    old_rows_len = sc0.rows.len if sc0 is not None else z3.IntVal(0)
    return [
        ("row-goes-to-the-named-scaffold", z3.And(z3.Not(none1), sc1.name == F[home], v.scaffold_name == F[home])),
        ("exactly-one-row", z3.If(same, z3.And(ref1 == ref0, rows1.len == old_rows_len + 1, asm1.len == asm0.len),
                                  z3.And(rows1.len == 1, asm1.len == asm0.len + 1, asm1[asm0.len].z == ref1))),
        ("the-row", row_is(rows1[rows1.len - 1], F)),
        ("earlier-rows-kept", z3.Implies(same, forall(lambda k: z3.Implies(z3.And(0 <= k, k < old_rows_len), rows1[k].z == sc0.rows[k].z)))
         if sc0 is not None else z3.BoolVal(True)),
    ]


HEADER = "match:[#\\s]+(.+)"


def _header_post(v, b, agp):
    """C05: header lines survive a round trip - a comment line ('#...', in AGP not '##...') whose text is not blank adds
    exactly that text (what follows the leading '#' and white space) to the header; every other line leaves it alone"""
    L = b.line
    h0, h1 = b.asm.header, v.asm.header
    is_comment = z3.And(z3.Not(blank(L)), z3.PrefixOf(sv("#"), L))
    if agp:
        is_comment = z3.And(is_comment, z3.Not(z3.PrefixOf(sv("##"), L)))
    has_text = smt.bool_fn(f"re.match({HEADER!r})")(L)
    text = smt.str_fn(f"re.group({HEADER!r},1)")(L)
    adds = z3.And(is_comment, has_text)
    kept = forall(lambda k: z3.Implies(z3.And(0 <= k, k < h0.len), h1[k] == h0[k]))
    return [
        ("header-line-recorded", z3.Implies(adds, z3.And(h1.len == h0.len + 1, h1[h0.len] == text, kept))),
        ("header-otherwise-unchanged", z3.Implies(z3.Not(adds), z3.And(h1.len == h0.len, kept))),
    ]


def _nothing_added(v, b):
    none1, ref1, sc1 = cur_scaffold(v)
    none0, ref0, sc0 = cur_scaffold(b)
    rows_same = z3.BoolVal(True) if sc0 is None or sc1 is None else z3.Implies(z3.Not(none0), sc1.rows.len == sc0.rows.len)
    return [("no-row", z3.And(v.asm.scaffolds.len == b.asm.scaffolds.len, v.scaffold_name == b.scaffold_name, none1 == none0,
                              z3.Implies(z3.Not(none0), ref1 == ref0), rows_same))]


def _current_inv(v, o):
    none1, ref1, sc1 = cur_scaffold(v)
    if sc1 is None:
        return z3.And(v.scaffold_name == sv(""), v.asm.scaffolds.len == 0)
    return z3.If(none1, z3.And(v.scaffold_name == sv(""), v.asm.scaffolds.len == 0),
                 z3.And(sc1.name == v.scaffold_name, ref1 >= o.alloc, sc1.rows.z >= o.alloc,
                        v.asm.scaffolds.len >= 1, v.asm.scaffolds[v.asm.scaffolds.len - 1].z == ref1))


ALL_ERRORS = {e: (lambda o: True) for e in ("IndexError", "KeyError", "ValueError", "AttributeError", "TypeError")}


@contract(f"{P}.parse_agp", kind="function", properties=("C05", "C17", "C04"))
class _:
    params = {"file": TList(STR), "name": STR}
    result = ASM
    raises = ALL_ERRORS  # "or an error": malformed lines are rejected loudly
    modifies = staticmethod(lambda o: [("fresh-objs", "Assembly", ["name", "scaffolds", "header", "curated"]),
                                       ("fresh-objs", "Scaffold", ["name", "rows", "tag", "haplotype", "rank", "original_name", "original_tags"]),
                                       ("fresh-lists", STR), ("fresh-lists", TRef("Scaffold")), ("fresh-lists", ROW), ("alloc",), ("ralloc",)])
    ensures = staticmethod(lambda o, n, res: [("new-assembly", z3.And(res.z >= o.alloc, res.name == o.name))])

    loops = {
        0: LoopSpec(
            kind="for",
            iter_src="file",
            types={"scaffold": TOpt(TRef("Scaffold"))},
            inv=lambda v, e, o: [
                ("asm", z3.And(v.asm.z == e.asm.z, v.asm.z >= o.alloc, v.asm.scaffolds.same(e.asm.scaffolds), v.asm.header.same(e.asm.header),
                               v.asm.scaffolds.z >= o.alloc, v.asm.header.z >= o.alloc, v.asm.name == o.name)),
                # the current scaffold is the last one added and carries the current name
                ("current", _current_inv(v, o)),
                ("input", v.file.same(o.file)),
            ],
            iter_post=lambda v, b, e: (lambda L: [
                *[(lbl, z3.Implies(z3.Or(blank(L), z3.PrefixOf(sv("#"), L)), f)) for lbl, f in _nothing_added(v, b)],
                *[(lbl, z3.Implies(z3.And(z3.Not(blank(L)), z3.Not(z3.PrefixOf(sv("#"), L))), f))
                  for lbl, f in _one_row_added(v, b, agp_fields(L), agp_row_is, 0)],
                *_header_post(v, b, True),
            ])(b.line),
            frame=lambda v, e: {"$fresh-only": ["H.Scaffold.name", "H.Scaffold.rows", "H.Scaffold.tag", "H.Scaffold.haplotype", "H.Scaffold.rank",
                                                "H.Scaffold.original_name", "H.Scaffold.original_tags", "H.$class",
                                                "LA.Row", "LLO.Row", "LHI.Row", "LA.Int", "LLO.Int", "LHI.Int", "LA.String", "LLO.String", "LHI.String"]},
        )
    }


from pyvc.values import TConst, Val  # noqa: E402

from .format import LOWER_UNDERSCORE, UPPER_DASH  # noqa: E402


@contract(f"{P}.lowercase_and_dash_to_underscore", kind="function", status="TRUSTED")
class _:
    params = {}
    result = None
    fresh_result = staticmethod(lambda s, o: Val(TConst(), ("strtable", LOWER_UNDERSCORE)))


TPF_NAME = "match:(.+):(\\d+)-(\\d+)$"


def tpf_name_groups(text):
    g = lambda k: smt.str_fn(f"re.group({TPF_NAME!r},{k})")(text)
    return g(1), g(2), g(3)


def tpf_gap_type_back(t):
    return z3.If(t == sv("TYPE-2"), sv("scaffold"), z3.If(t == sv("TYPE-3"), sv("contig"), smt.str_fn(LOWER_UNDERSCORE)(t)))


def tpf_row_from(r, c0, c1, c2, c3):
    g1, g2, g3 = tpf_name_groups(c1)
    gap = z3.And(r.is_gap, r.length == z3.StrToInt(c2), r.gap_type == tpf_gap_type_back(c1))
    frag = z3.And(r.is_frag, r.name == g1, r.start == z3.StrToInt(g2), r.end == z3.StrToInt(g3),
                  r.strand == z3.If(c3 == sv("PLUS"), 1, -1), r.tags == z3.Empty(smt.StrSeq))
    return z3.If(c0 == sv("GAP"), gap, frag)


def tpf_row_is(r, F):
    return tpf_row_from(r, F[0], F[1], F[2], F[3])


def _tpf_line_post(v, b):
    L = b.line
    F = tpf_fields(L)
    data = z3.And(z3.Not(blank(L)), z3.Not(z3.PrefixOf(sv("#"), L)))
    is_gap = F[0] == sv("GAP")
    none1, ref1, sc1 = cur_scaffold(v)
    none0, ref0, sc0 = cur_scaffold(b)
    out = [(lbl, z3.Implies(z3.Not(data), f)) for lbl, f in _nothing_added(v, b)]
    # a GAP line adds one gap row to the *current* scaffold (no new scaffold, no re-homing)
    if sc0 is not None and sc1 is not None:
        g = z3.And(data, is_gap)
        out.append(("gap-line-stays-in-the-current-scaffold", z3.Implies(g, z3.And(
            z3.Not(none0), ref1 == ref0, v.scaffold_name == b.scaffold_name, v.asm.scaffolds.len == b.asm.scaffolds.len,
            sc1.rows.len == sc0.rows.len + 1))))
        out.append(("gap-line-row", z3.Implies(g, tpf_row_is(sc1.rows[sc1.rows.len - 1], F))))
        out.append(("gap-line-earlier-rows-kept", z3.Implies(g, forall(lambda k: z3.Implies(z3.And(0 <= k, k < sc0.rows.len), sc1.rows[k].z == sc0.rows[k].z)))))
    if sc1 is not None:
        out += [(lbl, z3.Implies(z3.And(data, z3.Not(is_gap)), f)) for lbl, f in _one_row_added(v, b, F, tpf_row_is, 2)]
        out.append(("four-columns", z3.Implies(z3.And(data, z3.Not(is_gap)), z3.Length(F) == 4)))
    out += _header_post(v, b, False)
    return out


@contract(f"{P}.parse_tpf", kind="function", properties=("C05",))
class _:
    params = {"file": TList(STR), "name": STR}
    result = ASM
    raises = ALL_ERRORS
    modifies = staticmethod(lambda o: [("fresh-objs", "Assembly", ["name", "scaffolds", "header", "curated"]),
                                       ("fresh-objs", "Scaffold", ["name", "rows", "tag", "haplotype", "rank", "original_name", "original_tags"]),
                                       ("fresh-lists", STR), ("fresh-lists", TRef("Scaffold")), ("fresh-lists", ROW), ("alloc",), ("ralloc",)])
    ensures = staticmethod(lambda o, n, res: [("new-assembly", z3.And(res.z >= o.alloc, res.name == o.name))])

    loops = {
        0: LoopSpec(
            kind="for",
            iter_src="file",
            types={"scaffold": TOpt(TRef("Scaffold"))},
            inv=lambda v, e, o: [
                ("asm", z3.And(v.asm.z == e.asm.z, v.asm.z >= o.alloc, v.asm.scaffolds.same(e.asm.scaffolds), v.asm.header.same(e.asm.header),
                               v.asm.scaffolds.z >= o.alloc, v.asm.header.z >= o.alloc, v.asm.name == o.name)),
                ("current", _current_inv(v, o)),
                ("input", v.file.same(o.file)),
            ],
            iter_post=lambda v, b, e: _tpf_line_post(v, b),
            frame=lambda v, e: {"$fresh-only": ["H.Scaffold.name", "H.Scaffold.rows", "H.Scaffold.tag", "H.Scaffold.haplotype", "H.Scaffold.rank",
                                                "H.Scaffold.original_name", "H.Scaffold.original_tags", "H.$class",
                                                "LA.Row", "LLO.Row", "LHI.Row", "LA.Int", "LLO.Int", "LHI.Int", "LA.String", "LLO.String", "LHI.String"]},
        )
    }
