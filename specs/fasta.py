"""
Contracts for tola.fasta.index (C03, C04, C13) over a ghost model of the FASTA file:
a record with faidx layout (off, rpl, mll, L) has residue g (0-based) at byte off + (g // rpl)*mll + g % rpl.
"""

import z3

from pyvc import smt
from pyvc.spec import LoopSpec, contract, forall
from pyvc.values import BOOL, BYTES, FRAG, GAP, INT, NONE, ROW, STR, TList, TOpt, TRef

IX = "tola.fasta.index.FastaIndex"
FH = TRef("FastaFH")
BIO = TRef("BytesIO")
INFO = TRef("FastaInfo")


def layout(info):
    """a usable faidx entry: at least one residue per line and a line terminator of at least one byte"""
    return z3.And(info.residues_per_line >= 1, info.max_line_length > info.residues_per_line, info.length >= 0, info.file_offset >= 0)


def byte_of(info, g):
    q, r = smt.define_divmod(g, info.residues_per_line)
    return info.file_offset + q * info.max_line_length + r


def col_of(info, g):
    return smt.define_divmod(g, info.residues_per_line)[1]


def div_unique(a, b, k, r0=0):
    """lemma instance (valid in integer arithmetic): if a == b*k + r0 with 0 <= r0 < b then k and r0 are
    the quotient and remainder of a by b"""
    q, r = smt.define_divmod(a, b)
    return z3.Implies(z3.And(b > 0, a == b * k + r0, 0 <= r0, r0 < b), z3.And(q == k, r == r0))


# --- external objects (TRUSTED models of io) ---------------------------------------------------


@contract("ext.FastaFH.seek", status="TRUSTED")
class _:
    params = {"self": FH, "offset": INT, "whence": INT}
    defaults = {"whence": 0}
    result = NONE
    modifies = staticmethod(lambda o: [("field", "FastaFH", "pos", o.self)])
    ensures = staticmethod(lambda o, n, res: n.self.pos == z3.If(o.whence == 0, o.offset, o.self.pos + o.offset))


@contract("ext.FastaFH.read", status="TRUSTED")
class _:
    params = {"self": FH, "n": INT}
    result = BYTES

    @staticmethod
    def requires(o):
        fh = o.self
        info = fh.g_info
        g = fh.g_next
        # every read delivers exactly the next n residues: the cursor is on residue g_next and the read
        # stays inside one line (never a terminator byte) and inside the record
        return [
            ("non-negative", o.n >= 0),
            ("cursor-on-next-residue", z3.Implies(o.n > 0, fh.pos == byte_of(info, g))),
            ("within-line", z3.Implies(o.n > 0, col_of(info, g) + o.n <= info.residues_per_line)),
            ("within-record", z3.Implies(o.n > 0, z3.And(0 <= g, g + o.n <= info.length))),
        ]

    modifies = staticmethod(lambda o: [("field", "FastaFH", "pos", o.self), ("field", "FastaFH", "g_next", o.self)])

    @staticmethod
    def ensures(o, n, res):
        return z3.And(n.self.pos == o.self.pos + o.n, n.self.g_next == o.self.g_next + o.n,
                      res[0] == 0, res[1] == o.self.g_next, res[2] == o.n)


@contract("ext.BytesIO.__init__", kind="init", status="TRUSTED")
class _:
    params = {"self": BIO, "initial_bytes": TOpt(BYTES)}
    defaults = {"initial_bytes": None}
    modifies = staticmethod(lambda o: [("field", "BytesIO", f, o.self) for f in ("g_kind", "g_first", "g_n", "g_pos")])

    @staticmethod
    def ensures(o, n, res):
        s = n.self
        b = o.initial_bytes
        return z3.And(s.g_pos == 0, z3.If(b.is_none, s.g_n == 0, z3.And(s.g_kind == b.val[0], s.g_first == b.val[1], s.g_n == b.val[2])))


@contract("ext.BytesIO.write", status="TRUSTED")
class _:
    params = {"self": BIO, "b": BYTES}
    result = INT

    @staticmethod
    def requires(o):
        s, b = o.self, o.b
        # what accumulates in the buffer is one contiguous run of one kind
        return [("contiguous", z3.Or(b[2] == 0, s.g_n == 0, z3.And(b[0] == s.g_kind, b[1] == s.g_first + s.g_n)))]

    modifies = staticmethod(lambda o: [("field", "BytesIO", f, o.self) for f in ("g_kind", "g_first", "g_n")])

    @staticmethod
    def ensures(o, n, res):
        s, b, t = o.self, o.b, n.self
        return z3.If(b[2] == 0, z3.And(t.g_n == s.g_n, t.g_kind == s.g_kind, t.g_first == s.g_first),
                     z3.And(t.g_n == s.g_n + b[2], t.g_kind == b[0], t.g_first == z3.If(s.g_n == 0, b[1], s.g_first)))


# --- FastaIndex ---------------------------------------------------------------------------------


@contract(f"{IX}.sequence_bytes", properties=("C03", "C04", "C13"))
class _:
    # C04: "random access to any interval through that index returns exactly those residues"
    params = {"self": TRef("FastaIndex"), "info": INFO, "start": INT, "end": INT}
    result = BIO

    @staticmethod
    def requires(o):
        return [("layout", layout(o.info)), ("interval", z3.And(1 <= o.start, o.start <= o.end, o.end <= o.info.length))]

    @staticmethod
    def ghost_entry(o, st):
        from pyvc.spec import field_map, unview

        fh = o.self.fasta_fileandle
        for attr, val in (("g_info", o.info), ("g_next", o.start - 1)):
            name, m, ty = field_map(st, "FastaFH", attr)
            st.heap[name] = z3.Store(m, fh.z, unview(val))

    @staticmethod
    def modifies(o):
        fh = o.self.fasta_fileandle
        return [("field", "FastaFH", f, fh) for f in ("pos", "g_info", "g_next")] + [("fresh-objs", "BytesIO", ["g_kind", "g_first", "g_n", "g_pos"]), ("alloc",)]

    @staticmethod
    def ensures(o, n, res):
        return [
            ("exactly-the-interval", z3.And(res.g_kind == 0, res.g_first == o.start - 1, res.g_n == o.end - o.start + 1)),
            ("fresh", res.z >= o.alloc),
        ]

    loops = {
        0: LoopSpec(
            kind="for",
            inv=lambda v, e, o: (lambda fh, info, rpl: [
                ("counter", z3.And(0 <= v._it0, v._it0 <= v.last_whole_line - v.frst_line)),
                ("line-start", z3.And(fh.g_next == (v.frst_line + 1 + v._it0) * rpl, fh.pos == info.file_offset + (v.frst_line + 1 + v._it0) * info.max_line_length)),
                ("buffer", z3.And(v.seq.g_kind == 0, v.seq.g_first == o.start - 1, v.seq.g_n == fh.g_next - (o.start - 1), v.seq.g_n > 0)),
                ("ghost", fh.g_info.z == info.z),
            ])(v.fh, o.info, o.info.residues_per_line),
            hints=lambda v: [div_unique(v.fh.g_next, v.info.residues_per_line, v.frst_line + 1 + v._it0)],
        )
    }
