"""
Contracts for tola.fasta.index (C03, C04, C13) over a ghost model of the FASTA file:
a record with faidx layout (off, rpl, mll, L) has residue g (0-based) at byte off + (g // rpl)*mll + g % rpl.
"""

import z3

from pyvc import smt
from pyvc.spec import LoopSpec, contract, forall
from pyvc.values import BOOL, BYTES, FRAG, GAP, INT, NONE, ROW, STR, TList, TOpt, TRef

IX = "tola.fasta.index.FastaIndex"
FH = TRef("FastaFH")
BIO = TRef("BytesIO")
INFO = TRef("FastaInfo")


def layout(info):
    """a usable faidx entry: at least one residue per line and a line terminator of at least one byte"""
    return z3.And(info.residues_per_line >= 1, info.max_line_length > info.residues_per_line, info.length >= 0, info.file_offset >= 0)


def byte_of(info, g):
    q, r = smt.define_divmod(g, info.residues_per_line)
    return info.file_offset + q * info.max_line_length + r


def col_of(info, g):
    return smt.define_divmod(g, info.residues_per_line)[1]


def mul_mono(k, c, b):
    """lemma instance (valid in integer arithmetic): 0 <= k <= c and b >= 0 imply k*b <= c*b"""
    return z3.Implies(z3.And(0 <= k, k <= c, b >= 0), k * b <= c * b)


def div_unique(a, b, k, r0=0):
    """lemma instance (valid in integer arithmetic): if a == b*k + r0 with 0 <= r0 < b then k and r0 are
    the quotient and remainder of a by b"""
    q, r = smt.define_divmod(a, b)
    return z3.Implies(z3.And(b > 0, a == b * k + r0, 0 <= r0, r0 < b), z3.And(q == k, r == r0))


# --- external objects (TRUSTED models of io) ---------------------------------------------------


@contract("ext.FastaFH.seek", status="TRUSTED")
class _:
    params = {"self": FH, "offset": INT, "whence": INT}
    defaults = {"whence": 0}
    result = NONE
    # only absolute (0) and relative-to-cursor (1) seeks are modelled; a seek relative to the end of the file (2) is
    # outside the model and therefore an unprovable precondition
    requires = staticmethod(lambda o: [("whence-0-or-1", z3.Or(o.whence == 0, o.whence == 1))])
    modifies = staticmethod(lambda o: [("field", "FastaFH", "pos", o.self)])
    ensures = staticmethod(lambda o, n, res: n.self.pos == z3.If(o.whence == 0, o.offset, o.self.pos + o.offset))


@contract("ext.FastaFH.read", status="TRUSTED")
class _:
    params = {"self": FH, "n": INT}
    result = BYTES

    @staticmethod
    def requires(o):
        fh = o.self
        info = fh.g_info
        g = fh.g_next
        # every read delivers exactly the next n residues: the cursor is on residue g_next and the read
        # stays inside one line (never a terminator byte) and inside the record
        return [
            ("non-negative", o.n >= 0),
            ("cursor-on-next-residue", z3.Implies(o.n > 0, fh.pos == byte_of(info, g))),
            ("within-line", z3.Implies(o.n > 0, col_of(info, g) + o.n <= info.residues_per_line)),
            ("within-record", z3.Implies(o.n > 0, z3.And(0 <= g, g + o.n <= info.length))),
        ]

    modifies = staticmethod(lambda o: [("field", "FastaFH", "pos", o.self), ("field", "FastaFH", "g_next", o.self)])

    @staticmethod
    def ensures(o, n, res):
        return z3.And(n.self.pos == o.self.pos + o.n, n.self.g_next == o.self.g_next + o.n,
                      res[0] == 0, res[1] == o.self.g_next, res[2] == o.n)


@contract("ext.BytesIO.__init__", kind="init", status="TRUSTED")
class _:
    params = {"self": BIO, "initial_bytes": TOpt(BYTES)}
    defaults = {"initial_bytes": None}
    modifies = staticmethod(lambda o: [("field", "BytesIO", f, o.self) for f in ("g_kind", "g_first", "g_n", "g_pos")])

    @staticmethod
    def ensures(o, n, res):
        s = n.self
        b = o.initial_bytes
        return z3.And(s.g_pos == 0, z3.If(b.is_none, s.g_n == 0, z3.And(s.g_kind == b.val[0], s.g_first == b.val[1], s.g_n == b.val[2])))


@contract("ext.BytesIO.write", status="TRUSTED")
class _:
    params = {"self": BIO, "b": BYTES}
    result = INT

    @staticmethod
    def requires(o):
        s, b = o.self, o.b
        # what accumulates in the buffer is one contiguous run of one kind
        # and every write appends (the stream position is at the end of what was written so far)
        return [("contiguous", z3.Or(b[2] == 0, s.g_n == 0, z3.And(b[0] == s.g_kind, b[1] == s.g_first + s.g_n))),
                ("appends", s.g_pos == s.g_n)]

    modifies = staticmethod(lambda o: [("field", "BytesIO", f, o.self) for f in ("g_kind", "g_first", "g_n", "g_pos")])

    @staticmethod
    def ensures(o, n, res):
        s, b, t = o.self, o.b, n.self
        return z3.And(t.g_pos == s.g_pos + b[2],
                      z3.If(b[2] == 0, z3.And(t.g_n == s.g_n, t.g_kind == s.g_kind, t.g_first == s.g_first),
                            z3.And(t.g_n == s.g_n + b[2], t.g_kind == b[0], t.g_first == z3.If(s.g_n == 0, b[1], s.g_first))))


# --- FastaIndex ---------------------------------------------------------------------------------


@contract(f"{IX}.sequence_bytes", properties=("C03", "C04", "C13"))
class _:
    # C04: "random access to any interval through that index returns exactly those residues"
    params = {"self": TRef("FastaIndex"), "info": INFO, "start": INT, "end": INT}
    result = BIO

    @staticmethod
    def requires(o):
        return [("layout", layout(o.info)), ("interval", z3.And(1 <= o.start, o.start <= o.end, o.end <= o.info.length))]

    @staticmethod
    def ghost_entry(o, st):
        from pyvc.spec import field_map, unview

        fh = o.self.fasta_fileandle
        for attr, val in (("g_info", o.info), ("g_next", o.start - 1)):
            name, m, ty = field_map(st, "FastaFH", attr)
            st.heap[name] = z3.Store(m, fh.z, unview(val))

    @staticmethod
    def modifies(o):
        fh = o.self.fasta_fileandle
        return [("field", "FastaFH", f, fh) for f in ("pos", "g_info", "g_next")] + [("fresh-objs", "BytesIO", ["g_kind", "g_first", "g_n", "g_pos"]), ("alloc",)]

    @staticmethod
    def ensures(o, n, res):
        return [
            ("exactly-the-interval", z3.And(res.g_kind == 0, res.g_first == o.start - 1, res.g_n == o.end - o.start + 1)),
            ("fresh", z3.And(res.z >= o.alloc, res.z < n.alloc)),
        ]

    loops = {
        0: LoopSpec(
            kind="for",
            inv=lambda v, e, o: (lambda fh, info, rpl: [
                ("counter", z3.And(0 <= v._it0, v._it0 <= v.last_whole_line - v.frst_line)),
                ("line-start", z3.And(fh.g_next == (v.frst_line + 1 + v._it0) * rpl, fh.pos == info.file_offset + (v.frst_line + 1 + v._it0) * info.max_line_length)),
                ("buffer", z3.And(v.seq.g_kind == 0, v.seq.g_first == o.start - 1, v.seq.g_n == fh.g_next - (o.start - 1), v.seq.g_n > 0, v.seq.g_pos == v.seq.g_n)),
                ("ghost", fh.g_info.z == info.z),
            ])(v.fh, o.info, o.info.residues_per_line),
            hints=lambda v: [div_unique(v.fh.g_next, v.info.residues_per_line, v.frst_line + 1 + v._it0)],
        )
    }


def chunk_len(total, B, k):
    """length of the k-th chunk when `total` items are delivered in chunks of at most B"""
    return smt.Min(B, total - k * B)


@contract("tola.fasta.simple.revcomp_bytes_io", kind="function", status="TRUSTED", properties=("C14",))
class _:
    # bytes-level model of reverse_complement (the table itself is decided exhaustively, see lemma c14_complement_table)
    params = {"seq": BIO}
    result = BIO
    modifies = staticmethod(lambda o: [("fresh-objs", "BytesIO", ["g_kind", "g_first", "g_n", "g_pos"]), ("alloc",)])

    @staticmethod
    def requires(o):
        return o.seq.g_kind == 0

    @staticmethod
    def ensures(o, n, res):
        s = o.seq
        return z3.And(res.z >= o.alloc, res.z < n.alloc, res.g_kind == 2, res.g_first == s.g_first, res.g_n == s.g_n, res.g_pos == 0)


def _chunk_requires(o):
    return [("layout", layout(o.info)), ("interval", z3.And(1 <= o.start, o.start <= o.end, o.end <= o.info.length)),
            ("buffer", o.self.buffer_size >= 1)]


def _chunk_modifies(o):
    fh = o.self.fasta_fileandle
    return [("field", "FastaFH", f, fh) for f in ("pos", "g_info", "g_next")] + [
        ("fresh-objs", "BytesIO", ["g_kind", "g_first", "g_n", "g_pos"]), ("fresh-lists", BIO), ("alloc",)]


def _chunks_are(lst, upto, kind, start, end, B, order, fresh_from=None):
    """chunk number k of lst (k < upto) is the order(k)-th buffer-sized piece of residues start..end.
    Two quantified facts: the shape (linear: kind, size range, freshness) and the exact position
    (products with the buffer size), so that users of the first never meet non-linear terms."""
    total = end - start + 1

    def shape(k):
        c = lst[k]
        # never empty, never more than the buffer (C13); a new object
        return z3.And(c.g_kind == kind, c.g_n >= 1, c.g_n <= B, c.z >= fresh_from)

    def position(k):
        c = lst[k]
        j = order(k)
        return z3.And(c.g_first == start - 1 + j * B, c.g_n == chunk_len(total, B, j))

    rng = lambda k: z3.And(0 <= k, k < upto)
    return z3.And(forall(lambda k: z3.Implies(rng(k), shape(k))), forall(lambda k: z3.Implies(rng(k), position(k))))


@contract(f"{IX}.fwd_chunks", properties=("C03", "C13"))
class _:
    # "at no time are more than buffer-size residues of one fragment held": every chunk is <= buffer_size,
    # and together the chunks are exactly residues start..end in order
    params = {"self": TRef("FastaIndex"), "info": INFO, "start": INT, "end": INT}
    result = TList(BIO)
    result_zero_based = True
    requires = staticmethod(_chunk_requires)
    modifies = staticmethod(_chunk_modifies)

    @staticmethod
    def ensures(o, n, res):
        B = o.self.buffer_size
        q, r = smt.define_divmod(o.end - o.start, B)
        return [
            ("count", res.len == q + 1),
            ("zero-based", res.lo == 0),
            ("chunks", _chunks_are(res, res.len, 0, o.start, o.end, B, lambda k: k, o.alloc)),
            ("fresh", res.z >= o.alloc),
        ]

    loops = {
        0: LoopSpec(
            kind="for",
            inv=lambda v, e, o: (lambda B, q: [
                ("counter", z3.And(0 <= v._it0, v._it0 <= q + 1, v.chunk_count == q + 1, v.max_length == B)),
                ("yielded", z3.And(v._yields.len == v._it0, v._yields.same(e._yields))),
                ("chunks", _chunks_are(v._yields, v._it0, 0, o.start, o.end, B, lambda k: k, o.alloc)),
                ("old-refs", forall(lambda k: z3.Implies(z3.And(0 <= k, k < v._it0), v._yields[k].z < v.alloc))),
            ])(o.self.buffer_size, smt.define_divmod(o.end - o.start, o.self.buffer_size)[0]),
        )
    }


@contract(f"{IX}.rev_chunks", properties=("C03", "C13", "C14"))
class _:
    # the same pieces last-first, each reverse-complemented: the reverse complement of the interval
    params = {"self": TRef("FastaIndex"), "info": INFO, "start": INT, "end": INT}
    result = TList(BIO)
    result_zero_based = True
    requires = staticmethod(_chunk_requires)
    modifies = staticmethod(_chunk_modifies)

    @staticmethod
    def ensures(o, n, res):
        B = o.self.buffer_size
        q, r = smt.define_divmod(o.end - o.start, B)
        return [
            ("count", res.len == q + 1),
            ("zero-based", res.lo == 0),
            ("chunks", _chunks_are(res, res.len, 2, o.start, o.end, B, lambda k: q - k, o.alloc)),
            ("fresh", res.z >= o.alloc),
        ]

    loops = {
        0: LoopSpec(
            kind="for",
            inv=lambda v, e, o: (lambda B, q: [
                ("counter", z3.And(-1 <= v._it0, v._it0 <= q, v.chunk_count == q, v.max_length == B)),
                ("yielded", z3.And(v._yields.len == q - v._it0, v._yields.same(e._yields))),
                ("chunks", _chunks_are(v._yields, q - v._it0, 2, o.start, o.end, B, lambda k: q - k, o.alloc)),
                ("old-refs", forall(lambda k: z3.Implies(z3.And(0 <= k, k < q - v._it0), v._yields[k].z < v.alloc))),
            ])(o.self.buffer_size, smt.define_divmod(o.end - o.start, o.self.buffer_size)[0]),
        )
    }


def _gap_chunks(lst, upto, L, B, fresh_from):
    rng = lambda k: z3.And(0 <= k, k < upto)
    return z3.And(
        forall(lambda k: z3.Implies(rng(k), z3.And(lst[k].g_kind == 1, lst[k].g_n >= 0, lst[k].g_n <= B, lst[k].g_pos == 0, lst[k].z >= fresh_from))),
        forall(lambda k: z3.Implies(rng(k), lst[k].g_n == chunk_len(L, B, k))),
    )


@contract(f"{IX}.get_gap_iter", properties=("C03", "C13"))
class _:
    # "every gap rendered as that many N characters", in pieces of at most buffer_size
    params = {"self": TRef("FastaIndex"), "gap": GAP, "gap_character": BYTES}
    result = TList(BIO)
    result_zero_based = True

    @staticmethod
    def requires(o):
        return [("gap-length", o.gap.length >= 0), ("buffer", o.self.buffer_size >= 1),
                ("filler", z3.And(o.gap_character[0] == 1, o.gap_character[2] == 1))]

    modifies = staticmethod(lambda o: [("fresh-objs", "BytesIO", ["g_kind", "g_first", "g_n", "g_pos"]), ("fresh-lists", BIO), ("alloc",)])

    @staticmethod
    def ensures(o, n, res):
        B = o.self.buffer_size
        L = o.gap.length
        q, r = smt.define_divmod(L, B)
        return [
            ("count", res.len == q + 1),
            ("zero-based", res.lo == 0),
            ("chunks", _gap_chunks(res, res.len, L, B, o.alloc)),
            ("fresh", res.z >= o.alloc),
        ]

    loops = {
        0: LoopSpec(
            kind="for",
            inv=lambda v, e, o: (lambda B, L, q: [
                ("counter", z3.And(0 <= v._it0, v._it0 <= q + 1, v.chunk_count == q + 1, v.max_length == B, v.length == L)),
                ("yielded", z3.And(v._yields.len == v._it0, v._yields.same(e._yields))),
                ("chunks", _gap_chunks(v._yields, v._it0, L, B, o.alloc)),
                ("old-refs", forall(lambda k: z3.Implies(z3.And(0 <= k, k < v._it0), v._yields[k].z < v.alloc))),
            ])(o.self.buffer_size, o.gap.length, smt.define_divmod(o.gap.length, o.self.buffer_size)[0]),
        )
    }


# --- more of io ------------------------------------------------------------------------------------


@contract("ext.BytesIO.seek", status="TRUSTED")
class _:
    params = {"self": BIO, "offset": INT}
    result = INT
    requires = staticmethod(lambda o: z3.And(o.offset >= 0, o.offset <= o.self.g_n))
    modifies = staticmethod(lambda o: [("field", "BytesIO", "g_pos", o.self)])
    ensures = staticmethod(lambda o, n, res: n.self.g_pos == o.offset)


@contract("ext.BytesIO.read", status="TRUSTED")
class _:
    params = {"self": BIO, "n": INT}
    result = BYTES
    requires = staticmethod(lambda o: z3.And(o.n >= 0, 0 <= o.self.g_pos, o.self.g_pos <= o.self.g_n))
    modifies = staticmethod(lambda o: [("field", "BytesIO", "g_pos", o.self)])

    @staticmethod
    def ensures(o, n, res):
        s = o.self
        m = smt.Min(o.n, s.g_n - s.g_pos)
        return z3.And(res[0] == s.g_kind, res[1] == s.g_first + s.g_pos, res[2] == m, n.self.g_pos == s.g_pos + m)


@contract("ext.BytesIO.getvalue", status="TRUSTED")
class _:
    params = {"self": BIO}
    result = BYTES
    ensures = staticmethod(lambda o, n, res: z3.And(res[0] == o.self.g_kind, res[1] == o.self.g_first, res[2] == o.self.g_n))


@contract("ext.BytesIO.truncate", status="TRUSTED")
class _:
    # truncate(size) keeps the first `size` bytes and leaves the stream position where it is
    params = {"self": BIO, "size": INT}
    result = INT
    requires = staticmethod(lambda o: o.size >= 0)
    modifies = staticmethod(lambda o: [("field", "BytesIO", "g_n", o.self)])
    ensures = staticmethod(lambda o, n, res: n.self.g_n == smt.Min(o.self.g_n, o.size))


@contract("ext.BytesIO.tell", status="TRUSTED")
class _:
    params = {"self": BIO}
    result = INT
    pure = staticmethod(lambda o, s: s.g_pos)


BOUT = TRef("BinOut")


@contract("ext.BinOut.write", status="TRUSTED")
class _:
    # C03: "wrapped at the line length with no empty or over-long lines" are the preconditions of write
    params = {"self": BOUT, "b": BYTES}
    result = INT

    @staticmethod
    def requires(o):
        s, b = o.self, o.b
        kind, n = b[0], b[2]
        is_seq = z3.Or(kind == 0, kind == 1, kind == 2)
        return [
            ("known-kind", z3.Or(is_seq, kind == 3, kind == 4)),
            ("no-empty-line", z3.Implies(kind == 3, s.g_col > 0)),
            ("no-over-long-line", z3.Implies(is_seq, z3.And(n >= 1, s.g_col + n <= s.g_L))),
            ("header-starts-a-record", z3.Implies(kind == 4, s.g_col == 0)),
        ]

    modifies = staticmethod(lambda o: [("field", "BinOut", "g_col", o.self), ("field", "BinOut", "g_total", o.self)])

    @staticmethod
    def ensures(o, n, res):
        s, b, t = o.self, o.b, n.self
        kind, k = b[0], b[2]
        return z3.If(kind == 3, z3.And(t.g_col == 0, t.g_total == s.g_total),
                     z3.If(kind == 4, z3.And(t.g_col == 0, t.g_total == 0),
                           z3.And(t.g_col == s.g_col + k, t.g_total == s.g_total + k)))


@contract(f"{IX}.get_info", properties=("C03",))
class _:
    params = {"self": TRef("FastaIndex"), "name": STR}
    result = INFO
    raises = {"ValueError": lambda o: z3.Not(o.self.index.has(o.name))}
    ensures = staticmethod(lambda o, n, res: z3.And(o.self.index.has(o.name), res.same(o.self.index.get(o.name))))


def row_readable(idx, r):
    """a Fragment row lies within an indexed sequence"""
    info = idx.index.get(r.name)
    return z3.And(idx.index.has(r.name), layout(info), 1 <= r.start, r.end <= info.length)


@contract(f"{IX}.get_sequence_iter", properties=("C03", "C14"))
class _:
    # "reverse-complemented for minus-strand rows"
    params = {"self": TRef("FastaIndex"), "frag": FRAG}
    result = TList(BIO)
    result_zero_based = True

    @staticmethod
    def requires(o):
        return [("row-within-index", row_readable(o.self, o.frag)), ("buffer", o.self.buffer_size >= 1)]

    modifies = staticmethod(_chunk_modifies)
    raises = {"ValueError": lambda o: z3.Not(o.self.index.has(o.frag.name))}

    @staticmethod
    def ensures(o, n, res):
        B = o.self.buffer_size
        f = o.frag
        q, r = smt.define_divmod(f.end - f.start, B)
        return [
            ("count", res.len == q + 1),
            ("zero-based", res.lo == 0),
            # one quantified fact (no case split around the quantifier): kind 2 / last-first for the minus strand
            ("chunks", _chunks_are(res, res.len, z3.If(f.strand == -1, 2, 0), f.start, f.end, B,
                                   lambda k: z3.If(f.strand == -1, q - k, k), o.alloc)),
            ("fresh", res.z >= o.alloc),
        ]


ST = "tola.fasta.stream.FastaStream"


def rows_streamable(idx, rows):
    return forall(lambda k: z3.Implies(z3.And(0 <= k, k < rows.len),
                                       z3.If(rows[k].is_gap, rows[k].length >= 0, row_readable(idx, rows[k]))))


def _row_q(v):
    """number of full buffers before the last chunk of the current row: for a gap of length T, T // B; for a
    fragment, (end - start) // B - the same witnesses the chunk contracts use"""
    B = v.fai.buffer_size
    return smt.define_divmod(v.row.length, B)[0], smt.define_divmod(v.row.end - v.row.start, B)[0]


def _total_hints(T, B, k, qg, qf):
    out = []
    for q, last in ((qg, T), (qf, T - 1)):
        # k <= q and B*q <= last  ==>  k*B <= last
        out.append(z3.Implies(z3.And(0 <= k, k <= q, B >= 1, last >= B * q), k * B <= last))
    # first-to-last: Min(kB, T) + Min(B, T - kB) == Min((k+1)B, T)   when kB <= T
    out.append(z3.Implies(z3.And(0 <= k, k * B <= T, B >= 1), smt.Min(k * B, T) + smt.Min(B, T - k * B) == smt.Min((k + 1) * B, T)))
    # last-first: with j = qf - k the piece delivered next
    j = qf - k
    out.append(z3.Implies(z3.And(0 <= j, j * B <= T, B >= 1),
                          smt.Min((qf + 1 - k) * B, T) - smt.Min((qf + 1 - (k + 1)) * B, T) == smt.Min(B, T - j * B)))
    out.append(z3.Implies(z3.And(0 <= j, j <= qf, B >= 1, T - 1 >= B * qf), j * B <= T - 1))
    return out


def _ws_common(v):
    out = v.out
    L = v.line_length
    return out, L


@contract(f"{ST}.write_scaffold", properties=("C03", "C13"))
class _:
    params = {"self": TRef("FastaStream"), "scaffold": TRef("Scaffold")}
    result = NONE

    @staticmethod
    def requires(o):
        s = o.self
        return [
            ("line-length", z3.And(s.line_length >= 1, s.out.g_L == s.line_length, s.out.g_col == 0)),
            ("buffer", s.index.buffer_size >= 1),
            ("filler", z3.And(s.gap_character[0] == 1, s.gap_character[2] == 1)),
            ("rows-within-index", rows_streamable(s.index, o.scaffold.rows)),
        ]

    @staticmethod
    def modifies(o):
        fh = o.self.index.fasta_fileandle
        return ([("field", "BinOut", "g_col", o.self.out), ("field", "BinOut", "g_total", o.self.out)]
                + [("field", "FastaFH", f, fh) for f in ("pos", "g_info", "g_next")]
                + [("fresh-objs", "BytesIO", ["g_kind", "g_first", "g_n", "g_pos"]), ("fresh-lists", BIO), ("alloc",)])

    @staticmethod
    def ensures(o, n, res):
        # the record holds exactly as many residues as the scaffold is long, and ends with a complete line
        return [("record-length", n.self.out.g_total == o.scaffold.rows.cum(o.scaffold.rows.len)),
                ("complete-last-line", n.self.out.g_col == 0)]

    loops = {
        0: LoopSpec(  # rows
            kind="for",
            inv=lambda v, e, o: (lambda out, L, rows: [
                ("want", z3.And(1 <= v.want, v.want <= L, v.want == L - out.g_col, L == o.self.line_length, out.g_L == L)),
                ("total", out.g_total == rows.cum(v._it0)),
                ("counter", z3.And(0 <= v._it0, v._it0 <= rows.len)),
                ("same", z3.And(v.out.z == o.self.out.z, v.fai.z == o.self.index.z)),
            ])(v.out, v.line_length, o.scaffold.rows),
            frame=lambda v, e: {"$fresh-only": ["H.BytesIO.g_pos"]},
        ),
        1: LoopSpec(  # chunks of one row
            kind="for",
            inv=lambda v, e, o: (lambda out, L, B, T, qg, qf, k, rev: [
                ("want", z3.And(1 <= v.want, v.want <= L, v.want == L - out.g_col, L == o.self.line_length, out.g_L == L)),
                # residues of this row delivered by the first k chunks: chunks come first-to-last, except for a
                # minus-strand fragment whose pieces come last-first
                ("total", out.g_total == e.out.g_total + z3.If(rev, T - smt.Min((qf + 1 - k) * B, T), smt.Min(k * B, T))),
                ("counter", z3.And(0 <= k, k <= v.itr.len, v.itr.len == z3.If(v.row.is_gap, qg, qf) + 1, B >= 1)),
                ("chunk-objects-are-new", forall(lambda j: z3.Implies(z3.And(0 <= j, j < v.itr.len), v.itr[j].z >= z3.Int("alloc@0")))),
                ("same", z3.And(v.out.z == o.self.out.z, v.fai.z == o.self.index.z, v.itr.same(e.itr))),
            ])(v.out, v.line_length, v.fai.buffer_size, v.row.length, *_row_q(v), v._it1, z3.And(v.row.is_frag, v.row.strand == -1)),
            # lemma instances about the closed form of the running total (each proved on its own, then used)
            hints=lambda v: {"total": _total_hints(v.row.length, v.fai.buffer_size, v._it1, *_row_q(v))},
            frame=lambda v, e: {"$fresh-only": ["H.BytesIO.g_pos"]},
        ),
        2: LoopSpec(  # pieces of one chunk
            kind="while",
            inv=lambda v, e, o: (lambda out, L, c: [
                ("want-range", z3.And(1 <= v.want, v.want <= L)),
                ("want-col", v.want == L - out.g_col),
                ("L", z3.And(L == o.self.line_length, out.g_L == L)),
                ("consumed", z3.And(0 <= c.g_pos, c.g_pos <= c.g_n, out.g_total == e.out.g_total + c.g_pos)),
                ("chunk", z3.And(c.g_n == e.chunk.g_n, c.g_kind == e.chunk.g_kind, v.chunk.z == e.chunk.z)),
                # what the chunk contracts say about this chunk, carried along (no quantifier needed afterwards)
                ("chunk-facts", z3.And(z3.Or(c.g_kind == 0, c.g_kind == 1, c.g_kind == 2), c.g_n >= 0, c.z >= z3.Int("alloc@0"))),
                ("same", v.out.z == o.self.out.z),
            ])(v.out, v.line_length, v.chunk),
            variant=lambda v: v.chunk.g_n - v.chunk.g_pos,
            frame=lambda v, e: {"$fresh-only": ["H.BytesIO.g_pos"]},
        ),
    }


@contract(f"{ST}.write_assembly", properties=("C03",))
class _:
    # "the record set and order equal the scaffold set and order": one write_scaffold per scaffold, in order
    params = {"self": TRef("FastaStream"), "assembly": TRef("Assembly")}
    result = NONE

    @staticmethod
    def requires(o):
        s = o.self
        scs = o.assembly.scaffolds
        return [
            ("line-length", z3.And(s.line_length >= 1, s.out.g_L == s.line_length, s.out.g_col == 0)),
            ("buffer", s.index.buffer_size >= 1),
            ("filler", z3.And(s.gap_character[0] == 1, s.gap_character[2] == 1)),
            ("rows-within-index", forall(lambda j: z3.Implies(z3.And(0 <= j, j < scs.len), rows_streamable(s.index, scs[j].rows)))),
        ]

    @staticmethod
    def modifies(o):
        fh = o.self.index.fasta_fileandle
        return ([("field", "BinOut", "g_col", o.self.out), ("field", "BinOut", "g_total", o.self.out)]
                + [("field", "FastaFH", f, fh) for f in ("pos", "g_info", "g_next")]
                + [("fresh-objs", "BytesIO", ["g_kind", "g_first", "g_n", "g_pos"]), ("fresh-lists", BIO), ("alloc",)])

    @staticmethod
    def ensures(o, n, res):
        return [("complete-last-line", n.self.out.g_col == 0)]

    loops = {
        0: LoopSpec(
            kind="for",
            iter_src="assembly.scaffolds",
            inv=lambda v, e, o: [("col", v.self.out.g_col == 0), ("same", z3.And(v.self.z == o.self.z, v.assembly.z == o.assembly.z))],
            # one record per scaffold, in scaffold order, as long as the scaffold
            iter_post=lambda v, b, e: [("record-of-this-scaffold", v.self.out.g_total == b.scffld.rows.cum(b.scffld.rows.len))],
        )
    }


# --- C04: the index record ----------------------------------------------------------------------------

FI_ = "tola.fasta.index.FastaInfo"


@contract(f"{FI_}.__init__", kind="init", properties=("C04",))
class _:
    # "the faidx quintuple (name, residue count, byte offset of the first residue, residues per full line,
    #  bytes per full line including its terminator)": the four numbers are stored as given
    params = {"self": INFO, "length": INT, "file_offset": INT, "residues_per_line": INT, "max_line_length": INT}
    modifies = staticmethod(lambda o: [("field", "FastaInfo", f, o.self) for f in ("length", "file_offset", "residues_per_line", "max_line_length")])

    @staticmethod
    def ensures(o, n, res):
        s = n.self
        return z3.And(s.length == o.length, s.file_offset == o.file_offset, s.residues_per_line == o.residues_per_line, s.max_line_length == o.max_line_length)


@contract("tola.fasta.simple.FastaSeq.__init__", kind="init", status="TRUSTED")
class _:
    # three plain attribute assignments; the bytes value is kept as ghost fields (heap maps hold no abstract bytes)
    params = {"self": TRef("FastaSeq"), "name": STR, "sequence": BYTES, "description": TOpt(STR)}
    defaults = {"description": None}
    modifies = staticmethod(lambda o: [("field", "FastaSeq", f, o.self) for f in ("name", "g_kind", "g_first", "g_n")])

    @staticmethod
    def ensures(o, n, res):
        s, b = n.self, o.sequence
        return z3.And(s.name == o.name, s.g_kind == b[0], s.g_first == b[1], s.g_n == b[2])


@contract(f"{IX}.get_fasta_seq", properties=("C04",))
class _:
    # whole-record access: "returns exactly those residues" for the interval 1..length, and no residues for a record
    # that has none (such a record has no line width: sequence_bytes may not be asked, its precondition is checked here)
    params = {"self": TRef("FastaIndex"), "name": STR}
    result = TRef("FastaSeq")

    @staticmethod
    def requires(o):
        info = o.self.index.get(o.name)
        # what index_fasta_file establishes of every entry (quintuple): a usable layout, or a record without lines
        return [("entry-as-indexed", z3.Implies(o.self.index.has(o.name), z3.And(info.length >= 0, z3.Or(info.length == 0, layout(info)))))]

    raises = {"ValueError": lambda o: z3.Not(o.self.index.has(o.name))}

    @staticmethod
    def modifies(o):
        fh = o.self.fasta_fileandle
        return [("field", "FastaFH", f, fh) for f in ("pos", "g_info", "g_next")] + [
            ("fresh-objs", "BytesIO", ["g_kind", "g_first", "g_n", "g_pos"]), ("fresh-objs", "FastaSeq", ["name", "g_kind", "g_first", "g_n"]), ("alloc",)]

    @staticmethod
    def ensures(o, n, res):
        info = o.self.index.get(o.name)
        return [
            ("name", res.name == o.name),
            ("all-residues-of-the-record", z3.And(res.g_n == info.length, z3.Implies(info.length > 0, z3.And(res.g_kind == 0, res.g_first == 0)))),
            ("fresh", z3.And(res.z >= o.alloc, res.z < n.alloc)),
        ]
