"""
Contracts for tola.assembly.overlap_result.OverlapResult (C18, C12, C02).
"""

import z3

from pyvc import smt
from pyvc.spec import LoopSpec, contract, forall, forall2
from pyvc.values import BOOL, FRAG, GAP, INT, NONE, ROW, STR, TList, TOpt, TRef, TSet

from .scaffold import fresh_list, same_repr, same_rows, scaffold_fields

M = "tola.assembly.overlap_result.OverlapResult"
OR = TRef("OverlapResult")


@contract(f"{M}.__init__", kind="init", properties=("C12", "C18"))
class _:
    params = {
        "self": OR,
        "bait": FRAG,
        "rows": TList(ROW),
        "start": INT,
        "end": INT,
        "name": TOpt(STR),
        "tag": TOpt(STR),
        "haplotype": TOpt(STR),
        "rank": TOpt(INT),
        "original_name": TOpt(STR),
    }

    @staticmethod
    def modifies(o):
        return (
            [("field", "OverlapResult", f, o.self) for f in scaffold_fields() + ["bait", "start", "end"]]
            + [("fresh-lists", ROW), ("alloc",)]
        )

    @staticmethod
    def ensures(o, n, res):
        s = n.self
        return [
            ("span", z3.And(s.start == o.start, s.end == o.end)),
            ("bait", s.bait.z == o.bait.z),
            ("rows-fresh", fresh_list(o, n, s.rows)),
            ("rows-copied", same_rows(s.rows, o.rows)),
            ("rows-copied-repr", z3.If(o.rows.len == 0, s.rows.len == 0, same_repr(s.rows, o.rows))),
            ("meta", z3.And(s.tag.z == o.tag.z, s.haplotype.z == o.haplotype.z, s.rank.z == o.rank.z,
                            s.original_name.z == o.original_name.z, s.original_tags.is_none)),
            ("alloc-grows", n.alloc >= o.alloc),
        ]


def _prop(name, fn, props=("C18",)):
    @contract(f"{M}.{name}", kind="property", properties=props)
    class _:
        params = {"self": OR}
        result = INT
        pure = staticmethod(lambda o, self: fn(self))


# "the reported overhangs and bait overlaps equal the plain interval arithmetic between span,
#  first/last row and bait"
_prop("length", lambda s: s.end - s.start + 1, ("C18", "C12"))
_prop("start_overhang", lambda s: s.bait.start - s.start)
_prop("end_overhang", lambda s: s.end - s.bait.end)
_prop("length_error", lambda s: (s.end - s.start + 1) - s.bait.length)


def isect_size(a_lo, a_hi, b_lo, b_hi):
    size = smt.Min(a_hi, b_hi) - smt.Max(a_lo, b_lo) + 1
    return z3.If(size < 0, 0, size)


@contract(f"{M}.start_row_bait_overlap", kind="property", properties=("C18", "C02"))
class _:
    params = {"self": OR}
    result = INT
    requires = staticmethod(lambda o: o.self.rows.len > 0)
    # |bait ∩ scaffold span of the first row|, the first row spanning [start, start + len - 1]
    pure = staticmethod(
        lambda o, s: isect_size(s.bait.start, s.bait.end, s.start, s.start + s.rows[0].length - 1)
    )
    raises = {}


@contract(f"{M}.end_row_bait_overlap", kind="property", properties=("C18", "C02"))
class _:
    params = {"self": OR}
    result = INT
    requires = staticmethod(lambda o: o.self.rows.len > 0)
    pure = staticmethod(
        lambda o, s: isect_size(s.bait.start, s.bait.end, s.end - s.rows[-1].length + 1, s.end)
    )


# =========================================================================================
# C18: "the reported start..end span always equals the scaffold coordinates covered by the remaining
# rows, the rows remain a contiguous run of the source scaffold in which only the terminal fragments
# may have been shortened, no terminal gap is left behind"
#
# Ghost state of an OverlapResult: g_src (the row list of the scaffold it was cut from), the window
# g_lo..g_hi of source rows it still covers and how many bases were trimmed from the scaffold-start
# side of the first row (g_ts) and from the scaffold-end side of the last row (g_te).


def valid_src(src):
    return forall(lambda k: z3.Implies(z3.And(0 <= k, k < src.len), src[k].length >= 1))


def shortened(r, s, a, b):
    """row r is source row s with a bases removed on the scaffold-start side and b on the scaffold-end
    side (which fragment coordinate moves depends on the strand, as in trim_fragment)"""
    return z3.Or(
        z3.And(r.z == s.z, a == 0, b == 0),
        z3.And(
            r.is_frag, s.is_frag, r.name == s.name, r.strand == s.strand, a >= 0, b >= 0,
            z3.If(s.strand == 1,
                  z3.And(r.start == s.start + a, r.end == s.end - b),
                  z3.And(r.start == s.start + b, r.end == s.end - a)),
        ),
    )


def wf(s, stamp=None, src=None):
    """stamp: allocation stamp of the state wf is evaluated in (every Fragment object reachable from the
    result was created before it); defaults to the stamp of the view's own state.
    src: view of the source row list to read (default: s.g_src in s's own state).  Postconditions pass
    the pre-state view - the source list is never written (clause `source_untouched`), and reading it
    through the pre-state keeps store chains out of the quantified formulas."""
    stamp = s.st.ralloc if stamp is None else stamp
    rows = s.rows
    src = s.g_src if src is None else src
    lo, hi, ts, te = s.g_lo, s.g_hi, s.g_ts, s.g_te
    n = rows.len
    nonempty = z3.And(
        0 <= lo, lo <= hi, hi < src.len, n == hi - lo + 1, ts >= 0, te >= 0,
        forall(lambda k: z3.Implies(z3.And(0 < k, k < n - 1), rows[k].z == src[lo + k].z)),
        z3.If(
            n == 1,
            shortened(rows[0], src[lo], ts, te),
            z3.And(shortened(rows[0], src[lo], ts, 0), shortened(rows[n - 1], src[hi], 0, te)),
        ),
        s.start == 1 + src.cum(lo) + ts,
        s.end == src.cum(hi + 1) - te,
        rows[0].is_frag,
        rows[n - 1].is_frag,
        # identity: the terminal rows are objects that existed before `stamp`, and two different
        # positions never hold the same Fragment object
        rows[0].oid < stamp,
        rows[n - 1].oid < stamp,
        z3.Implies(n > 1, rows[0].z != rows[n - 1].z),
        forall(lambda k: z3.Implies(z3.And(0 < k, k < n - 1), z3.And(rows[0].z != src[lo + k].z, rows[n - 1].z != src[lo + k].z))),
    )
    return z3.And(valid_src(src), distinct_frags(src, stamp), z3.Not(rows.same(src)), n >= 0,
                  z3.If(n == 0, s.start == s.end + 1, nonempty))


def wf_parts(s, prefix="wf", src=None):
    """the conjuncts of wf with labels (one obligation each)"""
    f = wf(s, src=src)
    out = []

    def walk(g, path):
        if z3.is_and(g):
            for i, c in enumerate(g.children()):
                walk(c, f"{path}.{i}")
        elif z3.is_app_of(g, z3.Z3_OP_ITE) and z3.is_bool(g):
            c, a, b = g.children()
            walk(z3.Implies(c, a), path + ".then")
            walk(z3.Implies(z3.Not(c), b), path + ".else")
        elif z3.is_implies(g) and z3.is_and(g.arg(1)):
            for i, c in enumerate(g.arg(1).children()):
                walk(z3.Implies(g.arg(0), c), f"{path}.{i}")
        else:
            out.append((path, g))

    walk(f, prefix)
    return out


def distinct_frags(src, stamp):
    """input validity of the source scaffold: it does not list the same Fragment object twice"""
    return z3.And(
        forall2(lambda i, j: z3.Implies(z3.And(0 <= i, i < j, j < src.len, src[i].is_frag), src[i].z != src[j].z)),
        forall(lambda k: z3.Implies(z3.And(0 <= k, k < src.len, src[k].is_frag), src[k].oid < stamp)),
    )


GHOSTS = ["g_src", "g_lo", "g_hi", "g_ts", "g_te"]


def set_ghost(st, ref, **vals):
    from pyvc.spec import field_map, unview

    for attr, val in vals.items():
        name, m, ty = field_map(st, "OverlapResult", attr)
        st.heap[name] = z3.Store(m, unview(ref), unview(val))


def ghost_same(o, n, names):
    return z3.And(*[getattr(n.self, g) == getattr(o.self, g) if g != "g_src" else n.self.g_src.same(o.self.g_src) for g in names])


def source_untouched(o, n):
    """the source scaffold's row list is not written by any OverlapResult operation"""
    a, b = o.self.g_src, n.self.g_src
    return z3.And(b.same(a), b.arr == a.arr, b.lo == a.lo, b.hi == a.hi)


@contract(f"{M}.discard_start", properties=("C18", "C01", "C07"))
class _:
    escalate = ("C18", "C07")
    params = {"self": OR}
    result = NONE

    @staticmethod
    def requires(o):
        return [("wf", wf(o.self)), ("nonempty", o.self.rows.len > 0)]

    @staticmethod
    def modifies(o):
        return [("list", ROW, o.self.rows), ("field", "OverlapResult", "start", o.self),
                ("field", "OverlapResult", "g_lo", o.self), ("field", "OverlapResult", "g_ts", o.self)]

    @staticmethod
    def ghost_exit(o, n, res, st):
        set_ghost(st, n.self, g_lo=o.self.g_lo + (o.self.rows.len - n.self.rows.len), g_ts=z3.IntVal(0))

    @staticmethod
    def ensures(o, n, res):
        src = o.self.g_src
        return [
            ("wf", wf(n.self, src=o.self.g_src)),
            ("ghost", z3.And(ghost_same(o, n, ["g_src", "g_hi", "g_te"]), source_untouched(o, n))),
            ("shrinks", z3.And(n.self.rows.len < o.self.rows.len, n.self.g_lo == o.self.g_lo + (o.self.rows.len - n.self.rows.len))),
            ("only-gaps-skipped", forall(lambda k: z3.Implies(z3.And(1 <= k, k < o.self.rows.len - n.self.rows.len), o.self.rows[k].is_gap))),
            ("suffix", z3.And(n.self.rows.same(o.self.rows), n.self.rows.arr == o.self.rows.arr, n.self.rows.hi == o.self.rows.hi)),
            ("untrimmed-start", z3.Implies(n.self.rows.len > 0, n.self.g_ts == 0)),
            ("end-bait", z3.And(n.self.end == o.self.end, n.self.bait.z == o.self.bait.z)),
        ]

    loops = {
        0: LoopSpec(
            kind="while",
            inv=lambda v, e, o: (lambda rows, R0, src, lo0, n0, p: [
                ("list", z3.And(rows.same(R0), rows.arr == R0.arr, rows.hi == R0.hi)),
                ("popped", z3.And(1 <= p, p <= n0)),
                ("gaps", forall(lambda k: z3.Implies(z3.And(1 <= k, k < p), R0[k].is_gap))),
                ("start", v.self.start == 1 + src.cum(lo0 + p) - z3.If(n0 == 1, o.self.g_te, 0)),
            ])(v.self.rows, o.self.rows, o.self.g_src, o.self.g_lo, o.self.rows.len, v.self.rows.lo - o.self.rows.lo),
            variant=lambda v: v.self.rows.len,
        )
    }


@contract(f"{M}.discard_end", properties=("C18", "C01", "C07"))
class _:
    escalate = ("C18", "C07")
    params = {"self": OR}
    result = NONE

    @staticmethod
    def requires(o):
        return [("wf", wf(o.self)), ("nonempty", o.self.rows.len > 0)]

    @staticmethod
    def modifies(o):
        return [("list", ROW, o.self.rows), ("field", "OverlapResult", "end", o.self),
                ("field", "OverlapResult", "g_hi", o.self), ("field", "OverlapResult", "g_te", o.self)]

    @staticmethod
    def ghost_exit(o, n, res, st):
        set_ghost(st, n.self, g_hi=o.self.g_hi - (o.self.rows.len - n.self.rows.len), g_te=z3.IntVal(0))

    @staticmethod
    def ensures(o, n, res):
        src = o.self.g_src
        return [
            ("wf", wf(n.self, src=o.self.g_src)),
            ("ghost", z3.And(ghost_same(o, n, ["g_src", "g_lo", "g_ts"]), source_untouched(o, n))),
            ("shrinks", z3.And(n.self.rows.len < o.self.rows.len, n.self.g_hi == o.self.g_hi - (o.self.rows.len - n.self.rows.len))),
            ("only-gaps-skipped", forall(lambda k: z3.Implies(z3.And(1 <= k, k < o.self.rows.len - n.self.rows.len), o.self.rows[o.self.rows.len - 1 - k].is_gap))),
            ("prefix", z3.And(n.self.rows.same(o.self.rows), n.self.rows.arr == o.self.rows.arr, n.self.rows.lo == o.self.rows.lo)),
            ("untrimmed-end", z3.Implies(n.self.rows.len > 0, n.self.g_te == 0)),
            ("start-bait", z3.And(n.self.start == o.self.start, n.self.bait.z == o.self.bait.z)),
        ]

    loops = {
        0: LoopSpec(
            kind="while",
            inv=lambda v, e, o: (lambda rows, R0, src, hi0, n0, p: [
                ("list", z3.And(rows.same(R0), rows.arr == R0.arr, rows.lo == R0.lo)),
                ("popped", z3.And(1 <= p, p <= n0)),
                ("gaps", forall(lambda k: z3.Implies(z3.And(1 <= k, k < p), R0[n0 - 1 - k].is_gap))),
                ("end", v.self.end == src.cum(hi0 + 1 - p) + z3.If(n0 == 1, o.self.g_ts, 0)),
            ])(v.self.rows, o.self.rows, o.self.g_src, o.self.g_hi, o.self.rows.len, o.self.rows.hi - v.self.rows.hi),
            variant=lambda v: v.self.rows.len,
        )
    }


def start_overlap(s):
    return isect_size(s.bait.start, s.bait.end, s.start, s.start + s.rows[0].length - 1)


def end_overlap(s):
    return isect_size(s.bait.start, s.bait.end, s.end - s.rows[-1].length + 1, s.end)


@contract(f"{M}.trim_large_overhangs", properties=("C18", "C02"))
class _:
    params = {"self": OR, "err_length": INT}
    result = NONE

    @staticmethod
    def requires(o):
        return [("wf", wf(o.self)), ("nonempty", o.self.rows.len > 0)]

    @staticmethod
    def modifies(o):
        return [("list", ROW, o.self.rows), ("field", "OverlapResult", "start", o.self), ("field", "OverlapResult", "end", o.self),
                ("field", "OverlapResult", "g_lo", o.self), ("field", "OverlapResult", "g_ts", o.self),
                ("field", "OverlapResult", "g_hi", o.self), ("field", "OverlapResult", "g_te", o.self)]

    @staticmethod
    def ensures(o, n, res):
        s = o.self
        e = o.err_length
        keep_single = z3.And(s.rows.len == 1, s.bait.length > e)
        # C02: "discards a terminal row iff its overhang exceeds the error length and its overlap with
        # the bait is shorter than the error length"
        d_start = z3.And(z3.Not(keep_single), s.bait.start - s.start > e, start_overlap(s) < e)
        return [
            ("wf", wf(n.self, src=o.self.g_src)),
            ("ghost", z3.And(ghost_same(o, n, ["g_src"]), source_untouched(o, n))),
            ("start-row-discarded-iff", (n.self.g_lo != s.g_lo) == d_start),
            ("end-untouched-when-kept", z3.Implies(keep_single, z3.And(n.self.end == s.end, n.self.rows.len == 1))),
            ("end-row-discarded-only-if-overhanging", z3.Implies(n.self.g_hi != s.g_hi, z3.And(z3.Not(keep_single), s.end - s.bait.end > e))),
            # the same rule at the other end, applied to what is left after the start row went (nothing, if it was the only row)
            ("end-row-discarded-iff", (n.self.g_hi != s.g_hi) == z3.And(z3.Not(keep_single), z3.Not(z3.And(d_start, s.rows.len == 1)),
                                                                        s.end - s.bait.end > e, end_overlap(s) < e)),
            ("same-list", n.self.rows.same(s.rows)),
            ("bait", n.self.bait.z == s.bait.z),
        ]


@contract(f"{M}.fragment_start_if_trimmed", properties=("C18", "C02"))
class _:
    params = {"self": OR, "frag": FRAG}
    result = INT

    @staticmethod
    def requires(o):
        return o.self.rows.len > 0

    @staticmethod
    def pure(o, s, f):
        first, last = s.rows[0].z == f.z, s.rows[-1].z == f.z
        # the start coordinate trim_fragment(frag) gives when the whole overhang on that side is cut
        return z3.If(z3.And(f.strand == 1, first), f.start + (s.bait.start - s.start),
                     z3.If(z3.And(f.strand != 1, last), f.start + (s.end - s.bait.end), f.start))


@contract(f"{M}.trim_fragment", properties=("C18", "C02", "C01"))
class _:
    params = {"self": OR, "trim": FRAG, "keep_start": BOOL, "keep_end": BOOL}
    result = FRAG

    @staticmethod
    def requires(o):
        # the interval arithmetic of the cut needs only a non-empty result; the representation invariant is
        # preserved if it held (clauses wf.*)
        return [("nonempty", o.self.rows.len > 0)]

    @staticmethod
    def modifies(o):
        return [("list", ROW, o.self.rows), ("field", "OverlapResult", "start", o.self), ("field", "OverlapResult", "end", o.self),
                ("field", "OverlapResult", "g_ts", o.self), ("field", "OverlapResult", "g_te", o.self), ("ralloc",)]

    @staticmethod
    def cuts(o):
        s, t = o.self, o.trim
        first, last = s.rows[0].z == t.z, s.rows[-1].z == t.z
        so0, eo0 = s.bait.start - s.start, s.end - s.bait.end
        so = z3.If(z3.And(first, so0 > 0, z3.Not(o.keep_start)), so0, 0)
        eo = z3.If(z3.And(last, eo0 > 0, z3.Not(o.keep_end)), eo0, 0)
        return first, last, so, eo

    # "sequences the operations accept": refused when the fragment is not terminal or nothing would be left
    raises = {
        "ValueError": lambda o: (lambda first, last, so, eo: z3.Or(z3.And(z3.Not(first), z3.Not(last)), o.trim.length - so - eo < 1))(
            *REGISTRY_CUTS(o)
        )
    }

    @staticmethod
    def ghost_exit(o, n, res, st):
        first, last, so, eo = REGISTRY_CUTS(o)
        set_ghost(st, n.self, g_ts=o.self.g_ts + so, g_te=o.self.g_te + eo)

    @staticmethod
    def ensures(o, n, res):
        s, t = o.self, o.trim
        first, last, so, eo = REGISTRY_CUTS(o)
        rows0, rows1 = s.rows, n.self.rows
        pos = z3.If(last, rows0.len - 1, 0)
        return [
            ("terminal", z3.Or(first, last)),
            ("piece", z3.And(res.is_frag, res.name == t.name, res.strand == t.strand,
                             z3.If(t.strand == 1,
                                   z3.And(res.start == t.start + so, res.end == t.end - eo),
                                   z3.And(res.start == t.start + eo, res.end == t.end - so)))),
            ("sub-interval", z3.And(t.start <= res.start, res.end <= t.end)),
            ("span", z3.And(n.self.start == s.start + so, n.self.end == s.end - eo)),
            # C02: "a cut point ... splits the contig exactly at the position the Pretext coordinate designates"
            ("cut-to-bait", z3.And(z3.Implies(so > 0, n.self.start == s.bait.start), z3.Implies(eo > 0, n.self.end == s.bait.end))),
            ("rows", z3.And(rows1.same(rows0), rows1.len == rows0.len, rows1.lo == rows0.lo, rows1[pos].z == res.z,
                            forall(lambda k: z3.Implies(z3.And(0 <= k, k < rows0.len, k != pos), rows1[k].z == rows0[k].z)))),
            ("cut-tag", z3.Contains(res.tags, z3.Unit(z3.StringVal("Cut")))),
            ("new-object", z3.And(res.oid >= o.ralloc, res.oid < n.ralloc)),
            *[(lbl, z3.Implies(wf(o.self), f)) for lbl, f in wf_parts(n.self, src=o.self.g_src)],
            ("ghost", z3.And(ghost_same(o, n, ["g_src", "g_lo", "g_hi"]), z3.Implies(wf(o.self), source_untouched(o, n)),
                             n.self.g_ts == s.g_ts + so, n.self.g_te == s.g_te + eo)),
            ("bait", n.self.bait.z == s.bait.z),
        ]


def REGISTRY_CUTS(o):
    from pyvc.spec import REGISTRY

    return REGISTRY[f"{M}.trim_fragment"].cuts(o)


@contract(f"{M}.to_scaffold", properties=("C14", "C02", "C07"))
class _:
    params = {"self": OR}
    result = TRef("Scaffold")

    @staticmethod
    def modifies(o):
        return [("fresh-objs", "Scaffold", scaffold_fields()), ("fresh-lists", ROW), ("alloc",), ("ralloc",)]

    @staticmethod
    def ensures(o, n, res):
        from .scaffold import reversed_of

        s = o.self
        # C02: "oriented as input orientation x piece orientation": reversed iff the bait is on the minus strand
        return [
            ("rows", z3.If(s.bait.strand == -1, reversed_of(res.rows, s.rows), same_rows(res.rows, s.rows))),
            ("fresh", z3.And(res.z >= o.alloc, res.rows.z >= o.alloc)),
            ("name", res.name == s.name),
            ("self-untouched", z3.And(n.self.rows.same(s.rows), n.self.rows.len == s.rows.len, n.self.rows.arr == s.rows.arr, n.self.rows.lo == s.rows.lo)),
        ]


def first_contig_after(s, j):
    """j is the position of the first fragment row after row 0 (or the row count if there is none)"""
    rows = s.rows
    return z3.And(1 <= j, j <= rows.len,
                  forall(lambda k: z3.Implies(z3.And(1 <= k, k < j), rows[k].is_gap)),
                  z3.Or(j == rows.len, rows[j].is_frag))


@contract(f"{M}.overhang_if_start_removed", properties=("C18", "C02"))
class _:
    params = {"self": OR}
    result = INT
    ghost_locals = {"g_j": INT}

    @staticmethod
    def requires(o):
        return [("wf", wf(o.self)), ("nonempty", o.self.rows.len > 0)]

    @staticmethod
    def modifies(o):
        return [("alloc",), ("fresh-lists", ROW)]

    @staticmethod
    def ghost_exit(o, n, res, st):
        from pyvc.values import Val, INT as _INT

        st.frames[0].vars["g_j"] = Val(_INT, n.raw("_it0").z + 1)

    @staticmethod
    def ensures(o, n, res):
        s = o.self
        j = n.g_j
        src, lo = s.g_src, s.g_lo
        # "overhang_if_start_removed == bait.start - start' where start' is the start discard_start would
        #  leave": start' = scaffold coordinate of the first contig row after the first row
        return [
            ("first-contig", first_contig_after(s, j)),
            ("value", res == s.bait.start - (1 + src.cum(lo + j) - z3.If(s.rows.len == 1, s.g_te, 0))),
            ("self-untouched", z3.And(n.self.rows.same(s.rows), n.self.rows.arr == s.rows.arr, n.self.rows.lo == s.rows.lo,
                                      n.self.rows.hi == s.rows.hi, n.self.start == s.start, n.self.end == s.end)),
        ]

    loops = {
        0: LoopSpec(
            kind="for",
            inv=lambda v, e, o: (lambda s, it: [
                ("counter", z3.And(0 <= it, it <= s.rows.len - 1)),
                ("gaps", forall(lambda k: z3.Implies(z3.And(1 <= k, k < it + 1), s.rows[k].is_gap))),
                ("start", v.start == 1 + s.g_src.cum(s.g_lo + 1 + it) - z3.If(s.rows.len == 1, s.g_te, 0)),
            ])(o.self, v._it0),
        )
    }


def last_contig_before(s, j):
    """j rows from the end: the first fragment row before the last row (or the row count)"""
    rows = s.rows
    n = rows.len
    return z3.And(1 <= j, j <= n,
                  forall(lambda k: z3.Implies(z3.And(1 <= k, k < j), rows[n - 1 - k].is_gap)),
                  z3.Or(j == n, rows[n - 1 - j].is_frag))


@contract(f"{M}.overhang_if_end_removed", properties=("C18", "C02"))
class _:
    params = {"self": OR}
    result = INT
    ghost_locals = {"g_j": INT}

    @staticmethod
    def requires(o):
        return [("wf", wf(o.self)), ("nonempty", o.self.rows.len > 0)]

    @staticmethod
    def modifies(o):
        return [("alloc",), ("fresh-lists", ROW)]

    @staticmethod
    def ghost_exit(o, n, res, st):
        from pyvc.values import Val, INT as _INT

        st.frames[0].vars["g_j"] = Val(_INT, n.raw("_it0").z + 1)

    @staticmethod
    def ensures(o, n, res):
        s = o.self
        j = n.g_j
        src, hi = s.g_src, s.g_hi
        return [
            ("last-contig", last_contig_before(s, j)),
            ("value", res == (src.cum(hi + 1 - j) + z3.If(s.rows.len == 1, s.g_ts, 0)) - s.bait.end),
            ("self-untouched", z3.And(n.self.rows.same(s.rows), n.self.rows.arr == s.rows.arr, n.self.rows.lo == s.rows.lo,
                                      n.self.rows.hi == s.rows.hi, n.self.start == s.start, n.self.end == s.end)),
        ]

    loops = {
        0: LoopSpec(
            kind="for",
            inv=lambda v, e, o: (lambda s, it: [
                ("counter", z3.And(0 <= it, it <= s.rows.len - 1)),
                ("gaps", forall(lambda k: z3.Implies(z3.And(1 <= k, k < it + 1), s.rows[s.rows.len - 1 - k].is_gap))),
                ("end", v.end == s.g_src.cum(s.g_hi - it) + z3.If(s.rows.len == 1, s.g_ts, 0)),
            ])(o.self, v._it0),
        )
    }


# --- the what-if wrappers OverhangResolver works with (build_utils.py) -----------------------------------------------------
# C18: "the overhang, bait-overlap and what-if properties equal interval arithmetic" - also when read through a premise

U = "tola.assembly.build_utils"
SP, EP = TRef("StartOverhangPremise"), TRef("EndOverhangPremise")


@contract(f"{U}.StartOverhangPremise.bait_overlap", kind="property", properties=("C18", "C01"))
class _:
    params = {"self": SP}
    result = INT
    requires = staticmethod(lambda o: o.self.scaffold.rows.len > 0)
    pure = staticmethod(lambda o, p: (lambda s: isect_size(s.bait.start, s.bait.end, s.start, s.start + s.rows[0].length - 1))(p.scaffold))


@contract(f"{U}.EndOverhangPremise.bait_overlap", kind="property", properties=("C18", "C01"))
class _:
    params = {"self": EP}
    result = INT
    requires = staticmethod(lambda o: o.self.scaffold.rows.len > 0)
    pure = staticmethod(lambda o, p: (lambda s: isect_size(s.bait.start, s.bait.end, s.end - s.rows[-1].length + 1, s.end))(p.scaffold))


def _witness(n, start):
    """the ghost position the what-if methods of OverlapResult report (first contig after the first row / before the
    last row), as named by the engine at the call; None when the call was not made on this path"""
    v = n.raw("g_j@OverlapResult.overhang_if_start_removed" if start else "g_j@OverlapResult.overhang_if_end_removed")
    return None if v is None else v.z


def _export_witness(n, st, start):
    v = n.raw("g_j@OverlapResult.overhang_if_start_removed" if start else "g_j@OverlapResult.overhang_if_end_removed")
    if v is not None:
        st.frames[0].vars["g_j"] = v


def _whatif_terms(s, j, start):
    now = (s.bait.start - s.start) if start else (s.end - s.bait.end)
    if start:
        then = s.bait.start - (1 + s.g_src.cum(s.g_lo + j) - z3.If(s.rows.len == 1, s.g_te, 0))
        where = first_contig_after(s, j)
    else:
        then = (s.g_src.cum(s.g_hi + 1 - j) + z3.If(s.rows.len == 1, s.g_ts, 0)) - s.bait.end
        where = last_contig_before(s, j)
    return now, then, where


def _premise_whatif(cls, ty, start):
    @contract(f"{U}.{cls}.overhang_if_applied", kind="property", properties=("C18", "C01"))
    class _:
        params = {"self": ty}
        result = INT
        ghost_locals = {"g_j": INT}
        requires = staticmethod(lambda o: [("wf", wf(o.self.scaffold)), ("nonempty", o.self.scaffold.rows.len > 0)])
        modifies = staticmethod(lambda o: [("alloc",), ("fresh-lists", ROW)])
        ghost_exit = staticmethod(lambda o, n, res, st: _export_witness(n, st, start))

        @staticmethod
        def ensures(o, n, res):
            s = o.self.scaffold
            j = _witness(n, start)
            if j is None and n.raw("g_j") is not None:
                j = n.g_j
            if j is None:
                j0 = z3.Int("j!whatif")
                now, then, where = _whatif_terms(s, j0, start)
                return [("value-of-the-what-if", z3.Exists([j0], z3.And(where, res == then)))]
            now, then, where = _whatif_terms(s, j, start)
            return [("value-of-the-what-if", z3.And(where, res == then))]

    @contract(f"{U}.{cls}.overhang_error_delta_if_applied", kind="property", properties=("C18", "C01"))
    class _:
        params = {"self": ty}
        result = INT
        ghost_locals = {"g_j": INT}
        requires = staticmethod(lambda o: [("wf", wf(o.self.scaffold)), ("nonempty", o.self.scaffold.rows.len > 0)])
        modifies = staticmethod(lambda o: [("alloc",), ("fresh-lists", ROW)])
        ghost_exit = staticmethod(lambda o, n, res, st: _export_witness(n, st, start))

        @staticmethod
        def ensures(o, n, res):
            s = o.self.scaffold
            j = _witness(n, start)
            if j is None and n.raw("g_j") is not None:
                j = n.g_j
            if j is None:
                j0 = z3.Int("j!whatif")
                now, then, where = _whatif_terms(s, j0, start)
                return [("change-of-the-absolute-overhang", z3.Exists([j0], z3.And(where, res == smt.Abs(then) - smt.Abs(now))))]
            now, then, where = _whatif_terms(s, j, start)
            return [("change-of-the-absolute-overhang", z3.And(where, res == smt.Abs(then) - smt.Abs(now)))]


_premise_whatif("StartOverhangPremise", SP, True)
_premise_whatif("EndOverhangPremise", EP, False)


@contract(f"{U}.OverhangPremise.improves", properties=("C18", "C01", "C02"))
class _:
    # removing the terminal contig is an improvement iff more than one row is left, the absolute overhang shrinks and
    # the overhang left behind is not a large negative one (more than three error lengths: that contig is cut instead)
    params = {"self": TRef("OverhangPremise"), "err_length": INT}
    result = BOOL
    requires = staticmethod(lambda o: [("wf", wf(o.self.scaffold)), ("nonempty", o.self.scaffold.rows.len > 0),
                                       ("a-start-or-an-end-premise", z3.Or(o.self.isinstance("StartOverhangPremise"), o.self.isinstance("EndOverhangPremise")))])
    modifies = staticmethod(lambda o: [("alloc",), ("fresh-lists", ROW)])

    @staticmethod
    def ensures(o, n, res):
        s = o.self.scaffold
        out = [("single-row-is-never-removed", z3.Implies(s.rows.len == 1, z3.Not(res)))]
        for cls, start in (("StartOverhangPremise", True), ("EndOverhangPremise", False)):
            # the positions the two what-if reads were taken at (both are 'the first contig beyond the terminal row')
            w1 = n.raw(f"g_j@{cls}.overhang_error_delta_if_applied")
            w2 = n.raw(f"g_j@{cls}.overhang_if_applied")
            j1 = w1.z if w1 is not None else z3.Int("j1!whatif")
            j2 = w2.z if w2 is not None else j1
            now, then1, where1 = _whatif_terms(s, j1, start)
            _, then2, where2 = _whatif_terms(s, j2, start)
            shrinks = smt.Abs(then1) - smt.Abs(now) < 0
            body = z3.And(where1, z3.Implies(shrinks, where2), res == z3.And(shrinks, then2 > -3 * o.err_length))
            if w1 is None:
                body = z3.Exists([j1], body)
            out.append((f"improves-iff[{cls}]", z3.Implies(z3.And(o.self.isinstance(cls), s.rows.len != 1), body)))
        return out


# --- OverhangResolver.add_overhang_premise (C01): a contig shared by several pieces gets a what-if per holder, and only for the
# end of the holder it really sits at; a holder that has it in the middle gets none (it cannot be discarded there) --------------

from pyvc.values import TDict, TList, TTuple  # noqa: E402

OP = TRef("OverhangPremise")
KEY3 = TTuple([STR, INT, INT])
RESOLVER = TRef("OverhangResolver")


def _premise_init(cls, ty):
    @contract(f"{U}.{cls}.__init__", kind="init", properties=("C01",))
    class _:
        params = {"self": ty, "scaffold": OR, "fragment": FRAG}
        modifies = staticmethod(lambda o: [("field", "OverhangPremise", "scaffold", o.self), ("field", "OverhangPremise", "fragment", o.self)])
        ensures = staticmethod(lambda o, n, res: z3.And(n.self.scaffold.z == o.scaffold.z, n.self.fragment.z == o.fragment.z))


_premise_init("OverhangPremise", OP)


@contract(f"{U}.OverhangResolver.add_overhang_premise", properties=("C01", "C18"))
class _:
    params = {"self": RESOLVER, "fragment": FRAG, "scffld": OR}
    result = NONE
    requires = staticmethod(lambda o: [("nonempty", o.scffld.rows.len > 0)])
    modifies = staticmethod(lambda o: [("dict-maps", KEY3, TList(OP)), ("fresh-objs", "OverhangPremise", ["scaffold", "fragment"]), ("fresh-lists", OP),
                                       ("map", "LA.Int"), ("map", "LHI.Int"), ("alloc",)])

    @staticmethod
    def ensures(o, n, res):
        from pyvc.spec import CLASSES, ObjView, class_map

        sc, f = o.scffld, o.fragment
        first, last = sc.rows[0].z == f.z, sc.rows[-1].z == f.z
        key = KEY3.sort().mk(f.name, f.start, f.end)
        d0, d1 = o.self.premises_by_fragment_key, n.self.premises_by_fragment_key
        other = z3.Const("key!prem", KEY3.sort())
        lst1 = d1.get(key)
        old_len = z3.If(d0.has(key), ObjView(o.state, d0.raw(key), "OverhangResolver").z * 0 + o.self.premises_by_fragment_key.get(key).len, 0)
        prem = lst1[lst1.len - 1]
        cm = class_map(n.state)
        return [
            ("middle-row-gets-no-premise", z3.Implies(z3.And(z3.Not(first), z3.Not(last)), z3.ForAll([other], z3.And(d1.has(other) == d0.has(other), d1.raw(other) == d0.raw(other))))),
            ("one-premise-for-the-end-it-sits-at", z3.Implies(z3.Or(first, last), z3.And(
                d1.has(key), lst1.len == old_len + 1, prem.scaffold.z == sc.z, prem.fragment.z == f.z,
                cm[prem.z] == z3.If(first, CLASSES["StartOverhangPremise"]["id"], CLASSES["EndOverhangPremise"]["id"])))),
            ("other-keys-kept", z3.ForAll([other], z3.Implies(other != key, z3.And(d1.has(other) == d0.has(other), d1.raw(other) == d0.raw(other))))),
        ]


# --- applying a what-if: the premise removes the terminal contig it was made for from *its* overlap result -----------------
# (C01 / C18: OverhangResolver.make_fixes changes overlap results only through apply(); what apply() does to the result is
# what discard_start / discard_end are proved to do, at the end the premise is about, and the result stays well-formed)


def _premise_apply(cls, ty, start):
    moved, kept = ("g_lo", "g_hi") if start else ("g_hi", "g_lo")

    @contract(f"{U}.{cls}.apply", properties=("C18", "C01"))
    class _:
        params = {"self": ty}
        result = NONE
        requires = staticmethod(lambda o: [("wf", wf(o.self.scaffold)), ("nonempty", o.self.scaffold.rows.len > 0)])

        @staticmethod
        def modifies(o):
            sc = o.self.scaffold
            return [("list", ROW, sc.rows), ("field", "OverlapResult", "start" if start else "end", sc),
                    ("field", "OverlapResult", moved, sc), ("field", "OverlapResult", "g_ts" if start else "g_te", sc)]

        @staticmethod
        def ensures(o, n, res):
            a, b = o.self.scaffold, n.self.scaffold
            dropped = a.rows.len - b.rows.len
            return [
                ("same-result-object", b.z == a.z),
                ("wf", wf(b, src=a.g_src)),
                ("terminal-row-gone", z3.And(dropped >= 1, getattr(b, moved) == (getattr(a, moved) + dropped if start else getattr(a, moved) - dropped),
                                             getattr(b, kept) == getattr(a, kept))),
                ("other-end-kept", (b.end == a.end) if start else (b.start == a.start)),
                ("same-bait", b.bait.z == a.bait.z),
            ]


_premise_apply("StartOverhangPremise", SP, True)
_premise_apply("EndOverhangPremise", EP, False)


@contract(f"{U}.OverhangPremise.makes_worse", properties=("C18", "C01"))
class _:
    # the negation of `improves` (same reads, same preconditions): in particular the only row of a result is never
    # offered for removal - removing it always "makes worse" - which is what keeps make_fixes from emptying a result
    # through a premise
    params = {"self": TRef("OverhangPremise"), "err_length": INT}
    result = BOOL
    requires = staticmethod(lambda o: [("wf", wf(o.self.scaffold)), ("nonempty", o.self.scaffold.rows.len > 0),
                                       ("a-start-or-an-end-premise", z3.Or(o.self.isinstance("StartOverhangPremise"), o.self.isinstance("EndOverhangPremise")))])
    modifies = staticmethod(lambda o: [("alloc",), ("fresh-lists", ROW)])
    ensures = staticmethod(lambda o, n, res: [("removing-the-only-row-makes-worse", z3.Implies(o.self.scaffold.rows.len == 1, res))])
