"""
Contracts for tola.assembly.overlap_result.OverlapResult (C18, C12, C02).
"""

import z3

from pyvc import smt
from pyvc.spec import LoopSpec, contract, forall
from pyvc.values import BOOL, FRAG, GAP, INT, NONE, ROW, STR, TList, TOpt, TRef, TSet

from .scaffold import fresh_list, same_repr, same_rows, scaffold_fields

M = "tola.assembly.overlap_result.OverlapResult"
OR = TRef("OverlapResult")


@contract(f"{M}.__init__", kind="init", properties=("C12", "C18"))
class _:
    params = {
        "self": OR,
        "bait": FRAG,
        "rows": TList(ROW),
        "start": INT,
        "end": INT,
        "name": TOpt(STR),
        "tag": TOpt(STR),
        "haplotype": TOpt(STR),
        "rank": TOpt(INT),
        "original_name": TOpt(STR),
    }

    @staticmethod
    def modifies(o):
        return (
            [("field", "OverlapResult", f, o.self) for f in scaffold_fields() + ["bait", "start", "end"]]
            + [("fresh-lists", ROW), ("alloc",)]
        )

    @staticmethod
    def ensures(o, n, res):
        s = n.self
        return [
            ("span", z3.And(s.start == o.start, s.end == o.end)),
            ("bait", s.bait.z == o.bait.z),
            ("rows-fresh", fresh_list(o, n, s.rows)),
            ("rows-copied", same_rows(s.rows, o.rows)),
            ("rows-copied-repr", z3.If(o.rows.len == 0, s.rows.len == 0, same_repr(s.rows, o.rows))),
            ("meta", z3.And(s.tag.z == o.tag.z, s.haplotype.z == o.haplotype.z, s.rank.z == o.rank.z,
                            s.original_name.z == o.original_name.z, s.original_tags.is_none)),
            ("alloc-grows", n.alloc >= o.alloc),
        ]


def _prop(name, fn, props=("C18",)):
    @contract(f"{M}.{name}", kind="property", properties=props)
    class _:
        params = {"self": OR}
        result = INT
        pure = staticmethod(lambda o, self: fn(self))


# "the reported overhangs and bait overlaps equal the plain interval arithmetic between span,
#  first/last row and bait"
_prop("length", lambda s: s.end - s.start + 1, ("C18", "C12"))
_prop("start_overhang", lambda s: s.bait.start - s.start)
_prop("end_overhang", lambda s: s.end - s.bait.end)
_prop("length_error", lambda s: (s.end - s.start + 1) - s.bait.length)


def isect_size(a_lo, a_hi, b_lo, b_hi):
    size = smt.Min(a_hi, b_hi) - smt.Max(a_lo, b_lo) + 1
    return z3.If(size < 0, 0, size)


@contract(f"{M}.start_row_bait_overlap", kind="property", properties=("C18", "C02"))
class _:
    params = {"self": OR}
    result = INT
    requires = staticmethod(lambda o: o.self.rows.len > 0)
    # |bait ∩ scaffold span of the first row|, the first row spanning [start, start + len - 1]
    pure = staticmethod(
        lambda o, s: isect_size(s.bait.start, s.bait.end, s.start, s.start + s.rows[0].length - 1)
    )
    raises = {}


@contract(f"{M}.end_row_bait_overlap", kind="property", properties=("C18", "C02"))
class _:
    params = {"self": OR}
    result = INT
    requires = staticmethod(lambda o: o.self.rows.len > 0)
    pure = staticmethod(
        lambda o, s: isect_size(s.bait.start, s.bait.end, s.end - s.rows[-1].length + 1, s.end)
    )
