"""
Contracts for tola.assembly.fragment.Fragment and tola.assembly.gap.Gap.

Top-level postconditions are transcribed from the property statements:
  C19  "overlap is symmetric, the overlap length is the size of the intersection (and absent
        when there is none), two same-named intervals abut exactly when the gap between them
        is zero, and exactly one of overlap, abut or positive gap holds"
  C11  "an adjacency being the unordered pair of the two facing contig ends (so that reversing
        a whole scaffold ... changes neither count)"
  C14  "one reversal preserves ... contig intervals and tags while inverting ... every strand"
"""

import z3

from pyvc import smt
from pyvc.spec import contract
from pyvc.values import BOOL, FRAG, GAP, INT, NONE, STR, STRSEQ, TOpt, TTuple

M = "tola.assembly.fragment.Fragment"
G = "tola.assembly.gap.Gap"


@contract(f"{M}.__init__", kind="init", no_frag_inv=True, properties=("C19", "C14", "C05", "C06"))
class _:
    params = {"self": FRAG, "name": STR, "start": INT, "end": INT, "strand": INT, "tags": STRSEQ}

    @staticmethod
    def ensures(o, n, res):
        s = n.self
        return [
            ("fields", z3.And(s.name == o.name, s.start == o.start, s.end == o.end, s.strand == o.strand, s.tags == o.tags)),
            ("invariant", z3.And(s.start <= s.end, z3.Or(s.strand == 0, s.strand == 1, s.strand == -1))),
        ]

    raises = {
        "ValueError": lambda o: z3.Or(o.start > o.end, z3.Not(z3.Or(o.strand == 0, o.strand == 1, o.strand == -1))),
    }


def _prop(name, ty, fn, props=("C19",)):
    @contract(f"{M}.{name}", kind="property", properties=props)
    class _:
        params = {"self": FRAG}
        result = ty
        pure = staticmethod(lambda o, self: fn(self))


_prop("name", STR, lambda s: s.name)
_prop("start", INT, lambda s: s.start)
_prop("end", INT, lambda s: s.end)
_prop("strand", INT, lambda s: s.strand)
_prop("tags", STRSEQ, lambda s: s.tags)
_prop("length", INT, lambda s: s.end - s.start + 1, ("C19", "C06", "C12", "C18"))
_prop("key_tuple", TTuple([STR, INT, INT]), lambda s: (s.name, s.start, s.end), ("C01",))


@contract(f"{M}.strand_str", kind="property", properties=("C05",))
class _:
    params = {"self": FRAG}
    result = STR
    pure = staticmethod(
        lambda o, s: z3.If(s.strand == 0, z3.StringVal("."), z3.If(s.strand == 1, z3.StringVal("+"), z3.StringVal("-")))
    )


def isect_lo(a, b):
    return smt.Max(a.start, b.start)


def isect_hi(a, b):
    return smt.Min(a.end, b.end)


@contract(f"{M}.overlaps", properties=("C19", "C01"))
class _:
    params = {"self": FRAG, "othr": FRAG}
    result = BOOL
    # "if and only if they name the same contig and their coordinate intervals share at least one base"
    pure = staticmethod(lambda o, a, b: z3.And(a.name == b.name, isect_lo(a, b) <= isect_hi(a, b)))


@contract(f"{M}.overlap_length", properties=("C19",))
class _:
    params = {"self": FRAG, "othr": FRAG}
    result = TOpt(INT)

    @staticmethod
    def ensures(o, n, res):
        a, b = o.self, o.othr
        size = isect_hi(a, b) - isect_lo(a, b) + 1
        has = z3.And(a.name == b.name, size >= 1)
        return [
            ("size-of-intersection", z3.Implies(has, z3.And(z3.Not(res.is_none), res.val == size))),
            ("absent-when-none", z3.Implies(z3.Not(has), res.is_none)),
        ]


@contract(f"{M}.abuts", properties=("C19", "C01"))
class _:
    params = {"self": FRAG, "othr": FRAG}
    result = BOOL
    pure = staticmethod(
        lambda o, a, b: z3.And(a.name == b.name, z3.Or(a.end + 1 == b.start, b.end + 1 == a.start))
    )


@contract(f"{M}.gap_between", properties=("C19", "C01"))
class _:
    params = {"self": FRAG, "othr": FRAG}
    result = TOpt(INT)

    @staticmethod
    def ensures(o, n, res):
        a, b = o.self, o.othr
        # number of bases strictly between the two intervals, defined when they are disjoint
        gap = isect_lo(a, b) - isect_hi(a, b) - 1
        disjoint = z3.And(a.name == b.name, isect_lo(a, b) > isect_hi(a, b))
        return [
            ("gap", z3.Implies(disjoint, z3.And(z3.Not(res.is_none), res.val == gap))),
            ("none", z3.Implies(z3.Not(disjoint), res.is_none)),
        ]


# --- junctions (C11) --------------------------------------------------------------------
# A junction joins two *contig ends*.  An end is (contig name, coordinate, which) with which = 1 for
# the end of the interval (tail in contig orientation) and 0 for its start (head).
# Walking a scaffold left to right, a forward fragment is left through its `end` and entered
# through its `start`; a reverse fragment the other way round.


def left_facing_end(f):
    """the end of f that faces the following row"""
    return (f.name, z3.If(f.strand == 1, f.end, f.start), z3.If(f.strand == 1, 1, 0))


def right_facing_end(f):
    """the end of f that faces the preceding row"""
    return (f.name, z3.If(f.strand == 1, f.start, f.end), z3.If(f.strand == 1, 0, 1))


def encode_junction(res):
    """uniform reading of the tuple the code returns: which two contig ends it names.
    (str,int,str,int): tail of [0:2] then head of [2:4];  (str,int,int,str): two tails;
    (int,str,str,int): two heads."""
    sorts = [x.sort() for x in res]
    S, I = smt.Str, smt.Int
    if sorts == [S, I, S, I]:
        return (res[0], res[1], z3.IntVal(1)), (res[2], res[3], z3.IntVal(0))
    if sorts == [S, I, I, S]:
        return (res[0], res[1], z3.IntVal(1)), (res[3], res[2], z3.IntVal(1))
    if sorts == [I, S, S, I]:
        return (res[1], res[0], z3.IntVal(0)), (res[2], res[3], z3.IntVal(0))
    return None


def _lex_le(n1, c1, n2, c2):
    return z3.Or(n1 < n2, z3.And(n1 == n2, c1 <= c2))


def canonical(res):
    """tail->head tuples are ordered by construction (tail first); two tails are in ascending and two
    heads in descending (name, coordinate) order"""
    sorts = [x.sort() for x in res]
    S, I = smt.Str, smt.Int
    if sorts == [S, I, I, S]:
        return _lex_le(res[0], res[1], res[3], res[2])
    if sorts == [I, S, S, I]:
        return _lex_le(res[2], res[3], res[1], res[0])
    return z3.BoolVal(True)


def same_end(x, y):
    return z3.And(x[0] == y[0], x[1] == y[1], x[2] == y[2])


def same_unordered_pair(p, q):
    return z3.Or(z3.And(same_end(p[0], q[0]), same_end(p[1], q[1])), z3.And(same_end(p[0], q[1]), same_end(p[1], q[0])))


@contract(f"{M}.junction_tuple", properties=("C11",))
class _:
    params = {"self": FRAG, "othr": FRAG}
    result = None  # tuple whose element types depend on the strands

    @staticmethod
    def ensures(o, n, res):
        a, b = o.self, o.othr
        enc = encode_junction(res)
        if enc is None:
            return [("shape", False)]
        want = (left_facing_end(a), right_facing_end(b))
        return [
            ("names-the-two-facing-ends", same_unordered_pair(enc, want)),
            # the tuple is a function of the unordered pair: a fixed order of the two ends
            ("canonical-order", canonical(res)),
        ]

    raises = {"ValueError": lambda o: z3.Or(o.self.strand == 0, o.othr.strand == 0)}


@contract(f"{M}.reverse", properties=("C14", "C11"))
class _:
    params = {"self": FRAG}
    result = FRAG

    @staticmethod
    def ensures(o, n, res):
        s = o.self
        return [
            ("interval-and-tags-kept", z3.And(res.name == s.name, res.start == s.start, res.end == s.end, res.tags == s.tags)),
            ("strand-inverted", res.strand == -s.strand),
            ("is-fragment", res.is_frag),
        ]


@contract(f"{M}.rename", properties=())
class _:
    params = {"self": FRAG, "new_name": STR}
    result = FRAG

    @staticmethod
    def ensures(o, n, res):
        s = o.self
        return z3.And(res.name == o.new_name, res.start == s.start, res.end == s.end, res.strand == s.strand, res.tags == s.tags)


# --- Gap --------------------------------------------------------------------------------


@contract(f"{G}.__init__", kind="init", properties=("C05", "C06"))
class _:
    params = {"self": GAP, "length": INT, "gap_type": STR}

    @staticmethod
    def ensures(o, n, res):
        return z3.And(n.self.length == o.length, n.self.gap_type == o.gap_type)


@contract(f"{G}.length", kind="property", properties=("C06", "C12"))
class _:
    params = {"self": GAP}
    result = INT
    pure = staticmethod(lambda o, s: s.length)


@contract(f"{G}.gap_type", kind="property", properties=("C05",))
class _:
    params = {"self": GAP}
    result = STR
    pure = staticmethod(lambda o, s: s.gap_type)
