"""
Contracts for tola.assembly.build_assembly.BuildAssembly and the helpers in build_utils (C01, C02, C07, C09, C10, C11).
"""

import z3

from pyvc import smt
from pyvc.spec import LoopSpec, contract, forall, forall2
from pyvc.values import BOOL, FRAG, GAP, INT, NONE, REAL, ROW, STR, TList, TOpt, TRef, TSet, TTuple

from .overlap_result import wf as or_wf

M = "tola.assembly.build_assembly.BuildAssembly"
BA = TRef("BuildAssembly")
FF = TRef("FoundFragment")


@contract(f"{M}.error_length", kind="property", properties=("C02", "C08"))
class _:
    # "3 x (1 + floor(bp per texel))": the error length is 1 + floor(bp_per_texel)
    params = {"self": BA}
    result = INT
    pure = staticmethod(lambda o, s: 1 + z3.ToInt(s.bp_per_texel))


def sub_of(f, F):
    """f is a sub-interval of contig F under that contig's name (C01: 'every output fragment is a
    sub-interval of one input contig under that contig's name')"""
    return z3.And(f.is_frag, f.name == F.name, F.start <= f.start, f.end <= F.end)


def exact_partition(lst, F):
    """the pieces, in coordinate order, abut pairwise, start at F.start and end at F.end: every base of F lies
    in exactly one piece (C01)"""
    n = lst.len
    return z3.And(
        n >= 1,
        lst[0].start == F.start,
        lst[n - 1].end == F.end,
        forall(lambda k: z3.Implies(z3.And(0 <= k, k < n - 1), lst[k].end + 1 == lst[k + 1].start)),
    )


@contract(f"{M}.qc_sub_fragments", properties=("C01",))
class _:
    # the QC gate: "a Pretext file that cannot be honoured consistently ends in an error, never in a silently
    # wrong assembly" - if it returns normally the pieces partition the contig exactly
    params = {"self": BA, "fnd": FF, "sub_fragments": TList(ROW)}
    result = NONE
    local_types = {"pairs_with_gaps": TList(TTuple([FRAG, FRAG, INT]))}
    ghost_locals = {"g_sorted": TList(ROW)}

    @staticmethod
    def requires(o):
        F = o.fnd.fragment
        subs = o.sub_fragments
        return [
            ("pieces-are-sub-intervals", forall(lambda k: z3.Implies(z3.And(0 <= k, k < subs.len), sub_of(subs[k], F)))),
            ("texel", o.self.bp_per_texel >= 1),
        ]

    @staticmethod
    def modifies(o):
        return [("fresh-lists", ROW), ("fresh-lists", TTuple([FRAG, FRAG, INT])), ("alloc",)]

    # the gate is exact: it raises only if the pieces, in coordinate order, do NOT partition the contig (so a set
    # of pieces that does is never rejected - the repaired defect 54286d9 showed up as exactly such a rejection)
    raises = {"ValueError": lambda o, n: z3.Not(exact_partition(n.srtd_frags, o.fnd.fragment))}

    @staticmethod
    def ghost_exit(o, n, res, st):
        st.frames[0].vars["g_sorted"] = n.raw("srtd_frags")

    @staticmethod
    def ensures(o, n, res):
        F = o.fnd.fragment
        ys, xs = n.g_sorted, o.sub_fragments
        return [
            ("exact-partition", exact_partition(ys, F)),
            ("same-pieces", z3.And(ys.len == xs.len, ys.cum(ys.len) == xs.cum(xs.len))),
            ("lengths-add-up", xs.cum(xs.len) == F.length),
        ]

    loops = {
        0: LoopSpec(
            kind="for",
            inv=lambda v, e, o: (lambda ys, i: [
                ("counter", z3.And(0 <= i, i <= smt.Max(ys.len - 1, 0))),
                ("counts", z3.And(0 <= v.abut_count, v.abut_count <= i, v.overlap_count >= 0)),
                # all pairs so far abut  ==>  the pieces so far form one run (telescoping sum)
                ("chain", z3.Implies(z3.And(v.abut_count == i, ys.len >= 1), z3.And(
                    forall(lambda k: z3.Implies(z3.And(0 <= k, k < i), ys[k].end + 1 == ys[k + 1].start)),
                    ys.cum(i + 1) == ys[i].end - ys[0].start + 1))),
                # and the other way round: pieces that abut all the way leave all three tallies clean
                ("clean", z3.Implies(
                    forall(lambda k: z3.Implies(z3.And(0 <= k, k < i), ys[k].end + 1 == ys[k + 1].start)),
                    z3.And(v.abut_count == i, v.overlap_count == 0, v.pairs_with_gaps.len == 0))),
                ("same", ys.same(e.srtd_frags)),
            ])(v.srtd_frags, v._it0),
        ),
        1: LoopSpec(
            kind="for",
            inv=lambda v, e, o: [("message-grows", z3.Length(v.msg) >= z3.Length(e.msg)),
                                 ("no-gap-no-text", z3.Implies(v.pairs_with_gaps.len == 0, v.msg == e.msg))],
        ),
    }


@contract(f"{M}.cut_fragments", properties=("C01", "C11"))
class _:
    # C01: when cut_fragments returns normally the pieces it made partition the contig exactly, each piece a
    # sub-interval under the contig's name; C11: the cut count grows by pieces - 1
    params = {"self": BA, "fnd": FF}
    result = NONE
    local_types = {"sub_fragments": TList(ROW)}
    ghost_locals = {"g_pieces": TList(ROW)}

    @staticmethod
    def requires(o):
        scs = o.fnd.scaffolds
        return [
            ("results-non-empty", forall(lambda k: z3.Implies(z3.And(0 <= k, k < scs.len), scs[k].rows.len > 0))),
            ("texel", o.self.bp_per_texel >= 1),
            ("stats-object", o.self.assembly_stats.z != o.self.z),
        ]

    @staticmethod
    def modifies(o):
        return [("map", "LA.Row"), ("map", "LLO.Row"), ("map", "LHI.Row"), ("map", "H.OverlapResult.start"), ("map", "H.OverlapResult.end"),
                ("map", "H.OverlapResult.g_ts"), ("map", "H.OverlapResult.g_te"), ("field", "AssemblyStats", "cuts", o.self.assembly_stats),
                ("fresh-lists", TRef("OverlapResult")), ("fresh-lists", TTuple([FRAG, FRAG, INT])), ("alloc",), ("ralloc",)]

    raises = {"ValueError": lambda o: True}
    raises_from = {"ValueError": ("qc_sub_fragments", "trim_fragment")}  # only the QC gate and an impossible trim reject

    @staticmethod
    def ghost_exit(o, n, res, st):
        st.frames[0].vars["g_pieces"] = n.raw("sub_fragments")

    @staticmethod
    def ensures(o, n, res):
        F = o.fnd.fragment
        pieces = n.g_pieces
        cnt = o.fnd.scaffolds.len
        return [
            ("one-piece-per-result", pieces.len == cnt),
            ("pieces-are-sub-intervals", forall(lambda k: z3.Implies(z3.And(0 <= k, k < pieces.len), sub_of(pieces[k], F)))),
            ("lengths-add-up", pieces.cum(pieces.len) == F.length),
            ("cut-count", n.self.assembly_stats.cuts == o.self.assembly_stats.cuts + cnt - 1),
        ]

    loops = {
        0: LoopSpec(
            kind="for",
            inv=lambda v, e, o: (lambda ys, subs, i, F: [
                ("counter", z3.And(0 <= i, i <= ys.len, subs.len == i, subs.same(e.sub_fragments), ys.same(e.ordered_scaffolds), v.last_i == ys.len - 1)),
                ("pieces", forall(lambda k: z3.Implies(z3.And(0 <= k, k < i), sub_of(subs[k], F)))),
                ("todo-non-empty", forall(lambda k: z3.Implies(z3.And(0 <= k, k < ys.len), ys[k].rows.len > 0))),
                ("lists", z3.And(ys.len == o.fnd.scaffolds.len, v.frgmnt.z == F.z)),
            ])(v.ordered_scaffolds, v.sub_fragments, v._it0, o.fnd.fragment),
            # C01 / C02: in contig coordinate order the first piece keeps the contig's start and the last piece its end,
            # whatever the strand (this is what the keep flags handed to trim_fragment are for)
            iter_post=lambda v, b, e, o: [
                ("first-piece-keeps-the-contig-start", z3.Implies(b._it0 == 0, v.sub_fragments[b._it0].start == o.fnd.fragment.start)),
                ("last-piece-keeps-the-contig-end", z3.Implies(b._it0 == b.last_i, v.sub_fragments[b._it0].end == o.fnd.fragment.end)),
            ],
            frame=lambda v, e: {"$free": ["LA.Row", "LLO.Row", "LHI.Row", "H.OverlapResult.start", "H.OverlapResult.end", "H.OverlapResult.g_ts", "H.OverlapResult.g_te"]},
        ),
    }


# --- C09: routing of fused scaffolds to the output assemblies -------------------------------------------------------
# "Tags route sequence to the documented destination assembly": a fused scaffold carrying a destination tag
# (Contaminant / Haplotig / FalseDuplicate, decided by label_scaffold) goes to the assembly of that tag, which is not
# curated; otherwise a scaffold with a haplotype goes to that haplotype's assembly and one without to the primary
# assembly, both curated.  Proved per fused scaffold (one iteration of the routing loop).

from pyvc.values import TDict  # noqa: E402

ASMS = TDict(TOpt(STR), TRef("Assembly", exact=True))  # the output assemblies are plain Assembly objects
CN = TRef("ChrNamer")
OSTR = TOpt(STR).sort()


CN_PAIR = TTuple([STR, TRef("Scaffold")])


@contract("tola.assembly.build_utils.ChrNamer.__init__", kind="init", properties=("C09", "C10"))
class _:
    # a namer starts with the prefix it is given, no scaffolds, no haplotypes seen and no groups
    params = {"self": CN, "chr_prefix": STR}
    defaults = {"chr_prefix": "SUPER_"}
    modifies = staticmethod(lambda o: [("field", "ChrNamer", f, o.self) for f in ("chr_prefix", "scaffolds", "haplotypes_seen", "groups")]
                            + [("fresh-lists", CN_PAIR), ("alloc",)])
    ensures = staticmethod(lambda o, n, res: [
        ("prefix", n.self.chr_prefix == o.chr_prefix),
        ("no-scaffolds-yet", n.self.scaffolds.len == 0),
        ("no-groups-yet", n.self.groups.is_none),
        ("its-own-new-list-and-dictionary", z3.And(n.self.scaffolds.z >= o.alloc, n.self.scaffolds.z < n.alloc,
                                                    n.self.haplotypes_seen.z >= o.alloc, n.self.haplotypes_seen.z < n.alloc)),
        ("alloc-grows", n.alloc >= o.alloc),
    ])


@contract("tola.assembly.build_utils.ChrNamer.add_scaffold", properties=("C09", "C10"))
class _:
    # remembers (str(haplotype), scaffold) for name_chromosomes(), in call order, and marks the haplotype as seen;
    # the frame is the point for the routing contract: nothing outside the namer's own list and dictionary changes
    params = {"self": CN, "hap": TOpt(STR), "scffld": TRef("Scaffold")}
    result = NONE
    modifies = staticmethod(lambda o: [("list-append", CN_PAIR, o.self.scaffolds), ("dict-maps", STR, BOOL)])

    @staticmethod
    def ensures(o, n, res):
        a, b = o.self.scaffolds, n.self.scaffolds
        from pyvc.engine import dict_maps

        _, has0, _, val0 = dict_maps(o.state, STR, BOOL)
        _, has1, _, val1 = dict_maps(n.state, STR, BOOL)
        sz0, sz1 = (x.state.hmap("DSZ.String.Bool", smt.Int, smt.Int) for x in (o, n))
        ref = o.self.haplotypes_seen.z
        return [
            ("other-dictionaries-kept", forall(lambda r: z3.Implies(r != ref, z3.And(has1[r] == has0[r], val1[r] == val0[r], sz1[r] == sz0[r])))),
            ("appended-last", z3.And(b.same(a), b.len == a.len + 1)),
            ("earlier-entries-kept", forall(lambda k: z3.Implies(z3.And(0 <= k, k < a.len), b.arr[b.lo + k] == a.arr[a.lo + k]))),
            ("the-scaffold-is-the-new-entry", b[a.len][1].z == o.scffld.z),
            ("under-its-haplotype-as-text", b[a.len][0] == z3.If(o.hap.is_none, z3.StringVal("None"), o.hap.val)),
        ]


@contract("tola.assembly.build_utils.ChrNamer.add_chr_prefix", properties=("C09", "C10"))
class _:
    # "<prefix>..": the scaffold's name gets the chromosome prefix unless it already starts with it; nothing else changes
    params = {"self": CN, "scffld": TRef("Scaffold")}
    result = NONE
    modifies = staticmethod(lambda o: [("field", "Scaffold", "name", o.scffld)])
    ensures = staticmethod(lambda o, n, res: [
        ("prefixed-once", n.scffld.name == z3.If(z3.PrefixOf(o.self.chr_prefix, o.scffld.name), o.scffld.name,
                                                 z3.Concat(o.self.chr_prefix, o.scffld.name))),
        ("starts-with-the-prefix", z3.PrefixOf(o.self.chr_prefix, n.scffld.name)),
    ])


@contract("tola.assembly.build_utils.ChrNamer.name_chromosomes", status="TRUSTED")
class _:
    # renames autosomes by size: only scaffold names change (decided by the bounded tier for C10)
    params = {"self": CN}
    result = NONE
    modifies = staticmethod(lambda o: [("map", "H.Scaffold.name")])
    raises = {e: (lambda o: True) for e in ("ValueError", "ChrNamerError", "TaggingError")}


@contract("tola.assembly.assembly_stats.AssemblyStats.__init__", kind="init", properties=("C11", "C10"))
class _:
    # "the reported number of cuts / breaks / joins": the three counts start at zero, no input assembly is known yet,
    # and the prefix used for the chromosome CSV is the one given
    params = {"self": TRef("AssemblyStats"), "autosome_prefix": STR}
    defaults = {"autosome_prefix": "SUPER_"}
    modifies = staticmethod(lambda o: [("field", "AssemblyStats", f, o.self) for f in (
        "autosome_prefix", "input_assembly", "cuts", "breaks", "joins", "per_assembly_stats", "assembly_scaffold_lengths")] + [("alloc",)])
    ensures = staticmethod(lambda o, n, res: [
        ("counts-start-at-zero", z3.And(n.self.cuts == 0, n.self.breaks == 0, n.self.joins == 0)),
        ("prefix", n.self.autosome_prefix == o.autosome_prefix),
        ("no-input-assembly-yet", n.self.input_assembly.is_none),
        ("alloc-grows", n.alloc >= o.alloc),
    ])


@contract("tola.assembly.assembly_stats.AssemblyStats.make_stats", status="TRUSTED")
class _:
    params = {"self": TRef("AssemblyStats"), "assemblies": ASMS}
    result = NONE
    modifies = staticmethod(lambda o: [("field", "AssemblyStats", f, o.self) for f in ("cuts", "breaks", "joins")])
    raises = {"ValueError": lambda o: True}


@contract(f"{M}.autosome_prefix", kind="property", properties=("C09", "C10"))
class _:
    params = {"self": BA}
    result = STR
    pure = staticmethod(lambda o, s: s.scaffold_namer.autosome_prefix)


@contract(f"{M}.autosome_prefix$setter", properties=("C10",))
class _:
    # the configured chromosome prefix reaches both users: the namer (scaffold names) and the statistics (CSV reports);
    # the getter above reads the namer's copy, so after a set the getter returns what was set
    params = {"self": BA, "prefix": STR}
    result = NONE
    modifies = staticmethod(lambda o: [("field", "ScaffoldNamer", "autosome_prefix", o.self.scaffold_namer),
                                       ("field", "AssemblyStats", "autosome_prefix", o.self.assembly_stats)])
    ensures = staticmethod(lambda o, n, res: [
        ("namer-gets-the-prefix", n.self.scaffold_namer.autosome_prefix == o.prefix),
        ("stats-get-the-prefix", n.self.assembly_stats.autosome_prefix == o.prefix),
    ])


def _norm_stmt(text):
    import ast

    return ast.unparse(ast.parse(text.strip()).body[0])


FKEY = TTuple([TOpt(STR), TOpt(STR), STR])
FUSED = TDict(FKEY, TRef("Scaffold"))
FK = FKEY.sort()


def _fuse_key(sc):
    """C09 (repaired in ad1496b): pieces are fused only when tag and name agree and - for pieces without a tag, which are
    filed by haplotype - the haplotype too; a tagged piece is filed by its tag whatever its haplotype, so the haplotype
    is not part of its key (C10: names are unique within an output assembly)"""
    S = TOpt(STR).sort()
    tagged = z3.And(sc.tag.z != S.none, z3.Length(S.val(sc.tag.z)) > 0)
    return FK.mk(sc.tag.z, z3.If(tagged, S.none, sc.haplotype.z), sc.name)


def _fusion_post(v, b, e, o):
    """one overlap result / left-over scaffold: skipped when it has no rows; otherwise appended to the fused scaffold of its
    key (created with the piece's name, tag, haplotype and rank when the key is new), behind the join gap iff that
    scaffold already had rows (C07: 'every join carries a gap'); every other fused scaffold is left alone"""
    from pyvc.spec import ObjView

    sc = b.scffld
    d0, d1 = b.hap_name_scaffold, v.hap_name_scaffold
    key = _fuse_key(sc)
    empty = sc.rows.len == 0
    tgt1 = d1.get(key)
    old_rows = ObjView(b.state, d0.raw(key), "Scaffold").rows
    had = d0.has(key)
    n_old = z3.If(had, old_rows.len, 0)
    gap = o.self.default_gap
    with_gap = z3.And(z3.Not(gap.is_none), n_old > 0)
    other = z3.Const("key!fuse", FK)
    new_rows = tgt1.rows
    return [
        ("empty-piece-skipped", z3.Implies(empty, z3.ForAll([other], z3.And(d1.has(other) == d0.has(other), d1.raw(other) == d0.raw(other))))),
        ("fused-under-its-key", z3.Implies(z3.Not(empty), z3.And(d1.has(key), z3.If(had, d1.raw(key) == d0.raw(key),
                                           z3.And(tgt1.z >= b.alloc, tgt1.name == sc.name, tgt1.tag.z == sc.tag.z, tgt1.haplotype.z == sc.haplotype.z, tgt1.rank.z == sc.rank.z))))),
        ("other-keys-kept", z3.Implies(z3.Not(empty), z3.ForAll([other], z3.Implies(other != key, z3.And(d1.has(other) == d0.has(other), d1.raw(other) == d0.raw(other)))))),
        ("piece-appended-length", z3.Implies(z3.Not(empty), new_rows.len == n_old + z3.If(with_gap, 1, 0) + sc.rows.len)),
        ("join-gap-iff-joining", z3.Implies(z3.And(z3.Not(empty), with_gap), new_rows[n_old].z == gap.val.z)),
        ("earlier-rows-kept", z3.Implies(z3.And(z3.Not(empty), had), forall(lambda k: z3.Implies(z3.And(0 <= k, k < n_old), new_rows[k].z == old_rows[k].z)))),
    ]


@contract(f"{M}.scaffolds_fused_by_name", properties=("C07", "C09"))
class _:
    # the generator, as the list of what it yields
    as_list = True
    params = {"self": BA}
    result = TList(TRef("Scaffold"))
    result_zero_based = True
    local_types = {"hap_name_scaffold": FUSED}
    modifies = staticmethod(lambda o: [("fresh-objs", "Scaffold", ["name", "rows", "tag", "haplotype", "rank", "original_name", "original_tags"]),
                                       ("fresh-lists", ROW), ("fresh-lists", TRef("Scaffold")), ("dict-maps", FKEY, TRef("Scaffold")), ("alloc",), ("ralloc",)])
    raises = {"ValueError": lambda o: True}

    @staticmethod
    def requires(o):
        scs = o.self.scaffolds
        return [("pieces", forall(lambda k: z3.Implies(z3.And(0 <= k, k < scs.len), z3.And(scs[k].z >= 1, scs[k].z < o.alloc)))),
                ("default-gap-is-a-gap", z3.Implies(z3.Not(o.self.default_gap.is_none), o.self.default_gap.val.is_gap))]

    @staticmethod
    def ensures(o, n, res):
        return z3.And(res.z >= o.alloc, res.z < n.alloc, res.len >= 0,
                      forall(lambda k: z3.Implies(z3.And(0 <= k, k < res.len), z3.And(res[k].z >= 1, res[k].z < n.alloc))))

    # what the look-up and the append statement do to the fused scaffold (proved at the statements, used by the
    # per-iteration postcondition)
    stmt_post = {(_norm_stmt("""
build_scffld = hap_name_scaffold.setdefault(
    (scffld.tag, hap, scffld.name),
    Scaffold(scffld.name, tag=scffld.tag, haplotype=scffld.haplotype, rank=scffld.rank,
             original_name=scffld.original_name, original_tags=scffld.original_tags),
)"""), 0): lambda v, b, o: (lambda key, d0: [
        ("known-key-gives-the-fused-scaffold-as-it-is", z3.Implies(d0.has(key), z3.And(
            v.build_scffld.z == d0.raw(key), v.build_scffld.rows.z == d0.get(key).rows.z, v.build_scffld.rows.arr == d0.get(key).rows.arr,
            v.build_scffld.rows.lo == d0.get(key).rows.lo, v.build_scffld.rows.hi == d0.get(key).rows.hi))),
        ("new-key-gives-an-empty-scaffold", z3.Implies(z3.Not(d0.has(key)), z3.And(v.build_scffld.z >= b.alloc, v.build_scffld.rows.len == 0))),
    ])(_fuse_key(b.scffld), b.hap_name_scaffold),
                 ("if isinstance(scffld, OverlapResult):\n    build_scffld.append_scaffold(scffld.to_scaffold(), gap)\nelse:\n    build_scffld.append_scaffold(scffld, gap)", 0):
                 lambda v, b, o: (lambda r1, r0, g: [
                     ("same-list", r1.z == r0.z),
                     ("length", r1.len == r0.len + z3.If(z3.And(z3.Not(g.is_none), r0.len > 0), 1, 0) + b.scffld.rows.len),
                     ("earlier-rows", forall(lambda k: z3.Implies(z3.And(0 <= k, k < r0.len), r1[k].z == r0[k].z))),
                     ("gap", z3.Implies(z3.And(z3.Not(g.is_none), r0.len > 0), r1[r0.len].z == g.val.z)),
                 ])(v.build_scffld.rows, b.build_scffld.rows, o.self.default_gap)}

    loops = {
        0: LoopSpec(
            kind="for",
            iter_src="self.scaffolds",
            inv=lambda v, e, o: [
                ("objects", z3.And(v.hap_name_scaffold.z == e.hap_name_scaffold.z, v.hap_name_scaffold.z >= o.alloc, v.hap_name_scaffold.z < v.alloc, v.self.z == o.self.z,
                                   v.gap.z == e.gap.z)),
                ("counter", z3.And(0 <= v._it0, v._it0 <= o.self.scaffolds.len)),
                # fused scaffolds are new objects with their own rows list: appending to one never touches a piece
                ("fused-are-new", (lambda k: z3.ForAll([k], z3.Implies(v.hap_name_scaffold.has(k), z3.And(
                    v.hap_name_scaffold.raw(k) >= o.alloc, v.hap_name_scaffold.raw(k) < v.alloc,
                    v.hap_name_scaffold.get(k).rows.z >= o.alloc, v.hap_name_scaffold.get(k).rows.z < v.alloc))))(z3.Const("k!fused", FK))),
            ],
            iter_post=_fusion_post,
            frame=lambda v, e: {"$fresh-only": ["LA.Row", "LHI.Row", "LLO.Row", "H.Scaffold.name", "H.Scaffold.rows", "H.Scaffold.tag", "H.Scaffold.haplotype",
                                                "H.Scaffold.rank", "H.Scaffold.original_name", "H.Scaffold.original_tags", "H.$class"]},
        ),
        1: LoopSpec(kind="for", inv=lambda v, e, o: [
            ("objects", z3.And(v.hap_name_scaffold.z == e.hap_name_scaffold.z, v._yields.z == e._yields.z, v._yields.lo == 0, v._yields.len >= 0,
                               v._it1_seq.z == e._it1_seq.z, v._it1_seq.arr == e._it1_seq.arr, v._it1_seq.hi == e._it1_seq.hi, v._it1_seq.lo == 0)),
            ("yielded", forall(lambda k: z3.Implies(z3.And(0 <= k, k < v._yields.len), z3.And(v._yields[k].z >= 1, v._yields[k].z < v.alloc)))),
        ]),
    }


def _class_id(name):
    from pyvc.spec import CLASSES

    return CLASSES[name]["id"]


def _destination(sc):
    """(key, curated) of the assembly a fused scaffold belongs to"""
    tag, hap = sc.tag, sc.haplotype
    has_tag = z3.And(z3.Not(tag.is_none), z3.Length(tag.val) > 0)
    has_hap = z3.And(z3.Not(hap.is_none), z3.Length(hap.val) > 0)
    key = z3.If(has_tag, OSTR.some(tag.val), z3.If(has_hap, OSTR.some(hap.val), OSTR.none))
    return key, z3.Not(has_tag)


def _routing_post(v, b, e, o):
    sc = b.scffld
    key, curated = _destination(sc)
    d0, d1 = b.assemblies, v.assemblies
    dest = d1.get(key)
    other = z3.Const("key!route", OSTR)
    r = z3.Int("r!route")
    asm_sc0 = lambda ref: __import__("pyvc.spec", fromlist=["ObjView"]).ObjView(b.state, ref, "Assembly").scaffolds
    asm_sc1 = lambda ref: __import__("pyvc.spec", fromlist=["ObjView"]).ObjView(v.state, ref, "Assembly").scaffolds
    old = asm_sc0(dest.z)
    new = dest.scaffolds
    return [
        ("destination-exists", d1.has(key)),
        # an assembly that was already there is reused, a new one is flagged curated unless it is a tag's assembly
        ("destination-reused-or-new", z3.If(d0.has(key), d1.raw(key) == d0.raw(key), z3.And(dest.z >= b.alloc, dest.curated == curated, dest.name == o.self.name))),
        ("scaffold-is-appended-there", z3.And(new.len == z3.If(d0.has(key), old.len, 0) + 1, new[new.len - 1].z == sc.z)),
        ("other-assemblies-kept", z3.ForAll([other], z3.Implies(other != key, z3.And(d1.has(other) == d0.has(other), d1.raw(other) == d0.raw(other))))),
        ("curated-flags-kept", z3.ForAll([r], z3.Implies(r < b.alloc, v.state.heap.get("H.Assembly.curated", b.state.hmap("H.Assembly.curated", smt.Int, smt.Bool))[r]
                                                               == b.state.hmap("H.Assembly.curated", smt.Int, smt.Bool)[r]))),
    ]


@contract(f"{M}.assemblies_with_scaffolds_fused", properties=("C09",))
class _:
    params = {"self": BA}
    result = ASMS
    local_types = {"assemblies": ASMS}
    requires = staticmethod(lambda o: [("stats-object", o.self.assembly_stats.z != o.self.z),
                                       # what scaffolds_fused_by_name needs: the pieces are objects, the join gap is a gap
                                       ("pieces", forall(lambda k: z3.Implies(z3.And(0 <= k, k < o.self.scaffolds.len), z3.And(o.self.scaffolds[k].z >= 1, o.self.scaffolds[k].z < o.alloc)))),
                                       ("default-gap-is-a-gap", z3.Implies(z3.Not(o.self.default_gap.is_none), o.self.default_gap.val.is_gap))])
    modifies = staticmethod(lambda o: [("fresh-objs", "Scaffold", ["name", "rows", "tag", "haplotype", "rank", "original_name", "original_tags"]),
                                       ("dict-maps", FKEY, TRef("Scaffold")),
                                       ("fresh-objs", "Assembly", ["name", "scaffolds", "header", "curated"]), ("fresh-objs", "ChrNamer", ["chr_prefix", "scaffolds", "haplotypes_seen", "groups"]),
                                       ("fresh-lists", CN_PAIR), ("dict-maps", STR, BOOL),
                                       ("fresh-lists", ROW), ("fresh-lists", TRef("Scaffold")), ("fresh-lists", STR), ("fresh-lists", TRef("Assembly")),
                                       ("map", "H.Scaffold.name"), ("dict-maps", TOpt(STR), TRef("Assembly")),
                                       *[("field", "AssemblyStats", f, o.self.assembly_stats) for f in ("cuts", "breaks", "joins")],
                                       ("alloc",), ("ralloc",)])
    raises = {e: (lambda o: True) for e in ("ValueError", "ChrNamerError", "TaggingError")}
    ensures = staticmethod(lambda o, n, res: [("new-dict", res.z >= o.alloc)])

    loops = {
        0: LoopSpec(
            kind="for",
            inv=lambda v, e, o: [
                ("objects", z3.And(v.assemblies.z == e.assemblies.z, v.assemblies.z >= o.alloc, v.assemblies.z < v.alloc, v.chr_namer.z == e.chr_namer.z,
                                   v.self.z == o.self.z, v._it0_seq.z == e._it0_seq.z, v._it0_seq.lo == 0)),
                ("counter", z3.And(0 <= v._it0, v._it0 <= v._it0_seq.len)),
                # the namer keeps its books in a list and a dictionary of its own, made by this call
                ("namer-books-are-new", z3.And(v.chr_namer.scaffolds.z >= o.alloc, v.chr_namer.haplotypes_seen.z >= o.alloc)),
                # every assembly in the dict is one this call created, with its own scaffold list
                ("assemblies-are-new", (lambda k: z3.ForAll([k], z3.Implies(v.assemblies.has(k), z3.And(
                    v.assemblies.raw(k) >= o.alloc, v.assemblies.raw(k) < v.alloc, v.assemblies.get(k).scaffolds.z >= o.alloc,
                    v.assemblies.get(k).scaffolds.z < v.alloc, v.assemblies.get(k).scaffolds.lo == 0))))(z3.Const("k!asms", OSTR))),
            ],
            iter_post=_routing_post,
            frame=lambda v, e: {"$fresh-only": ["LA.Int", "LHI.Int", "LLO.Int", "H.Assembly.name", "H.Assembly.scaffolds", "H.Assembly.header", "H.Assembly.curated",
                                                "LA.String", "LHI.String", "LLO.String", "H.$class",
                                                "LA.Tup_String_Int", "LHI.Tup_String_Int", "LLO.Tup_String_Int",
                                                "DH.String.Bool", "DV.String.Bool", "DSZ.String.Bool"]},
        ),
        # sorting the scaffolds of each output assembly: only lists this call created are rearranged
        1: LoopSpec(kind="for", inv=lambda v, e, o: [
            ("objects", z3.And(v.assemblies.z == e.assemblies.z, v._it1_seq.z == e._it1_seq.z, v._it1_seq.arr == e._it1_seq.arr, v._it1_seq.hi == e._it1_seq.hi, v._it1_seq.lo == 0)),
            ("assemblies-are-new", (lambda k: z3.ForAll([k], z3.Implies(v.assemblies.has(k), z3.And(
                v.assemblies.raw(k) >= o.alloc, v.assemblies.raw(k) < v.alloc, v.assemblies.get(k).scaffolds.z >= o.alloc,
                v.assemblies.get(k).scaffolds.z < v._it1_seq.z))))(z3.Const("k!asms", OSTR))),
        ], frame=lambda v, e: {"$fresh-only": ["LA.Int", "LHI.Int", "LLO.Int"]}),
    }


# --- C07 / C01 / C08: input contigs that the map did not place ------------------------------------------------------------
# "two fragments are directly adjacent only if the same two contig ends were directly adjacent in the input ... every gap
# row is either the input gap that separates the same two neighbouring contigs or the configured join gap, and a junction
# between contigs that were not neighbours in the input always uses the join gap" - for the left-over scaffolds built by
# add_missing_scaffolds_from_input this is a rule about one input row at a time, proved per row:
#   a contig row that was found by the map adds nothing; a contig row that was not found is appended, preceded by
#   nothing when the previously appended contig is the row just before it, by the input gap rows (all of them, in order)
#   when only gap rows lie between them, and by the join gap otherwise.

KEY3 = TTuple([STR, INT, INT])


g_has_tag = z3.Function("scaffold_has_tag", smt.Int, smt.Str, smt.Bool)  # ghost: the tags carried by the contigs of a scaffold


@contract("tola.assembly.scaffold.Scaffold.fragment_tags", status="TRUSTED")
class _:
    # a new set holding the tags of the scaffold's contigs (as a fixed ghost relation of the scaffold: the callers
    # under contract do not change the rows of the scaffold they ask)
    params = {"self": TRef("Scaffold")}
    result = TSet(STR)
    modifies = staticmethod(lambda o: [("alloc",)])
    ensures = staticmethod(lambda o, n, res: z3.And(res.z >= o.alloc, res.z < n.alloc,
                                                     (lambda x: z3.ForAll([x], res.has(x) == g_has_tag(o.self.z, x)))(z3.String("x!tag"))))


def _leftover_row_post(v, b, e, o):
    from pyvc.spec import ObjView

    src = b.top.scffld.rows  # rows of the input scaffold being walked
    k = b._it100
    r = src[k]
    found = o.self.found_fragments
    key = KEY3.sort().mk(r.name, r.start, r.end)
    unfound = z3.And(r.is_frag, z3.Not(found.has(key)))
    ns0, ns1 = _O(b.top, "new_scffld"), _O(v.top, "new_scffld")
    la0, la1 = _O(b.top, "last_added_i"), _O(v.top, "last_added_i")
    rows1 = ns1.val.rows
    old_len = z3.If(ns0.is_none, 0, ns0.val.rows.len if not z3.is_int_value(ns0.val) else 0)
    gap = o.self.default_gap
    sep_none = z3.Or(la0.is_none, la0.val == k - 1)
    a = la0.val + 1  # first input row skipped since the contig added last
    cnt = k - a
    only_gaps = forall(lambda j: z3.Implies(z3.And(a <= j, j < k), src[j].is_gap))
    sep_gaps = z3.And(z3.Not(sep_none), only_gaps)
    sep_join = z3.And(z3.Not(sep_none), z3.Not(only_gaps))
    return [
        ("placed-or-gap-row-adds-nothing", z3.Implies(z3.Not(unfound), z3.And(ns1.is_none == ns0.is_none, la1.is_none == la0.is_none,
                                                                             z3.Implies(z3.Not(ns0.is_none), z3.And(ns1.val.z == ns0.val.z, rows1.len == old_len, la1.val == la0.val))))),
        ("unplaced-contig-is-kept", z3.Implies(unfound, z3.And(z3.Not(ns1.is_none), z3.Not(la1.is_none), la1.val == k,
                                                               rows1[rows1.len - 1].z == r.z, z3.Implies(z3.Not(ns0.is_none), ns1.val.z == ns0.val.z)))),
        ("no-gap-between-input-neighbours", z3.Implies(z3.And(unfound, sep_none), rows1.len == old_len + 1)),
        # C08: contigs that were separated by gap rows only keep exactly those gap rows, all of them, in order
        ("input-gaps-between-the-contigs-they-separated", z3.Implies(z3.And(unfound, sep_gaps), z3.And(
            rows1.len == old_len + cnt + 1, forall(lambda j: z3.Implies(z3.And(0 <= j, j < cnt), rows1[old_len + j].z == src[a + j].z))))),
        # C07: contigs that were not neighbours in the input (a placed contig lay between them) are joined by the join gap
        ("join-gap-otherwise", z3.Implies(z3.And(unfound, sep_join), z3.And(rows1.len == old_len + 2, z3.Not(gap.is_none), rows1[old_len].z == gap.val.z))),
        ("earlier-rows-kept", z3.Implies(z3.And(unfound, z3.Not(ns0.is_none)),
                                         forall(lambda j: z3.Implies(z3.And(0 <= j, j < old_len), rows1[j].z == (ns0.val.rows[j].z if not z3.is_int_value(ns0.val) else rows1[j].z))))),
    ]


def _gap_run_inv(v, e, o):
    """copying the gap rows that lay between two left-over contigs: the left-over scaffold has grown by exactly the
    gap rows walked so far"""
    ns_e, ns = _O(e.top, "new_scffld"), _O(v.top, "new_scffld")
    j = v._it2
    sk = v.top.skipped
    rows_e, rows = ns_e.val.rows, ns.val.rows
    return [
        ("counter", z3.And(0 <= j, j <= sk.len)),
        ("objects", z3.And(z3.Not(ns.is_none), ns.val.z == ns_e.val.z, rows.z == rows_e.z, rows.lo == 0, sk.z == e.top.skipped.z)),
        ("grown-by-the-gaps-so-far", z3.And(rows.len == rows_e.len + j, forall(lambda m: z3.Implies(z3.And(0 <= m, m < j), rows[rows_e.len + m].z == sk[m].z)))),
        ("earlier-rows-kept", forall(lambda m: z3.Implies(z3.And(0 <= m, m < rows_e.len), rows[m].z == rows_e[m].z))),
    ]


def _leftover_scaffold_post(v, b, o):
    """one input scaffold: at most one left-over scaffold is added; C09: in Target mode it is a contaminant unless the
    input scaffold carries a Target tag ('sequence absent from the map is treated as contaminant'); it takes the
    haplotype the namer works out for it"""
    s0, s1 = b.self.scaffolds, v.self.scaffolds
    grew = s1.len == s0.len + 1
    new = s1[s0.len]
    namer = v.scaffold_namer
    contaminant = z3.And(namer.target_tags, z3.Not(g_has_tag(b.scffld.z, z3.StringVal("Target"))))
    return [
        ("at-most-one-left-over-scaffold", z3.Or(grew, s1.len == s0.len)),
        ("target-mode-left-overs-are-contaminants", z3.Implies(grew, z3.If(contaminant, z3.And(z3.Not(new.tag.is_none), new.tag.val == z3.StringVal("Contaminant")), new.tag.is_none))),
        ("left-over-haplotype", z3.Implies(grew, new.haplotype.z == namer.current_haplotype.z)),
        ("earlier-scaffolds-kept", forall(lambda k: z3.Implies(z3.And(0 <= k, k < s0.len), s1[k].z == s0[k].z))),
    ]


def _leftover_inv(v, e, o):
    src = v.top.scffld.rows
    k0 = v._it100
    ns, la = _O(v.top, "new_scffld"), _O(v.top, "last_added_i")
    out = [
        ("counter", z3.And(0 <= k0, k0 <= src.len)),
        ("objects", z3.And(v.top.self.z == o.self.z, v.top.scffld.z == e.top.scffld.z, v.top.found_frags.z == o.self.found_fragments.z, src.z < o.alloc)),
        ("both-or-neither", ns.is_none == la.is_none),
    ]
    if not z3.is_int_value(ns.val):
        nsv = ns.val
        out.append(("left-over-scaffold", z3.Implies(z3.Not(ns.is_none), z3.And(
            nsv.z >= o.alloc, nsv.rows.z >= o.alloc, nsv.z < v.alloc, nsv.rows.z < v.alloc, nsv.rows.lo == 0, nsv.rows.len >= 1, 0 <= la.val, la.val < k0,
            nsv.rows[nsv.rows.len - 1].z == src[la.val].z, src[la.val].is_frag,
            # C08: the left-over piece keeps the name of the input scaffold it comes from (and is ranked as unplaced)
            nsv.name == v.top.scffld.name, z3.Not(nsv.rank.is_none), nsv.rank.val == 3, nsv.tag.is_none))))
    return out


class _O:
    """an Optional local, whatever static type it has on the current path"""

    def __init__(self, ns, name):
        from pyvc.spec import SpecInapplicable, view
        from pyvc.values import TNone, TOpt as _TOpt, unpack

        raw = ns.raw(name)
        if raw is None:
            raise SpecInapplicable(f"spec refers to unknown name '{name}'")
        st = ns.state
        if isinstance(raw.ty, _TOpt):
            S = raw.ty.sort()
            self.is_none = raw.z == S.none
            self.val = view(st, unpack(raw.ty.inner, z3.simplify(S.val(raw.z))))
        elif isinstance(raw.ty, TNone):
            self.is_none = z3.BoolVal(True)
            self.val = z3.IntVal(0)  # never looked at: every use is guarded by is_none
        else:
            self.is_none = z3.BoolVal(False)
            self.val = view(st, raw)


from pyvc.values import TSet  # noqa: E402


@contract(f"{M}.add_missing_scaffolds_from_input", properties=("C07", "C01", "C08", "C09"))
class _:
    params = {"self": BA, "input_asm": TRef("Assembly")}
    result = NONE
    inlined = [("tola.assembly.scaffold.Scaffold.idx_fragments", 100)]

    @staticmethod
    def requires(o):
        scs = o.input_asm.scaffolds
        return [("input-scaffolds", forall(lambda k: z3.Implies(z3.And(0 <= k, k < scs.len), z3.And(scs[k].z >= 1, scs[k].z < o.alloc, scs[k].rows.z >= 1, scs[k].rows.z < o.alloc)))),
                ("separate-objects", z3.And(o.input_asm.z != o.self.z, o.input_asm.scaffolds.z != o.self.scaffolds.z)),
                ("default-gap-is-a-gap", z3.Implies(z3.Not(o.self.default_gap.is_none), o.self.default_gap.val.is_gap))]

    modifies = staticmethod(lambda o: [("fresh-objs", "Scaffold", ["name", "rows", "tag", "haplotype", "rank", "original_name", "original_tags"]),
                                       ("fresh-lists", ROW), ("list", TRef("Scaffold"), o.self.scaffolds), ("dict-maps", STR, STR),
                                       *[("field", "ScaffoldNamer", f, o.self.scaffold_namer) for f in (
                                           "current_scaffold_name", "current_rank", "current_haplotype", "haplotig_n", "unloc_n", "target_tags", "primary_haplotype", "unloc_scaffolds")],
                                       ("alloc",), ("ralloc",)])
    # naming the left-over scaffold may fail; nothing else may, except a join that is needed while no join gap is configured
    raises = {"TaggingError": lambda o: True, "ValueError": lambda o: True, "IndexError": lambda o: True, "TypeError": lambda o: o.self.default_gap.is_none}
    raises_from = {"TaggingError": "make_scaffold_name", "ValueError": "make_scaffold_name", "IndexError": "make_scaffold_name"}

    loops = {
        0: LoopSpec(kind="for", iter_src="input_asm.scaffolds", types={"new_scffld": TOpt(TRef("Scaffold")), "last_added_i": TOpt(INT)},
                    iter_post=lambda v, b, e, o: _leftover_scaffold_post(v, b, o),
                    inv=lambda v, e, o: [("objects", z3.And(v.self.z == o.self.z, v.input_asm.z == o.input_asm.z, v.found_frags.z == o.self.found_fragments.z,
                                                            v.scaffold_namer.z == o.self.scaffold_namer.z, v._it0_seq.z == o.input_asm.scaffolds.z)),
                                         ("counter", z3.And(0 <= v._it0, v._it0 <= o.input_asm.scaffolds.len))],
                    frame=lambda v, e: {"$fresh-only": ["LA.Row", "LHI.Row", "LLO.Row", "H.Scaffold.name", "H.Scaffold.rows", "H.Scaffold.tag", "H.Scaffold.haplotype",
                                                        "H.Scaffold.rank", "H.Scaffold.original_name", "H.Scaffold.original_tags", "H.$class"]}),
        2: LoopSpec(kind="for", inv=_gap_run_inv,
                    frame=lambda v, e: {"LA.Row": [_O(e.top, "new_scffld").val.rows.z], "LHI.Row": [_O(e.top, "new_scffld").val.rows.z]}),
        100: LoopSpec(kind="for", types={"new_scffld": TOpt(TRef("Scaffold")), "last_added_i": TOpt(INT)}, inv=_leftover_inv, iter_post=_leftover_row_post,
                      frame=lambda v, e: {"$fresh-only": ["LA.Row", "LHI.Row", "LLO.Row", "H.Scaffold.name", "H.Scaffold.rows", "H.Scaffold.tag", "H.Scaffold.haplotype",
                                                          "H.Scaffold.rank", "H.Scaffold.original_name", "H.Scaffold.original_tags", "H.$class"]}),
    }


# --- bookkeeping of which input contigs the map has placed (C01: what add_missing_scaffolds_from_input and the cut step rely on) ---

FFD = TDict(KEY3, FF)
ORES = TRef("OverlapResult")


@contract("tola.assembly.build_utils.FoundFragment.__init__", kind="init", properties=("C01",))
class _:
    params = {"self": FF, "fragment": FRAG}
    modifies = staticmethod(lambda o: [("field", "FoundFragment", "fragment", o.self), ("field", "FoundFragment", "scaffolds", o.self), ("fresh-lists", ORES), ("alloc",)])
    ensures = staticmethod(lambda o, n, res: z3.And(n.self.fragment.z == o.fragment.z, n.self.scaffolds.len == 0, n.self.scaffolds.z >= o.alloc, n.self.scaffolds.z < n.alloc))
    zero_based = staticmethod(lambda o, n, res: [(z3.BoolVal(True), n.self.scaffolds)])


@contract("tola.assembly.build_utils.FoundFragment.add_scaffold", properties=("C01",))
class _:
    params = {"self": FF, "scaffold": ORES}
    result = NONE
    modifies = staticmethod(lambda o: [("list-append", ORES, o.self.scaffolds)])

    @staticmethod
    def ensures(o, n, res):
        a, b = o.self.scaffolds, n.self.scaffolds
        return z3.And(b.len == a.len + 1, b[a.len].z == o.scaffold.z, forall(lambda k: z3.Implies(z3.And(0 <= k, k < a.len), b[k].z == a[k].z)))


@contract("tola.assembly.build_utils.FoundFragment.scaffold_count", kind="property", properties=("C01",))
class _:
    # the number of pieces that hold the contig ("found more than once" is scaffold_count > 1)
    params = {"self": FF}
    result = INT
    pure = staticmethod(lambda o, s: s.scaffolds.len)


def _key_of(r):
    return KEY3.sort().mk(r.name, r.start, r.end)


def _store_row_post(v, b, e, o):
    """one row of the placed piece: a gap row changes nothing; a contig row is recorded under its (name, start, end) -
    a new record when the contig was not known, the known record otherwise, which then also counts as found more than
    once - and the piece is added to the record's list of holders"""
    rows = b.top.scffld.rows
    k = b._it100
    r = rows[k]
    key = _key_of(r)
    s0, s1 = b.top.store, v.top.store
    m0, m1 = b.top.multi, v.top.multi
    other = z3.Const("key!store", KEY3.sort())
    rec = s1.get(key)
    same_dicts = z3.ForAll([other], z3.And(s1.has(other) == s0.has(other), s1.raw(other) == s0.raw(other), m1.has(other) == m0.has(other), m1.raw(other) == m0.raw(other)))
    from pyvc.spec import ObjView

    old_holders = ObjView(b.state, s0.raw(key), "FoundFragment").scaffolds
    return [
        ("gap-row-records-nothing", z3.Implies(r.is_gap, same_dicts)),
        ("contig-row-is-recorded", z3.Implies(r.is_frag, z3.And(s1.has(key), z3.If(s0.has(key), s1.raw(key) == s0.raw(key), z3.And(rec.z >= b.alloc, rec.fragment.z == r.z))))),
        ("seen-before-means-found-more-than-once", z3.Implies(r.is_frag, z3.If(s0.has(key), z3.And(m1.has(key), m1.raw(key) == s0.raw(key)), m1.has(key) == m0.has(key)))),
        ("the-piece-is-a-holder", z3.Implies(r.is_frag, z3.And(rec.scaffolds.len == z3.If(s0.has(key), old_holders.len, 0) + 1,
                                                                  rec.scaffolds[rec.scaffolds.len - 1].z == o.scffld.z))),
        ("other-records-kept", z3.Implies(r.is_frag, z3.ForAll([other], z3.Implies(other != key, z3.And(
            s1.has(other) == s0.has(other), s1.raw(other) == s0.raw(other), m1.has(other) == m0.has(other), m1.raw(other) == m0.raw(other)))))),
    ]


@contract(f"{M}.store_fragments_found", properties=("C01",))
class _:
    params = {"self": BA, "scffld": ORES}
    result = NONE
    inlined = [("tola.assembly.scaffold.Scaffold.fragments", 100)]

    @staticmethod
    def requires(o):
        return [("two-dicts", o.self.found_fragments.z != o.self.fragments_found_more_than_once.z),
                ("records-are-objects", (lambda k: z3.ForAll([k], z3.Implies(o.self.found_fragments.has(k), z3.And(
                    o.self.found_fragments.raw(k) >= 1, o.self.found_fragments.raw(k) < o.alloc,
                    o.self.found_fragments.get(k).scaffolds.z >= 1, o.self.found_fragments.get(k).scaffolds.z < o.alloc))))(z3.Const("k!rec", KEY3.sort())))]

    modifies = staticmethod(lambda o: [("dict-maps", KEY3, FF), ("fresh-objs", "FoundFragment", ["fragment", "scaffolds"]), ("fresh-lists", ORES),
                                       ("map", "LA.Int"), ("map", "LHI.Int"), ("alloc",)])

    loops = {
        100: LoopSpec(kind="for", inv=lambda v, e, o: [
            ("counter", z3.And(0 <= v._it100, v._it100 <= v.top.scffld.rows.len)),
            ("objects", z3.And(v.top.self.z == o.self.z, v.top.scffld.z == o.scffld.z, v.top.store.z == o.self.found_fragments.z, v.top.multi.z == o.self.fragments_found_more_than_once.z,
                               v.top.scffld.rows.z == o.scffld.rows.z, v.top.scffld.rows.arr == o.scffld.rows.arr, v.top.scffld.rows.lo == o.scffld.rows.lo, v.top.scffld.rows.hi == o.scffld.rows.hi)),
            ("records-are-objects", (lambda k: z3.ForAll([k], z3.Implies(v.top.store.has(k), z3.And(
                v.top.store.raw(k) >= 1, v.top.store.raw(k) < v.alloc, v.top.store.get(k).scaffolds.z >= 1, v.top.store.get(k).scaffolds.z < v.alloc))))(z3.Const("k!rec", KEY3.sort()))),
        ], iter_post=_store_row_post),
    }
