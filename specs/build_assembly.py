"""
Contracts for tola.assembly.build_assembly.BuildAssembly and the helpers in build_utils (C01, C02, C07, C09, C10, C11).
"""

import z3

from pyvc import smt
from pyvc.spec import LoopSpec, contract, forall, forall2
from pyvc.values import BOOL, FRAG, GAP, INT, NONE, REAL, ROW, STR, TList, TOpt, TRef, TTuple

from .overlap_result import wf as or_wf

M = "tola.assembly.build_assembly.BuildAssembly"
BA = TRef("BuildAssembly")
FF = TRef("FoundFragment")


@contract(f"{M}.error_length", kind="property", properties=("C02", "C08"))
class _:
    # "3 x (1 + floor(bp per texel))": the error length is 1 + floor(bp_per_texel)
    params = {"self": BA}
    result = INT
    pure = staticmethod(lambda o, s: 1 + z3.ToInt(s.bp_per_texel))


def sub_of(f, F):
    """f is a sub-interval of contig F under that contig's name (C01: 'every output fragment is a
    sub-interval of one input contig under that contig's name')"""
    return z3.And(f.is_frag, f.name == F.name, F.start <= f.start, f.end <= F.end)


def exact_partition(lst, F):
    """the pieces, in coordinate order, abut pairwise, start at F.start and end at F.end: every base of F lies
    in exactly one piece (C01)"""
    n = lst.len
    return z3.And(
        n >= 1,
        lst[0].start == F.start,
        lst[n - 1].end == F.end,
        forall(lambda k: z3.Implies(z3.And(0 <= k, k < n - 1), lst[k].end + 1 == lst[k + 1].start)),
    )


@contract(f"{M}.qc_sub_fragments", properties=("C01",))
class _:
    # the QC gate: "a Pretext file that cannot be honoured consistently ends in an error, never in a silently
    # wrong assembly" - if it returns normally the pieces partition the contig exactly
    params = {"self": BA, "fnd": FF, "sub_fragments": TList(ROW)}
    result = NONE
    local_types = {"pairs_with_gaps": TList(TTuple([FRAG, FRAG, INT]))}
    ghost_locals = {"g_sorted": TList(ROW)}

    @staticmethod
    def requires(o):
        F = o.fnd.fragment
        subs = o.sub_fragments
        return [
            ("pieces-are-sub-intervals", forall(lambda k: z3.Implies(z3.And(0 <= k, k < subs.len), sub_of(subs[k], F)))),
            ("texel", o.self.bp_per_texel >= 1),
        ]

    @staticmethod
    def modifies(o):
        return [("fresh-lists", ROW), ("fresh-lists", TTuple([FRAG, FRAG, INT])), ("alloc",)]

    raises = {"ValueError": lambda o: True}  # any inconsistency is an error (allowed by C01)

    @staticmethod
    def ghost_exit(o, n, res, st):
        st.frames[0].vars["g_sorted"] = n.raw("srtd_frags")

    @staticmethod
    def ensures(o, n, res):
        F = o.fnd.fragment
        ys, xs = n.g_sorted, o.sub_fragments
        return [
            ("exact-partition", exact_partition(ys, F)),
            ("same-pieces", z3.And(ys.len == xs.len, ys.cum(ys.len) == xs.cum(xs.len))),
            ("lengths-add-up", xs.cum(xs.len) == F.length),
        ]

    loops = {
        0: LoopSpec(
            kind="for",
            inv=lambda v, e, o: (lambda ys, i: [
                ("counter", z3.And(0 <= i, i <= smt.Max(ys.len - 1, 0))),
                ("counts", z3.And(0 <= v.abut_count, v.abut_count <= i, v.overlap_count >= 0)),
                # all pairs so far abut  ==>  the pieces so far form one run (telescoping sum)
                ("chain", z3.Implies(z3.And(v.abut_count == i, ys.len >= 1), z3.And(
                    forall(lambda k: z3.Implies(z3.And(0 <= k, k < i), ys[k].end + 1 == ys[k + 1].start)),
                    ys.cum(i + 1) == ys[i].end - ys[0].start + 1))),
                ("same", ys.same(e.srtd_frags)),
            ])(v.srtd_frags, v._it0),
        ),
        1: LoopSpec(
            kind="for",
            inv=lambda v, e, o: [("message-grows", z3.Length(v.msg) >= z3.Length(e.msg))],
        ),
    }


@contract(f"{M}.cut_fragments", properties=("C01", "C11"))
class _:
    # C01: when cut_fragments returns normally the pieces it made partition the contig exactly, each piece a
    # sub-interval under the contig's name; C11: the cut count grows by pieces - 1
    params = {"self": BA, "fnd": FF}
    result = NONE
    local_types = {"sub_fragments": TList(ROW)}
    ghost_locals = {"g_pieces": TList(ROW)}

    @staticmethod
    def requires(o):
        scs = o.fnd.scaffolds
        return [
            ("results-non-empty", forall(lambda k: z3.Implies(z3.And(0 <= k, k < scs.len), scs[k].rows.len > 0))),
            ("texel", o.self.bp_per_texel >= 1),
            ("stats-object", o.self.assembly_stats.z != o.self.z),
        ]

    @staticmethod
    def modifies(o):
        return [("map", "LA.Row"), ("map", "LLO.Row"), ("map", "LHI.Row"), ("map", "H.OverlapResult.start"), ("map", "H.OverlapResult.end"),
                ("map", "H.OverlapResult.g_ts"), ("map", "H.OverlapResult.g_te"), ("field", "AssemblyStats", "cuts", o.self.assembly_stats),
                ("fresh-lists", TRef("OverlapResult")), ("fresh-lists", TTuple([FRAG, FRAG, INT])), ("alloc",), ("ralloc",)]

    raises = {"ValueError": lambda o: True}

    @staticmethod
    def ghost_exit(o, n, res, st):
        st.frames[0].vars["g_pieces"] = n.raw("sub_fragments")

    @staticmethod
    def ensures(o, n, res):
        F = o.fnd.fragment
        pieces = n.g_pieces
        cnt = o.fnd.scaffolds.len
        return [
            ("one-piece-per-result", pieces.len == cnt),
            ("pieces-are-sub-intervals", forall(lambda k: z3.Implies(z3.And(0 <= k, k < pieces.len), sub_of(pieces[k], F)))),
            ("lengths-add-up", pieces.cum(pieces.len) == F.length),
            ("cut-count", n.self.assembly_stats.cuts == o.self.assembly_stats.cuts + cnt - 1),
        ]

    loops = {
        0: LoopSpec(
            kind="for",
            inv=lambda v, e, o: (lambda ys, subs, i, F: [
                ("counter", z3.And(0 <= i, i <= ys.len, subs.len == i, subs.same(e.sub_fragments), ys.same(e.ordered_scaffolds), v.last_i == ys.len - 1)),
                ("pieces", forall(lambda k: z3.Implies(z3.And(0 <= k, k < i), sub_of(subs[k], F)))),
                ("todo-non-empty", forall(lambda k: z3.Implies(z3.And(0 <= k, k < ys.len), ys[k].rows.len > 0))),
                ("lists", z3.And(ys.len == o.fnd.scaffolds.len, v.frgmnt.z == F.z)),
            ])(v.ordered_scaffolds, v.sub_fragments, v._it0, o.fnd.fragment),
            # C01 / C02: in contig coordinate order the first piece keeps the contig's start and the last piece its end,
            # whatever the strand (this is what the keep flags handed to trim_fragment are for)
            iter_post=lambda v, b, e, o: [
                ("first-piece-keeps-the-contig-start", z3.Implies(b._it0 == 0, v.sub_fragments[b._it0].start == o.fnd.fragment.start)),
                ("last-piece-keeps-the-contig-end", z3.Implies(b._it0 == b.last_i, v.sub_fragments[b._it0].end == o.fnd.fragment.end)),
            ],
            frame=lambda v, e: {"$free": ["LA.Row", "LLO.Row", "LHI.Row", "H.OverlapResult.start", "H.OverlapResult.end", "H.OverlapResult.g_ts", "H.OverlapResult.g_te"]},
        ),
    }
