"""
Contracts for tola.assembly.format (C06, C05).

C06: "the rows of each object tile it from 1 with no hole or overlap, part numbers count 1,2,3..., every
sequence row's object span equals its component span and every gap row's span equals its stated length,
gap rows carry 'U', linkage 'yes' and a gap type, and the last object end equals the scaffold's length"
"""

import z3

from pyvc import smt
from pyvc.engine import int_to_str
from pyvc.spec import LoopSpec, contract, forall
from pyvc.values import INT, NONE, ROW, STR, STRLIST, TList, TRef

M = "tola.assembly.format"
TAB = z3.StringVal("\t")


def seq(*items):
    out = None
    for it in items:
        part = it if z3.is_seq(it) and not z3.is_string(it) else z3.Unit(it)
        out = part if out is None else z3.Concat(out, part)
    return out


def sv(x):
    return z3.StringVal(x)


def agp_strand(r):
    return z3.If(r.strand == 0, sv("?"), z3.If(r.strand == 1, sv("+"), sv("-")))


def agp_fields(name, p, i, r):
    """what the columns of an AGP line say, as values (C06 is stated over these)"""
    return {
        "object": name,
        "object_beg": p + 1,
        "object_end": p + r.length,
        "part_number": i + 1,
        "gap_length": r.length,
        "gap_type": r.gap_type,
        "component_id": r.name,
        "component_beg": r.start,
        "component_end": r.end,
        "orientation": agp_strand(r),
        "tags": r.tags,
    }


def agp_cols_parts(name, p, i, r):
    """(columns of a gap row, columns of a sequence row)"""
    f = agp_fields(name, p, i, r)
    head = seq(f["object"], int_to_str(f["object_beg"]), int_to_str(f["object_end"]), int_to_str(f["part_number"]))
    gap = seq(sv("U"), int_to_str(f["gap_length"]), f["gap_type"], sv("yes"), sv("proximity_ligation"))
    frag = z3.Concat(seq(sv("W"), f["component_id"], int_to_str(f["component_beg"]), int_to_str(f["component_end"]), f["orientation"]), f["tags"])
    return z3.Concat(head, gap), z3.Concat(head, frag)


def agp_col_terms(name, p, i, r):
    """the individual column terms: (head 4, gap columns 5, sequence columns 5, tags)"""
    f = agp_fields(name, p, i, r)
    head = [f["object"], int_to_str(f["object_beg"]), int_to_str(f["object_end"]), int_to_str(f["part_number"])]
    gap = [sv("U"), int_to_str(f["gap_length"]), f["gap_type"], sv("yes"), sv("proximity_ligation")]
    frag = [sv("W"), f["component_id"], int_to_str(f["component_beg"]), int_to_str(f["component_end"]), f["orientation"]]
    return head, gap, frag, f["tags"]


def agp_cols(name, p, i, r):
    """the AGP columns of row r, the i-th row (0-based) of object `name`, p bases of the object before it"""
    g, f = agp_cols_parts(name, p, i, r)
    return z3.If(r.is_gap, g, f)


@contract(f"{M}.format_agp", kind="function", properties=("C06", "C05"))
class _:
    params = {"asm": TRef("Assembly"), "file": TRef("TextOut")}
    result = NONE
    local_types = {"cols": STRLIST}

    @staticmethod
    def requires(o):
        # the output list is not one of the lists being read
        return z3.And(o.file.g_out.z != o.asm.header.z)

    @staticmethod
    def modifies(o):
        return [("list", STR, o.file.g_out)]

    @staticmethod
    def ensures(o, n, res):
        a, b = o.file.g_out, n.file.g_out
        return [
            ("appends-only", z3.And(b.same(a), b.len >= a.len, forall(lambda k: z3.Implies(z3.And(0 <= k, k < a.len), b[k] == a[k])))),
        ]

    loops = {
        0: LoopSpec(kind="for", iter_src="asm.header",
                    inv=lambda v, e, o: _appends(v, o)),
        1: LoopSpec(kind="for", iter_src="asm.scaffolds",
                    inv=lambda v, e, o: _appends(v, o)),
        2: LoopSpec(
            kind="for",
            iter_src="enumerate(scffld.rows)",
            inv=lambda v, e, o: _appends(v, o) + [
                # running position: "rows tile the object from 1 with no hole or overlap"
                ("p-is-cum", v.p == v.scffld.rows.cum(v._it2)),
                ("counter", z3.And(0 <= v._it2, v._it2 <= v.scffld.rows.len)),
                ("name", v.scffld_name == v.scffld.name),
            ],
            # one iteration writes exactly the line of row i and a newline
            iter_post=lambda v, b, e: (lambda out1, out0, rows: [
                ("two-writes", out1.len == out0.len + 2),
                ("line", out1[out0.len] == smt.strjoin(TAB, agp_cols(b.scffld.name, rows.cum(b.i), b.i, b.row))),
                ("newline", out1[out0.len + 1] == sv("\n")),
                ("row-is-ith", z3.And(b.i == b._it2, b.row.z == rows[b.i].z)),
            ])(v.file.g_out, b.file.g_out, b.scffld.rows),
        ),
    }


def _appends(v, o):
    a, b = o.file.g_out, v.file.g_out
    return [("appends-only", z3.And(b.same(a), b.len >= a.len, forall(lambda k: z3.Implies(z3.And(0 <= k, k < a.len), b[k] == a[k]))))]


# --- TPF ---------------------------------------------------------------------------------------------

from pyvc.values import TConst, Val  # noqa: E402

UPPER_DASH = "upper_dash"  # str.translate(uppercase_and_underscore_to_dash()): a-z -> A-Z, '_' -> '-'
LOWER_UNDERSCORE = "lower_underscore"  # str.translate(lowercase_and_dash_to_underscore())


@contract(f"{M}.uppercase_and_underscore_to_dash", kind="function", status="TRUSTED")
class _:
    params = {}
    result = None
    fresh_result = staticmethod(lambda s, o: Val(TConst(), ("strtable", UPPER_DASH)))


def tpf_gap_type(t):
    """C05: 'the TYPE-2/TYPE-3/upper-case-dash gap-type mapping'"""
    return z3.If(t == sv("scaffold"), sv("TYPE-2"), z3.If(t == sv("contig"), sv("TYPE-3"), smt.str_fn(UPPER_DASH)(t)))


def tpf_strand(r):
    return z3.If(r.strand == 0, sv("UNKNOWN"), z3.If(r.strand == 1, sv("PLUS"), sv("MINUS")))


def tpf_cols_parts(name, r):
    gap = seq(sv("GAP"), tpf_gap_type(r.gap_type), int_to_str(r.length))
    frag = seq(sv("?"), z3.Concat(r.name, sv(":"), int_to_str(r.start), sv("-"), int_to_str(r.end)), name, tpf_strand(r))
    return gap, frag


def tpf_cols(name, r):
    gap, frag = tpf_cols_parts(name, r)
    return z3.If(r.is_gap, gap, frag)


@contract(f"{M}.format_tpf", kind="function", properties=("C05",))
class _:
    params = {"asm": TRef("Assembly"), "file": TRef("TextOut")}
    result = NONE

    @staticmethod
    def requires(o):
        return z3.And(o.file.g_out.z != o.asm.header.z)

    @staticmethod
    def modifies(o):
        return [("list", STR, o.file.g_out)]

    @staticmethod
    def ensures(o, n, res):
        a, b = o.file.g_out, n.file.g_out
        return [("appends-only", z3.And(b.same(a), b.len >= a.len, forall(lambda k: z3.Implies(z3.And(0 <= k, k < a.len), b[k] == a[k]))))]

    loops = {
        0: LoopSpec(kind="for", iter_src="asm.header", inv=lambda v, e, o: _appends(v, o),
                    iter_post=lambda v, b, e: [("header-line", z3.And(v.file.g_out.len == b.file.g_out.len + 1,
                                                                    v.file.g_out[b.file.g_out.len] == z3.Concat(sv("## "), b.line, sv("\n"))))]),
        1: LoopSpec(kind="for", iter_src="asm.scaffolds", inv=lambda v, e, o: _appends(v, o)),
        2: LoopSpec(
            kind="for",
            iter_src="scffld.rows",
            inv=lambda v, e, o: _appends(v, o) + [("name", v.scffld_name == v.scffld.name)],
            # one iteration writes exactly the TPF line of this row and a newline
            iter_post=lambda v, b, e: (lambda out1, out0: [
                ("two-writes", out1.len == out0.len + 2),
                ("line", out1[out0.len] == smt.strjoin(TAB, tpf_cols(b.scffld.name, b.row))),
                ("newline", out1[out0.len + 1] == sv("\n")),
            ])(v.file.g_out, b.file.g_out),
        ),
    }
