"""
C13 bounded tier: buffer-size independence and the memory bound.

Independence: for generated FASTA files, index_fasta_file(path, b) -> (faidx rows, AGP text of the derived
assembly) and FastaStream output for several assemblies over the file (the derived one, its reversal, random
multi-row scaffolds with minus/unknown strands and gaps) must be byte-identical for every buffer size b in
{1, 2, primes, line width +-1, run/record length +-1, larger than everything}; the common value is also
compared with the model (bounded/fasta_gen.py), so that "identical but wrong for all" is seen too.

Memory clause, small scope (deterministic): every chunk yielded by get_sequence_iter / get_gap_iter holds at
most buffer_size residues and every span requested from sequence_bytes while streaming is at most buffer_size.

Memory clause, small scope, reads: while streaming, no single read() from the FASTA file returns more than
buffer_size residues (line terminators not counted): reading every whole line a span touches holds more than a
buffer of one sequence as soon as lines are longer than the buffer.

Memory clause, small scope, writes: what is handed to the output in ONE write() is in memory at that moment, so no
single write() may carry more than buffer_size residues of one fragment or gap (header lines and line ends are not
residues; a line that happens to be put together from several short rows is not judged, only what it holds of any one
row): a consumer that collects chunks - a whole output line, a whole row, a block of its own size - before it writes
holds more than a buffer of one fragment as soon as line / row / block are longer than the buffer.  Checked on every
(file, assembly, buffer size) of the independence cases, for line lengths below, at and far above the buffer sizes.

State across calls: ONE FastaIndex object used for a script of several calls - several FastaStreams with
different gap characters and line lengths, different assemblies, the buffer_size attribute changed between
calls, in different orders (all ordered pairs of a pool of (buffer, gap character) settings on a designed file
with gaps shorter than / equal to / several times the buffers; random scripts on the random files).  Every call
must write exactly what the model says for ITS gap character (= what fresh objects write), its chunks must be at
most ITS buffer size, and the iterators called directly must deliver the same residues.

Memory clause, resource check: tracemalloc peaks on a file with a long mixed record and a record that is one
long gap (each hundreds of buffers), for EVERY public route that is given a buffer size, with a small buffer:
  - index_fasta_file(path, b);
  - FastaIndex(path, buffer_size=b).auto_load() with no cache files, FastaIndex(path, b).auto_load() with cache
    files older than the FASTA file, FastaIndex(path, b).run_indexing(), and auto_load() from up-to-date caches;
  - FastaStream over the index objects those routes leave behind (the derived assembly = long forward fragments
    and the long gap; a long reverse fragment), and over an index handed to FastaIndex(path, b) directly (long
    forward fragment, long reverse fragment, long gap), into a sink that only hashes; the same three kinds of row
    and a scaffold of all three with OUTPUT lines far longer than the buffer (line_length = a few, tens, hundreds of
    buffers and 10**9 = unwrapped output: "however long" a line is asked for, it is no allowance for the consumer);
    the sink also notes the largest single write();
  - thorough tier: the pretext-to-asm command (it has NO buffer option - checked in --help - so the bound is the
    documented default of 250 000) on a chromosome 34 default buffers long, FASTA in, FASTA out, no caches.
The files include UNWRAPPED / long-line FASTA (whole record on one line, or lines tens of buffers long): the
statement allows one input line while indexing only, so the streaming routes get no allowance for the line.
Indexing, lines longer than the buffer (long_line_check): "buffer-size residues plus ONE input line, however long the
chromosome" - so the indexing routes are measured on records MANY lines long whose lines are longer than the buffer
(line = buffer + 1, 2 x buffer -+ 1, 10 x, 20 x, 100 x, thousands of buffers; buffers 1 .. 50 000; lines up to 250 000
residues = "unwrapped" chromosomes cut into a few dozen lines; LF and CRLF; a mixed record and a record that is one long
gap).  Each record is >= 60 lines and >= 8 x the allowance for its (buffer, line), so an indexer that takes less than a
line out of its buffer per line read, or puts long lines aside, holds several times the allowance; the same file
indexed with a buffer larger than everything shows what holding a record costs (memory_discrimination).
Allowance (memory_limit): 16 x buffer_size + 64 KiB (+ 8 x input line while indexing); unchanged tree: 5-40 KB.
Every file has records >= 2 x that limit (4.5 x in the quick tier), and the same routes are run with a buffer larger than
everything: those peaks (not judged; reported under memory_discrimination) are 4-13 x the limit, i.e. a route
that ignores its small buffer and holds a record, fragment or gap whole is reported.  The routes must also
agree on the result: same faidx rows / derived assembly as index_fasta_file(path, b), byte-identical .fai and
.agp files for the small and the large buffer, streamed bytes hashing to the model's FASTA text.
"""

import hashlib
import io
import os
import pathlib
import random
import shutil
import tracemalloc

from tola.assembly.assembly import Assembly
from tola.fasta.index import FastaIndex, index_fasta_file
from tola.fasta.stream import FastaStream

from . import fasta_gen as G
from .common import Collector, agp_text, row_spec, scaffold_from


def close_index(fi):
    fh = fi.__dict__.pop("fasta_fileandle", None)
    if fh is not None:
        fh.close()


def index_signature(path, bs):
    idx, asm = index_fasta_file(path, bs)
    rows = tuple((n, i.length, i.file_offset, i.residues_per_line, i.max_line_length) for n, i in idx.items())
    return idx, asm, (rows, agp_text(asm))


def derived_specs(case):
    """the derived assembly according to the model"""
    out = []
    for r in case.records:
        rows = [["G", t[1], "scaffold"] if t[0] == "G" else ["F", r.name, t[1], t[2], 1, []] for t in G.tiling(r.seq)]
        out.append((r.name, rows))
    return out


def assemblies_for(case, rng, extra=2):
    """[(label, [(scaffold name, specs)])]: derived, reversed by the model, and random ones"""
    der = derived_specs(case)
    rev = [(n, [s if s[0] == "G" else [s[0], s[1], s[2], s[3], -s[4], s[5]] for s in reversed(rows)]) for n, rows in der]
    out = [("derived", der), ("derived reversed", rev)]
    for k in range(extra):
        scs = []
        for si in range(rng.randint(1, 2)):
            rows = []
            for _ in range(rng.randint(1, 4)):
                if rng.random() < 0.3:
                    rows.append(["G", rng.choice((0, 1, 2, 3, 5, 8, 13, 200)), "scaffold"])
                else:
                    r = rng.choice(case.records)
                    L = len(r.seq)
                    s = rng.randint(1, L)
                    e = rng.choice((L, rng.randint(s, L)))
                    rows.append(["F", r.name, s, e, rng.choice((1, -1, -1, 0)), []])
            scs.append((f"r{k}_{si}", rows))
        out.append((f"random {k}", scs))
    return out


class ReadSpy:
    """file object that notes how many residues (bytes other than CR / LF) each read() returns"""

    def __init__(self, fh, log):
        self._fh = fh
        self._log = log

    def read(self, *args):
        data = self._fh.read(*args)
        self._log.append(len(data) - data.count(b"\n") - data.count(b"\r"))
        return data

    def __getattr__(self, name):
        return getattr(self._fh, name)


def spy_on_reads(fi, log):
    """the file handle FastaIndex reads sequence from is a cached attribute: put a spy in its place"""
    fi.__dict__["fasta_fileandle"] = ReadSpy(fi.fasta_file.open("rb"), log)


class WriteSpy(io.BytesIO):
    """output that notes the size of every write()"""

    def __init__(self, sizes):
        super().__init__()
        self._sizes = sizes

    def write(self, b):
        self._sizes.append(len(b))
        return super().write(b)


def worst_write(data, sizes, scaffolds, bs):
    """
    the write() that carried most residues of ONE row, if that is more than bs: (residues of the row, row spec, bytes
    of the write) or None.  data = everything written, sizes = length of each write in order, scaffolds = what was
    streamed [(name, specs)].  Header lines (from '>' at the start of a line) and line ends are not residues.
    """
    if not sizes or max(sizes) <= bs:
        return None
    # bodies of the records: [start, end) of the bytes behind each header line
    bodies = []
    p = 0 if data[:1] == b">" else data.find(b"\n>") + 1
    while 0 <= p < len(data) and data[p : p + 1] == b">":
        he = data.find(b"\n", p)
        he = len(data) if he < 0 else he + 1
        nxt = data.find(b"\n>", he - 1)
        end = len(data) if nxt < 0 else nxt + 1
        bodies.append((he, end))
        p = end
    worst = None
    o = 0
    for size in sizes:
        a, b = o, o + size
        o = b
        if size <= bs:
            continue
        for (he, end), (_, specs) in zip(bodies, scaffolds):
            lo, hi = max(a, he), min(b, end)
            if lo >= hi:
                continue
            r0 = (lo - he) - data.count(b"\n", he, lo)
            r1 = r0 + (hi - lo) - data.count(b"\n", lo, hi)
            at = 0
            for spec in specs:
                ln = spec_len(spec)
                held = min(r1, at + ln) - max(r0, at)
                if held > bs and (worst is None or held > worst[0]):
                    worst = (held, spec, size)
                at += ln
    return worst


def stream_bytes(path, bs, idx, scaffolds, line_length, audit=None, reads=None, writes=None):
    fi = FastaIndex(path, bs)
    fi.index = idx
    if reads is not None:
        spy_on_reads(fi, reads)
    if audit is not None:
        real = fi.sequence_bytes

        def spy(info, start, end):
            audit.append(end - start + 1)
            return real(info, start, end)

        fi.sequence_bytes = spy
    out = io.BytesIO() if writes is None else WriteSpy(writes)
    try:
        FastaStream(out, fi, line_length=line_length).write_assembly(
            Assembly("a", scaffolds=[scaffold_from(n, specs) for n, specs in scaffolds])
        )
    finally:
        close_index(fi)
    return out.getvalue()


def chunk_sizes(path, bs, idx, scaffolds):
    """sizes of the chunks handed out by the iterators, per row"""
    fi = FastaIndex(path, bs)
    fi.index = idx
    worst = 0
    try:
        for n, specs in scaffolds:
            for row in scaffold_from(n, specs).rows:
                itr = fi.get_gap_iter(row) if row_spec(row)[0] == "G" else fi.get_sequence_iter(row)
                for chunk in itr:
                    worst = max(worst, len(chunk.getvalue()))
    finally:
        close_index(fi)
    return worst


def check_file(case, path, buffers, assemblies, line_length):
    """-> list of (message, detail dict)"""
    problems = []
    case.write(path)
    try:
        ref = None
        sigs = {}
        idx_ref = None
        for bs in buffers:
            try:
                idx, asm, sig = index_signature(path, bs)
            except Exception as e:  # noqa: BLE001
                problems.append((f"index_fasta_file(buffer {bs}) raised {e!r}", {"buffer": bs}))
                continue
            sigs[bs] = sig
            if ref is None:
                ref, idx_ref = bs, idx
            elif sig != sigs[ref]:
                a, b = sigs[ref], sig
                what = "faidx rows" if a[0] != b[0] else "derived assembly (AGP text)"
                problems.append((f"indexing with buffer {bs} and buffer {ref} differ in the {what}: {b[0] if a[0] != b[0] else b[1][-200:]!r} vs {a[0] if a[0] != b[0] else a[1][-200:]!r}", {"buffer": bs}))
        if idx_ref is None:
            return problems
        # the common result against the model
        want_rows = [[n, [s[:5] if s[0] == "F" else s[:2] for s in rows]] for n, rows in derived_specs(case)]
        objects, _ = G.parse_agp_text(sigs[ref][1])
        got_rows = []
        for name, rows in objects:
            _, _, specs = G.check_agp_object(name, rows)
            got_rows.append([name, [s[:5] if s[0] == "F" else s[:2] for s in specs]])
        if got_rows != want_rows:
            problems.append((f"derived assembly at buffer {ref} is {got_rows}, maximal runs of the file are {want_rows}", {"buffer": ref}))
        seqs = case.seqs()
        for label, scs in assemblies:
            want = [(n, G.apply_rows(seqs, specs)) for n, specs in scs]
            outs = {}
            for bs in buffers:
                audit = []
                reads = []
                writes = []
                try:
                    outs[bs] = stream_bytes(path, bs, idx_ref, scs, line_length, audit, reads, writes)
                except Exception as e:  # noqa: BLE001
                    problems.append((f"streaming '{label}' with buffer {bs} raised {e!r}", {"buffer": bs, "assembly": scs}))
                    continue
                first = next(iter(outs))
                if outs[bs] != outs[first]:
                    problems.append((f"streaming '{label}' with buffer {bs} gives {len(outs[bs])} bytes, different from buffer {first} ({len(outs[first])} bytes)", {"buffer": bs, "assembly": scs}))
                if audit and max(audit) > bs:
                    problems.append((f"streaming '{label}' with buffer {bs} requested {max(audit)} residues of one sequence at once", {"buffer": bs, "assembly": scs}))
                if reads and max(reads) > bs:
                    problems.append((f"streaming '{label}' with buffer {bs}: one read() from the FASTA file returned {max(reads)} residues of a sequence (line width {case.width}): more than buffer-size residues held at once", {"buffer": bs, "assembly": scs}))
                held = worst_write(outs[bs], writes, scs, bs)
                if held:
                    problems.append((
                        f"streaming '{label}' with buffer {bs}, line length {line_length}: one write() to the output ({held[2]} bytes) carried {held[0]} residues of the row "
                        f"{held[1][:5]}: the consumer collects more than buffer-size residues of one fragment or gap before it writes them",
                        {"buffer": bs, "assembly": scs},
                    ))
                try:
                    worst = chunk_sizes(path, bs, idx_ref, scs)
                except Exception as e:  # noqa: BLE001
                    worst = 0
                    problems.append((f"chunk iterators raised {e!r} with buffer {bs}", {"buffer": bs, "assembly": scs}))
                if worst > bs:
                    problems.append((f"a chunk of {worst} residues was yielded with buffer {bs} ('{label}')", {"buffer": bs, "assembly": scs}))
            if outs:
                first = next(iter(outs))
                m = G.compare_written_fasta(outs[first], want, line_length)
                if m:
                    problems.append((f"streaming '{label}' with buffer {first}: {m[0]}", {"buffer": first, "assembly": scs}))
    finally:
        G.remove_with_caches(path)
    return problems


# ----------------------------------------------------------------------------------------------------------
# state across calls: one FastaIndex, several streams / calls with different settings

GAP_CHARS = ("N", "n", "-", "X")


def run_step(fi, seqs, step):
    """one call on the index object fi -> message or None.  step = [buffer_size, gap character, line length, [(name, specs)]]"""
    bs, gc, line_length, scs = step
    gcb = gc.encode("latin-1")
    if fi.buffer_size != bs:
        fi.buffer_size = bs
    out = io.BytesIO()
    FastaStream(out, fi, line_length=line_length, gap_character=gcb).write_assembly(
        Assembly("a", scaffolds=[scaffold_from(n, specs) for n, specs in scs])
    )
    want = [(n, G.apply_rows(seqs, specs, gcb)) for n, specs in scs]
    m = G.compare_written_fasta(out.getvalue(), want, line_length)
    if m:
        return f"FastaStream(gap_character={gcb!r}, line_length={line_length}) with buffer_size {bs}: {m[0]}"
    # the iterators called directly, row by row
    for n, specs in scs:
        for spec, row in zip(specs, scaffold_from(n, specs).rows):
            itr = fi.get_gap_iter(row, gcb) if spec[0] == "G" else fi.get_sequence_iter(row)
            got = bytearray()
            for chunk in itr:
                b = chunk.getvalue()
                if len(b) > bs:
                    return f"{'get_gap_iter' if spec[0] == 'G' else 'get_sequence_iter'}({spec}) yielded a chunk of {len(b)} residues with buffer_size {bs}"
                got += b
            if bytes(got) != G.apply_rows(seqs, [spec], gcb):
                return (
                    f"{'get_gap_iter' if spec[0] == 'G' else 'get_sequence_iter'}({spec}, gap character {gcb!r}) with buffer_size {bs} "
                    f"delivered {len(got)} residues {bytes(got[:24])!r}..., expected {spec_len(spec)} residues {G.apply_rows(seqs, [spec], gcb)[:24]!r}..."
                )
    return None


def spec_len(spec):
    return spec[1] if spec[0] == "G" else spec[3] - spec[2] + 1


def run_script(path, idx, seqs, steps):
    """all steps on ONE FastaIndex -> (index of the first failing step, message) or None"""
    fi = FastaIndex(path, steps[0][0])
    fi.index = idx
    try:
        for k, step in enumerate(steps):
            try:
                m = run_step(fi, seqs, step)
            except Exception as e:  # noqa: BLE001
                m = f"raised {e!r}"
            if m:
                return k, m
    finally:
        close_index(fi)
    return None


def check_shared(case, path, scripts):
    """-> list of (message, steps that reproduce it)"""
    problems = []
    case.write(path)
    try:
        try:
            idx, _ = index_fasta_file(path, 250_000)
        except Exception:  # noqa: BLE001  (reported by check_file)
            return problems
        seqs = case.seqs()
        for steps in scripts:
            bad = run_script(path, idx, seqs, steps)
            if bad is None:
                continue
            k, m = bad
            alone = run_script(path, idx, seqs, [steps[k]])
            if alone is not None:
                problems.append((f"call on a fresh FastaIndex: {alone[1]}", [steps[k]]))
                continue
            # shortest history that shows it: one earlier call + the failing one, else the whole prefix
            shown = steps[: k + 1]
            for j in range(k):
                pair = run_script(path, idx, seqs, [steps[j], steps[k]])
                if pair is not None and pair[0] == 1:
                    shown, m = [steps[j], steps[k]], pair[1]
                    break
            before = "; ".join(f"buffer_size {s[0]}, gap character {s[1]!r}, line length {s[2]}" for s in shown[:-1])
            problems.append((
                f"call {len(shown)} on ONE FastaIndex object (earlier calls on it: {before}) - {m}; the same call on a fresh "
                "FastaIndex writes the expected bytes: the result depends on what the index object was used for before",
                shown,
            ))
    finally:
        G.remove_with_caches(path)
    return problems


def designed_shared_case():
    """two records, gaps of 0, 1, 7, 20 and 45 between / around fragments (shorter than, equal to, several times the buffers)"""
    case = G.FastaCase([G.Rec("s1", G.FILL_ACGT[:33]), G.Rec("s2", G.FILL_ACGT[40:40 + 33])], 5)
    scs_a = [("a1", [["F", "s1", 1, 20, 1, []], ["G", 20, "scaffold"], ["F", "s2", 1, 20, -1, []], ["G", 7, "scaffold"], ["F", "s1", 5, 33, 0, []]])]
    scs_b = [("b1", [["G", 45, "scaffold"], ["F", "s2", 5, 33, 1, []], ["G", 1, "scaffold"], ["G", 0, "scaffold"]]), ("b2", [["F", "s1", 5, 33, -1, []], ["G", 21, "scaffold"]])]
    return case, scs_a, scs_b


def designed_scripts(scs_a, scs_b, length, rng=None, count=0):
    """every ordered selection of `length` distinct settings from the pool (or `count` random ones when given)"""
    import itertools

    pool = [(bs, gc) for bs in (1, 3, 7, 20, 21, 250_000) for gc in ("N", "n", "-")]
    if rng is None:
        picks = itertools.permutations(pool, length)
    else:
        picks = (rng.sample(pool, length) for _ in range(count))
    for pick in picks:
        yield [[bs, gc, (60, 7)[(i + bs) % 2], (scs_a, scs_b)[i % 2]] for i, (bs, gc) in enumerate(pick)]


def random_script(case, assemblies, buffers, rng, n_steps):
    steps = []
    bs = rng.choice(buffers)
    for _ in range(n_steps):
        if rng.random() < 0.5:
            bs = rng.choice(buffers)
        steps.append([bs, rng.choice(GAP_CHARS), rng.choice((60, 7, case.width)), rng.choice(assemblies)[1]])
    return steps


# ----------------------------------------------------------------------------------------------------------
# resource check

KIB = 1024
ONE_LINE = 10**9  # as line width of a file / output line length: everything on one line
DEFAULT_BUFFER = 250_000  # documented default of FastaIndex / index_fasta_file, the only size the CLI can use
_MASK = bytes(b if b in G.ACGT else 78 for b in range(256))  # every non-ACGT symbol -> N
_COMP = bytes(G.COMPLEMENT)


class HashSink:
    """binary sink that keeps nothing"""

    def __init__(self):
        self.h = hashlib.sha256()
        self.n = 0
        self.most = 0  # most residues in one write() (header line and line ends not counted)

    def write(self, b):
        self.h.update(b)
        self.n += len(b)
        if len(b) > self.most:
            body = b = bytes(b)
            if b[:1] == b">":
                cut = b.find(b"\n")
                body = b[cut + 1 :] if cut >= 0 else b""
            self.most = max(self.most, len(body) - body.count(b"\n"))
        return len(b)


def long_record(n, seed):
    rng = random.Random(seed)
    # few, long runs: the run list kept by the indexer stays tiny, so the measurement is about residues
    parts = []
    total = 0
    k = 0
    while total < n:
        ln = min(n - total, rng.randint(n // 7, n // 4))
        parts.append(bytes(rng.choices(b"ACGTacgt", k=ln)) if k % 2 == 0 else bytes(rng.choices(b"NnR", k=min(ln, 5000))))
        total += len(parts[-1])
        k += 1
    return b"".join(parts)


_ACGT8 = bytes(b"ACGTacgt"[i % 8] for i in range(256))
_OTHER4 = bytes(b"NnRN"[i % 4] for i in range(256))


def long_record_fast(n, seed):
    """as long_record (few long runs, ACGT and other symbols in turn, n residues), for records of several MB"""
    rng = random.Random(seed)
    parts = []
    total = 0
    k = 0
    while total < n:
        ln = min(n - total, rng.randint(n // 7, n // 4))
        parts.append(rng.randbytes(ln).translate(_ACGT8) if k % 2 == 0 else rng.randbytes(min(ln, 5000)).translate(_OTHER4))
        total += len(parts[-1])
        k += 1
    return b"".join(parts)


def gap_record(n_gap):
    """two short contigs around ONE run of n_gap non-ACGT residues (a gap hundreds of buffers long in the file)"""
    return b"ACGTTGCAAC" + (b"NNNNnNNRNn" * (n_gap // 10 + 1))[:n_gap] + b"GATTACA"


def memory_limit(bs, width=0, indexing=False):
    """
    the documented allowance: the statement allows buffer-size residues (+ one input line while indexing); a
    BytesIO that is filled, copied out once and wrapped costs a small multiple of that, and open files, the
    index dict, a handful of rows and AGP text cost a constant: 16 x buffer_size + 64 KiB (+ 8 x line)
    """
    return 16 * bs + 64 * KIB + (8 * (width + 2) if indexing else 0)


def traced_peak(fn):
    """-> (peak traced bytes above the level at the call, result of fn)"""
    was_tracing = tracemalloc.is_tracing()
    if not was_tracing:
        tracemalloc.start()
    try:
        tracemalloc.reset_peak()
        base = tracemalloc.get_traced_memory()[0]
        res = fn()
        peak = tracemalloc.get_traced_memory()[1] - base
    finally:
        if not was_tracing:
            tracemalloc.stop()
    return peak, res


def cache_paths(path):
    return pathlib.Path(str(path) + ".fai"), pathlib.Path(str(path) + ".agp")


def cache_bytes(path):
    return tuple(p.read_bytes() if p.exists() else None for p in cache_paths(path))


def drop_caches(path):
    for p in cache_paths(path):
        p.unlink(missing_ok=True)


def age_caches(path):
    """make the cache files older than the FASTA file (auto_load must then index again)"""
    t = path.stat().st_mtime - 50
    for p in cache_paths(path):
        os.utime(p, (t, t))


def index_rows(idx):
    return tuple((n, i.length, i.file_offset, i.residues_per_line, i.max_line_length) for n, i in idx.items())


def long_output_lines(bs, n_buffers, quick):
    """output line lengths far above the buffer (and above the memory allowance), up to unwrapped output"""
    n = bs * n_buffers
    some = 4 * memory_limit(bs) + 13
    if quick:
        return [ONE_LINE] if n_buffers % 100 else [min(some, n // 2)]
    return sorted({min(some, n // 2), n // 3 + 1, 3 * n + 100, ONE_LINE})


def memory_check(d, bs, n_buffers, width, seed, eol=b"\n", line_lengths=(), all_rows=True):
    """
    every public route that is given a buffer size, with a small buffer on a record / fragment / gap n_buffers
    buffers long -> (messages, measured peaks).  The same routes with a buffer larger than everything are
    measured too ("large buffer: ..."): those peaks are not judged, they show that the measurement sees a whole
    record when one is held (see discrimination()).
    line_lengths: further OUTPUT line lengths (the routes above write lines of 60) for the streaming routes of part 3;
    all_rows: each kind of row on its own (first line length and unwrapped) as well as the scaffold of all three.
    """
    msgs = []
    n = bs * n_buffers + 17
    seq = long_record(n, seed)
    gappy = gap_record(bs * n_buffers + 3)
    case = G.FastaCase([G.Rec("short", b"ACGTNNAC"), G.Rec("long", seq), G.Rec("gappy", gappy)], width, eol, True)
    big = max(DEFAULT_BUFFER, len(seq), len(gappy)) + 1000
    nominal_width, width = width, min(width, max(len(seq), len(gappy)))  # longest line actually in the file
    layout = f"FASTA file lines of {width}" + (" = whole record on one line" if nominal_width >= max(len(seq), len(gappy)) else "")
    path = d / "mem.fa"
    case.write(path)
    t = path.stat().st_mtime - 100
    os.utime(path, (t, t))  # cache files written from now on are newer than the FASTA file
    peaks = {}
    opened = []

    def measured(label, fn, size=bs, judged=True):
        indexing = "indexing" in label
        limit = memory_limit(size, width, indexing)
        peak, res = traced_peak(fn)
        peaks[label] = peak
        if judged and peak > limit:
            msgs.append(
                f"{label}: peak traced memory {peak} bytes > limit {limit} = 16 x buffer + 64 KiB"
                f"{' + 8 x line' if indexing else ''} (buffer_size {size}, {layout}, records of {len(seq)} and "
                f"{len(gappy)} residues = {n_buffers} buffers): more than a few buffers of residues were held at once"
            )
        return res

    def new_index(size, keyword=False):
        fi = FastaIndex(path, buffer_size=size) if keyword else FastaIndex(path, size)
        opened.append(fi)
        return fi

    seqs = case.seqs()
    derived_want = hashlib.sha256(G.expected_fasta([(r.name, r.seq.translate(_MASK)) for r in case.records], 60)).hexdigest()
    rev_specs = [["F", "long", 2, n - 1, -1]]
    rev_want = hashlib.sha256(G.expected_fasta([("m", seq[1 : n - 1][::-1].translate(_COMP))], 60)).hexdigest()

    def stream(label, fi, what, want, size=bs, judged=True, line_length=60):
        """what: a scaffold to write with write_scaffold, or None = write_assembly(fi.assembly)"""
        sink = HashSink()
        try:
            if what is None:
                measured(label, lambda: FastaStream(sink, fi, line_length=line_length).write_assembly(fi.assembly), size, judged)
            else:
                measured(label, lambda: FastaStream(sink, fi, line_length=line_length).write_scaffold(what), size, judged)
        except Exception as e:  # noqa: BLE001
            msgs.append(f"{label} raised {e!r}")
            return
        if sink.h.hexdigest() != want:
            msgs.append(f"{label}: the {sink.n} bytes written do not hash to the expected FASTA text")
        # n_rows x buffer_size residues in one write() hold more than a buffer of one of the rows
        n_rows = len(what.rows) if what is not None else max(len(sc.rows) for sc in fi.assembly.scaffolds)
        if judged and sink.most > n_rows * size:
            msgs.append(
                f"{label}: one write() to the output carried {sink.most} residues (buffer_size {size}, output line length {line_length}, "
                f"{n_rows} row{'s' if n_rows > 1 else ''} in the scaffold): the consumer collects more than buffer-size residues of one fragment or gap before it writes them"
            )

    def same_as_direct(label, fi, idx, asm):
        if fi.index is None or fi.assembly is None:
            msgs.append(f"{label}: index / assembly not set afterwards")
            return False
        if index_rows(fi.index) != index_rows(idx):
            msgs.append(f"{label}: faidx rows {index_rows(fi.index)} differ from index_fasta_file(path, {bs}): {index_rows(idx)}")
        a, b = agp_text(fi.assembly), agp_text(asm)
        strip = lambda t: "\n".join(ln for ln in t.splitlines() if not ln.startswith("#"))  # noqa: E731
        if strip(a) != strip(b):
            msgs.append(f"{label}: derived assembly differs from that of index_fasta_file(path, {bs}): ...{a[-200:]!r} vs ...{b[-200:]!r}")
        return True

    try:
        # 1. the indexing function itself
        try:
            idx, asm = measured("indexing a long record", lambda: index_fasta_file(path, bs))
        except Exception as e:  # noqa: BLE001
            return [f"index_fasta_file raised {e!r}"], peaks
        for name, want_len in (("long", len(seq)), ("gappy", len(gappy))):
            info = idx.get(name)
            if info is None or info.length != want_len:
                msgs.append(f"record '{name}' indexed with length {getattr(info, 'length', None)}, file has {want_len}")
                return msgs, peaks
        idx_big, asm_big = measured("large buffer: indexing a long record", lambda: index_fasta_file(path, buffer_size=big), big, False)
        if (index_rows(idx_big), agp_text(asm_big)) != (index_rows(idx), agp_text(asm)):
            msgs.append(f"index_fasta_file with buffer {bs} and buffer {big} give different faidx rows / derived assemblies")

        # 2. the object routes: FastaIndex(path, buffer_size).auto_load() / .run_indexing()
        drop_caches(path)
        cold = new_index(bs, keyword=True)
        label = f"indexing through FastaIndex(path, buffer_size={bs}).auto_load(), no cache files"
        try:
            measured(label, cold.auto_load)
        except Exception as e:  # noqa: BLE001
            msgs.append(f"{label} raised {e!r}")
            return msgs, peaks
        caches = cache_bytes(path)
        if None in caches:
            msgs.append(f"{label}: .fai / .agp not written")
            return msgs, peaks
        usable = same_as_direct(label, cold, idx, asm)
        if usable:
            stream("streaming the derived assembly (long fragments, long gap) from the index auto_load() built", cold, None, derived_want)
            stream("streaming a long reverse fragment from the index auto_load() built", cold, scaffold_from("m", rev_specs), rev_want)

        age_caches(path)
        stale = new_index(bs)
        label = f"indexing through FastaIndex(path, {bs}).auto_load(), cache files older than the FASTA file"
        try:
            measured(label, stale.auto_load)
            if cache_bytes(path) != caches:
                msgs.append(f"{label}: .fai / .agp differ from those of the first indexing run")
        except Exception as e:  # noqa: BLE001
            msgs.append(f"{label} raised {e!r}")

        again = new_index(bs)
        label = f"indexing through FastaIndex(path, {bs}).run_indexing()"
        try:
            measured(label, again.run_indexing)
            if cache_bytes(path) != caches:
                msgs.append(f"{label}: .fai / .agp differ from those of the first indexing run")
            same_as_direct(label, again, idx, asm)
        except Exception as e:  # noqa: BLE001
            msgs.append(f"{label} raised {e!r}")

        warm = new_index(bs)
        label = f"FastaIndex(path, {bs}).auto_load() with up-to-date cache files"
        try:
            measured(label, warm.auto_load)
            usable = same_as_direct(label, warm, idx, asm)
        except Exception as e:  # noqa: BLE001
            msgs.append(f"{label} raised {e!r}")
            usable = False
        if usable:
            stream("streaming the derived assembly (long fragments, long gap) from the index auto_load() read from cache", warm, None, derived_want)
            stream("streaming a long reverse fragment from the index auto_load() read from cache", warm, scaffold_from("m", rev_specs), rev_want)

        drop_caches(path)
        cold_big = new_index(big, keyword=True)
        label = "large buffer: indexing through FastaIndex(path, buffer_size=big).auto_load(), no cache files"
        try:
            measured(label, cold_big.auto_load, big, False)
            if cache_bytes(path) != caches:
                msgs.append(f"FastaIndex.auto_load() with buffer_size {bs} and {big} write different .fai / .agp files")
        except Exception as e:  # noqa: BLE001
            msgs.append(f"{label} raised {e!r}")

        # 3. streaming with an index that was handed to the object (no cache files involved)
        jobs = [
            ("streaming a long forward fragment", [["F", "long", 2, n - 1, 1]]),
            ("streaming a long reverse fragment", rev_specs),
            ("streaming a long gap", [["G", n, "scaffold"]]),
        ]
        for label, specs in jobs:
            want = rev_want if specs is rev_specs else hashlib.sha256(G.expected_fasta([("m", G.apply_rows(seqs, specs))], 60)).hexdigest()
            for size, judged in ((bs, True), (big, False)):
                fi = new_index(size)
                fi.index = idx
                stream(label if judged else "large buffer: " + label, fi, scaffold_from("m", specs), want, size, judged)
        # the same rows, and a scaffold of all three, written in lines far longer than the buffer
        mixed = [["F", "long", 2, n - 1, 1], ["G", n // 2, "scaffold"], ["F", "long", 2, n - 1, -1]]
        for L in line_lengths:
            how = "unwrapped output (line length 10**9)" if L >= ONE_LINE else f"output lines of {L}"
            kinds = [("streaming a scaffold of a long forward fragment, a long gap and a long reverse fragment", mixed)]
            if all_rows and (L == line_lengths[0] or L >= ONE_LINE):
                kinds = [*jobs, *kinds]
            for label, specs in kinds:
                want = hashlib.sha256(G.expected_fasta([("m", G.apply_rows(seqs, specs))], L)).hexdigest()
                fi = new_index(bs)
                fi.index = idx
                stream(f"{label}, {how}", fi, scaffold_from("m", specs), want, bs, True, L)
    finally:
        for fi in opened:
            close_index(fi)
        G.remove_with_caches(path)
    return msgs, peaks


MAX_RECORD = 16_000_000


def long_line_check(d, bs, width, seed, eol=b"\n", gappy=True, object_route=False, min_lines=60):
    """
    the indexing routes with a small buffer on records of MANY lines, each line `width` > bs residues long
    -> (messages, measured peaks, length of the records).  Records: 'long' (a few long runs of ACGT / other symbols) and,
    if gappy, 'gappy' (one gap), each max(min_lines lines, 8 x the allowance for (bs, width)) residues - at most MAX_RECORD
    (16 million: then still >= 4 x the allowance, or the job is refused) -, last line partial.
    """
    msgs, peaks = [], {}
    limit = memory_limit(bs, width, True)
    n = min(max(min_lines * width, 8 * limit), MAX_RECORD) + width // 3 + 1  # files stay well below 20 MB
    if n < 4 * limit:
        raise ValueError(f"buffer {bs} / line {width}: a record of {n} residues is less than 4 x the allowance {limit}, the measurement would not discriminate")
    recs = [G.Rec("short", b"ACGTNNAC"), G.Rec("long", long_record_fast(n, seed))]
    if gappy:
        recs.append(G.Rec("gappy", gap_record(n - 17)))
    case = G.FastaCase(recs, width, eol, True)
    big = max(DEFAULT_BUFFER, n) + 1000
    n_lines = -(-n // width)
    layout = f"FASTA file lines of {width} = {width / bs:.4g} buffers, records of {n} residues = {n_lines} lines each"
    path = d / "lines.fa"
    case.write(path)
    opened = []

    def measured(label, fn, judged=True):
        peak, res = traced_peak(fn)
        peaks[label] = peak
        if judged and peak > limit:
            msgs.append(
                f"{label}: peak traced memory {peak} bytes > limit {limit} = 16 x buffer + 64 KiB + 8 x line (buffer_size {bs}, {layout}): "
                f"more than a few buffers and lines were held at once - about {peak / width:.1f} lines, {100 * peak / n:.0f} % of a record"
            )
        return res

    try:
        label = "indexing records of many lines, each longer than the buffer"
        try:
            idx, asm = measured(label, lambda: index_fasta_file(path, bs))
        except Exception as e:  # noqa: BLE001
            return [f"{label}: index_fasta_file(path, {bs}) raised {e!r} ({layout})"], peaks, n
        for r in case.records:
            info = idx.get(r.name)
            if info is None or info.length != len(r.seq):
                msgs.append(f"{label}: record '{r.name}' indexed with length {getattr(info, 'length', None)}, file has {len(r.seq)} ({layout}, buffer_size {bs})")
        idx_big, asm_big = measured("large buffer: " + label, lambda: index_fasta_file(path, big), False)
        if (index_rows(idx_big), agp_text(asm_big)) != (index_rows(idx), agp_text(asm)):
            msgs.append(f"{label}: index_fasta_file with buffer {bs} and buffer {big} give different faidx rows / derived assemblies ({layout})")
        got = [[sc.name, [row_spec(r)[:5] if row_spec(r)[0] == "F" else row_spec(r)[:2] for r in sc.rows]] for sc in asm.scaffolds]
        want = [[nm, [sp[:5] if sp[0] == "F" else sp[:2] for sp in rows]] for nm, rows in derived_specs(case)]
        if [[nm, [list(x) for x in rows]] for nm, rows in got] != [[nm, [list(x) for x in rows]] for nm, rows in want]:
            msgs.append(f"{label}: the derived assembly is not the maximal runs of the file ({layout}, buffer_size {bs})")
        if object_route:
            drop_caches(path)
            fi = FastaIndex(path, buffer_size=bs)
            opened.append(fi)
            label = f"indexing through FastaIndex(path, buffer_size={bs}).auto_load() records of many lines, each longer than the buffer"
            try:
                measured(label, fi.auto_load)
                if fi.index is None or index_rows(fi.index) != index_rows(idx):
                    msgs.append(f"{label}: faidx rows differ from those of index_fasta_file(path, {bs}) ({layout})")
            except Exception as e:  # noqa: BLE001
                msgs.append(f"{label} raised {e!r} ({layout})")
    finally:
        for fi in opened:
            close_index(fi)
        G.remove_with_caches(path)
    return msgs, peaks, n


def discrimination(peaks, bs, width):
    """
    for every route measured with both buffers: does the large-buffer run (which by the statement may hold a whole
    record) exceed the limit applied to the small buffer?  If it does, a small-buffer run that held a whole record
    would have been reported.  -> {route: [small peak, limit, large-buffer peak, bool]}
    """
    out = {}
    for label, peak in peaks.items():
        if label.startswith("large buffer: "):
            small = label[len("large buffer: "):].replace("buffer_size=big", f"buffer_size={bs}")
            if small in peaks:
                limit = memory_limit(bs, width, "indexing" in small)
                out[small] = [peaks[small], limit, peak, peak > limit]
    return out


def cli_memory_check(d, n_buffers, seed):
    """
    pretext-to-asm has no buffer option (see --help): FASTA input is indexed and streamed with the default buffer
    of 250 000 residues.  A chromosome n_buffers default buffers long (two long contigs around one long gap, no
    cache files), reversed as a whole by the Pretext file and written as FASTA -> (messages, peaks)
    """
    from click.testing import CliRunner

    from tola.assembly.scripts.pretext_to_asm import cli

    B = DEFAULT_BUFFER
    rng = random.Random(seed)
    acgt = bytes(b"ACGTacgt"[i % 8] for i in range(256))
    na, ng = (n_buffers * 2) // 5, n_buffers // 4
    chrom = rng.randbytes(na * B + 17).translate(acgt) + b"N" * (ng * B + 5) + rng.randbytes((n_buffers - na - ng) * B + 1).translate(acgt)
    case = G.FastaCase([G.Rec("scaffold_1", chrom), G.Rec("scaffold_2", b"ACGTTGCATTGACCA" * 5)], 60)
    sub = d / "cli"
    sub.mkdir()
    msgs, peaks = [], {}
    try:
        case.write(sub / "in.fa")
        (sub / "p.agp").write_text(G.pretext_agp([[("scaffold_1", 1, len(chrom), "-", ["Painted"])]]))
        args = ["--assembly", str(sub / "in.fa"), "--pretext", str(sub / "p.agp"), "--output", str(sub / "x.fa"), "--log-level", "ERROR", "--no-write-log"]
        label = f"pretext-to-asm (FASTA in, FASTA out, default buffer {B}) on a chromosome of {len(chrom)} residues = {n_buffers} buffers"
        try:
            peak, res = traced_peak(lambda: CliRunner().invoke(cli, args))
        finally:
            G.reset_logging_after_cli()
        peaks[label] = peak
        if res.exit_code != 0:
            return [f"{label}: exit code {res.exit_code}, {res.exception!r}"], peaks
        limit = memory_limit(B, 60, True)
        if peak > limit:
            msgs.append(
                f"{label}: peak traced memory {peak} bytes > limit {limit} = 16 x buffer + 64 KiB + 8 x line: "
                "more than a few buffers of residues were held at once"
            )
        want = chrom[::-1].translate(_COMP)
        found = False
        for p in sorted(sub.glob("x*.fa")):
            for rec in p.read_bytes().split(b">")[1:]:
                body = rec.partition(b"\n")[2].replace(b"\n", b"")
                if len(body) == len(want):
                    found = True
                    if body != want:
                        msgs.append(f"{label}: the record of that length in {p.name} is not the reverse complement of the chromosome")
        if not found:
            msgs.append(f"{label}: no output record of {len(want)} residues was written")
    finally:
        shutil.rmtree(sub, ignore_errors=True)
    return msgs, peaks


def pick(msgs, route):
    """the message about the recorded route if there is one, else the first"""
    for m in msgs:
        if route and m.startswith(route):
            return m
    return msgs[0] if msgs else None


def replay(inp):
    with G.quiet_logging(), G.workdir() as d:
        if inp["kind"] == "memory":
            msgs, _ = memory_check(
                d, inp["buffer_size"], inp["n_buffers"], inp["width"], inp["seed"], b"\r\n" if inp.get("eol") == "CRLF" else b"\n",
                inp.get("line_lengths", ()), inp.get("all_rows", True),
            )
            return pick(msgs, inp.get("route"))
        if inp["kind"] == "cli-memory":
            msgs, _ = cli_memory_check(d, inp["n_buffers"], inp["seed"])
            return pick(msgs, inp.get("route"))
        if inp["kind"] == "long-lines":
            msgs, _, _ = long_line_check(
                d, inp["buffer_size"], inp["width"], inp["seed"], b"\r\n" if inp.get("eol") == "CRLF" else b"\n", inp.get("gappy", True), inp.get("object_route", False)
            )
            return pick(msgs, inp.get("route"))
        case = G.FastaCase.from_spec(inp["case"])
        if inp["kind"] == "shared":
            steps = [[st[0], st[1], st[2], [(n, sp) for n, sp in st[3]]] for st in inp["steps"]]
            problems = check_shared(case, d / "r.fa", [steps])
            return problems[0][0] if problems else None
        asms = [("replayed", [(n, s) for n, s in inp["assembly"]])] if inp.get("assembly") else assemblies_for(case, random.Random(0), 0)
        problems = check_file(case, d / "r.fa", inp["buffers"], asms, inp["line_length"])
        return problems[0][0] if problems else None


def run(tier, seed, **opts):
    rng = random.Random(seed)
    quick = tier == "quick"
    max_mask = 6 if quick else 9
    n_random = 120 if quick else 4000
    col = Collector(
        f"files: every ACGT/other mask up to {max_mask} residues x widths 1..5 x LF/CRLF x final newline, and random files "
        "(1-3 records up to 200/400 residues, runs ending on line boundaries); per file the buffer sizes 1,2,3,5,7,11,13, "
        "width+-1, 2*width+-1, run/record length+-1, 250000; per (file, assembly) all those buffers for streaming; one "
        "evaluation = one (file, all buffers) index comparison or one (file, assembly, all buffers) stream comparison or "
        "one tracemalloc measurement of one route (index_fasta_file, FastaIndex.auto_load cold / stale / warm, run_indexing, "
        "FastaStream over those indexes - output lines of 60 and far longer than the buffer, up to unwrapped -, pretext-to-asm in the thorough tier) "
        "on records hundreds of buffers long, wrapped at 60..100 and unwrapped / long-line files; indexing also on records of >= 60 lines whose lines are "
        "longer than the buffer (buffer + 1 .. thousands of buffers, lines up to 250 000); every streamed case also: no single write() carries "
        "more than buffer-size residues of one row; or one script of 2..6 calls on ONE FastaIndex object (several FastaStreams with different gap "
        "characters N n - X, line lengths, assemblies and buffer_size settings, in every order of a designed pool / random), each call "
        "compared with the model; non-trivial = distinct such case with at least 3 distinct buffer sizes and a record "
        "longer than the smallest buffer"
    )
    with G.quiet_logging(), G.workdir() as d:
        path = d / "t.fa"

        def do(case, buffers, assemblies, line_length, sample=False):
            problems = check_file(case, path, buffers, assemblies, line_length)
            spec = case.spec()
            for msg, det in problems[:3]:
                inp = {"kind": "file", "case": spec, "buffers": sorted({det["buffer"], buffers[0], buffers[-1]}), "line_length": line_length}
                if "assembly" in det:
                    inp["assembly"] = det["assembly"]
                col.fail(msg, inp)
            col.case(("index", case.key()), nontrivial=len(buffers) >= 3)
            for label, scs in assemblies:
                col.case(("stream", case.key(), repr(scs), line_length), nontrivial=len(buffers) >= 3,
                         sample={"kind": "file", "case": spec, "buffers": buffers, "line_length": line_length, "assembly": scs} if sample and label.startswith("random") else None)

        def shared(case, scripts, sample=False):
            spec = case.spec()
            for msg, steps in check_shared(case, path, scripts)[:3]:
                col.fail(msg, {"kind": "shared", "case": spec, "steps": steps})
            for steps in scripts:
                col.case(("shared", case.key(), repr(steps)), nontrivial=len(steps) >= 2,
                         sample={"kind": "shared", "case": spec, "steps": steps} if sample else None)

        n = 0
        for bits in G.masks(max_mask, min_len=2):
            seq = G.seq_from_mask(bits, shift=n)
            for w, eol, fin in G.layouts((1, 2, 3, 4, 5)):
                n += 1
                if quick and (n + len(bits)) % 2:
                    continue
                recs = [G.Rec("s1", seq)]
                if n % 3 == 0:
                    recs.append(G.Rec("s2", G.seq_from_mask(bits[::-1], shift=n + 5), b" d "))
                case = G.FastaCase(recs, w, eol, fin)
                buffers = sorted({1, 2, 3, 5, 7, w + 1, max(1, w - 1), len(seq) - 1, len(seq), len(seq) + 1, 250_000} - {0})
                do(case, buffers, assemblies_for(case, rng, 1), (60, w, 3)[n % 3], sample=n == 3001)
                if col.full:
                    break
            if col.full:
                break
        for k in range(n_random):
            if col.full:
                break
            case = G.random_case(rng, max_len=200 if quick else 400)
            buffers = G.interesting_buffers(case)
            if len(buffers) > (12 if quick else 30):
                keep = {1, 2, case.width - 1, case.width, case.width + 1, 250_000} & set(buffers)
                rest = [b for b in buffers if b not in keep]
                buffers = sorted(keep | set(rng.sample(rest, (12 if quick else 30) - len(keep))))
            asms = assemblies_for(case, rng, 2)
            do(case, buffers, asms, rng.choice((60, 60, 7, case.width)), sample=k == 1)
            scripts = [random_script(case, asms, buffers, rng, rng.randint(2, 6)) for _ in range(1 if quick else 2)]
            shared(case, scripts, sample=k == 2)
        # state across calls on a designed file: every ordered pair (thorough: and random triples) of settings
        case, scs_a, scs_b = designed_shared_case()
        if not col.full:
            shared(case, list(designed_scripts(scs_a, scs_b, 2)))
        if not quick and not col.full:
            shared(case, list(designed_scripts(scs_a, scs_b, 3, rng, 1500)))
        # resource check
        # (buffer, record length in buffers, line width, seed[, "CRLF"]); width 10**9 = every record on one line
        mem_jobs = (
            [(2048, 220, 60, 1), (1000, 400, ONE_LINE, 7)]
            if quick
            else [(4096, 400, 60, 1), (1000, 500, 80, 2), (4093, 800, 100_000, 3), (64, 3000, 60, 4), (500, 400, 60, 5),
                  (1000, 400, ONE_LINE, 7), (500, 1000, ONE_LINE, 8, "CRLF"), (64, 3000, 5000, 9), (1000, 500, 50_000, 10, "CRLF"), (4096, 300, ONE_LINE, 11)]
        )
        cli_jobs = [] if quick else [(34, 6)]
        peaks_seen = {}
        discr = {}
        for bs, nb, width, ms, *crlf in mem_jobs:
            lls = long_output_lines(bs, nb, quick)
            msgs, peaks = memory_check(d, bs, nb, width, ms, b"\r\n" if crlf else b"\n", lls, not quick)
            inp = {"kind": "memory", "buffer_size": bs, "n_buffers": nb, "width": width, "seed": ms, "eol": "CRLF" if crlf else "LF", "line_lengths": lls, "all_rows": not quick}
            width = min(width, bs * nb + 20)  # the longest line actually in the file
            for m in msgs:
                col.fail(m, dict(inp, route=m.split(": ")[0]))
            key = f"buffer {bs} x {nb}, line {width}{' CRLF' if crlf else ''}"
            peaks_seen[key] = peaks
            discr[key] = discrimination(peaks, bs, width)
            for label in peaks or {"none": 0}:
                col.case(("memory", bs, nb, width, label), sample=inp if label.startswith("streaming a long reverse") else None)
        # indexing records of many lines with lines longer than the buffer: (buffer, line width, seed[, "CRLF"])
        line_jobs = (
            [(1000, 20_000, 21), (5000, 12_001, 23, "CRLF")]
            if quick
            else [(1, 2, 31), (1, 1000, 32), (2, 3, 33, "CRLF"), (7, 60, 34), (64, 65, 35), (64, 127, 36), (64, 100_000, 37), (1000, 1001, 38), (1000, 1999, 39, "CRLF"),
                  (1000, 2001, 40), (1000, 20_000, 21), (1000, 250_000, 41), (4093, 40_930, 42), (4096, 8193, 43), (20_000, 50_001, 22, "CRLF"), (50_000, 50_001, 44),
                  (50_000, 149_999, 45), (50_000, 250_000, 46, "CRLF")]
        )
        for k, (bs, width, ms, *crlf) in enumerate(line_jobs):
            # the big ones: the mixed record only (files stay below 20 MB); the object route on every third in the thorough tier
            gappy = max(60 * width, 8 * memory_limit(bs, width, True)) <= 7_000_000
            object_route = not quick and k % 3 == 0 and gappy
            msgs, peaks, n_res = long_line_check(d, bs, width, ms, b"\r\n" if crlf else b"\n", gappy, object_route)
            inp = {"kind": "long-lines", "buffer_size": bs, "width": width, "seed": ms, "eol": "CRLF" if crlf else "LF", "gappy": gappy, "object_route": object_route}
            for m in msgs:
                col.fail(m, dict(inp, route=m.split(": ")[0]))
            key = f"buffer {bs}, {-(-n_res // width)} lines of {width}{' CRLF' if crlf else ''}"
            peaks_seen[key] = peaks
            discr[key] = discrimination(peaks, bs, width)
            for label in peaks or {"none": 0}:
                col.case(("long-lines", bs, width, label), sample=inp if (bs, width) == (1000, 20_000) and not label.startswith("large") else None)
        for nb, ms in cli_jobs:
            msgs, peaks = cli_memory_check(d, nb, ms)
            inp = {"kind": "cli-memory", "n_buffers": nb, "seed": ms}
            for m in msgs:
                col.fail(m, dict(inp, route=m.split(": ")[0]))
            peaks_seen[f"pretext-to-asm, {nb} default buffers"] = peaks
            for label in peaks or {"none": 0}:
                col.case(("cli-memory", nb, label))
    return col.result(
        bounds=(
            f"masks to length {max_mask} (quick: every other layout) x 20 layouts; {n_random} random files; <= {12 if quick else 30} buffer sizes per "
            "file; shared-index scripts: 1-2 random per random file, all 306 ordered pairs of 18 (buffer, gap character) settings on a designed file"
            + ("" if quick else " and 1500 random triples") + "; memory: " + "; ".join(f"{nb} buffers of {bs} (line {'whole record' if w == ONE_LINE else w})" for bs, nb, w, *_ in mem_jobs)
            + "; indexing memory on records of >= 60 lines with lines longer than the buffer (buffer / line): " + ", ".join(f"{bs} / {w}" for bs, w, *_ in line_jobs)
            + "".join(f"; pretext-to-asm on {nb} buffers of {DEFAULT_BUFFER}" for nb, _ in cli_jobs)
            + "; streaming also with output lines far longer than the buffer (4 x the allowance, a third of / three times the scaffold, unwrapped; quick: one of them per file)"
            + "; limit 16 x buffer + 64 KiB (+ 8 x line while indexing); no write() with more than buffer-size residues of one row"
        ),
        exhaustive=False,
        # measurements, not part of the deterministic result: vary by a few hundred bytes between runs
        measured_peaks_bytes=peaks_seen,
        # per route measured with a small and a larger-than-everything buffer: [small peak, limit, large peak, large > limit]
        memory_discrimination=discr,
    )
