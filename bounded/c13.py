"""
C13 bounded tier: buffer-size independence and the memory bound.

Independence: for generated FASTA files, index_fasta_file(path, b) -> (faidx rows, AGP text of the derived
assembly) and FastaStream output for several assemblies over the file (the derived one, its reversal, random
multi-row scaffolds with minus/unknown strands and gaps) must be byte-identical for every buffer size b in
{1, 2, primes, line width +-1, run/record length +-1, larger than everything}; the common value is also
compared with the model (bounded/fasta_gen.py), so that "identical but wrong for all" is seen too.

Memory clause, small scope (deterministic): every chunk yielded by get_sequence_iter / get_gap_iter holds at
most buffer_size residues and every span requested from sequence_bytes while streaming is at most buffer_size.

Memory clause, resource check: tracemalloc peak while indexing a long record and while streaming a long
forward fragment, a long reverse fragment and a long gap (hundreds of buffers) into a sink that only hashes
stays below 16 x buffer_size + 64 KiB (+ 8 x input line while indexing) (unchanged tree: 10-40 KB); holding the whole fragment
(hundreds of buffers) exceeds the limit several times over.
"""

import hashlib
import io
import random
import tracemalloc

from tola.assembly.assembly import Assembly
from tola.fasta.index import FastaIndex, index_fasta_file
from tola.fasta.stream import FastaStream

from . import fasta_gen as G
from .common import Collector, agp_text, row_spec, scaffold_from


def close_index(fi):
    fh = fi.__dict__.pop("fasta_fileandle", None)
    if fh is not None:
        fh.close()


def index_signature(path, bs):
    idx, asm = index_fasta_file(path, bs)
    rows = tuple((n, i.length, i.file_offset, i.residues_per_line, i.max_line_length) for n, i in idx.items())
    return idx, asm, (rows, agp_text(asm))


def derived_specs(case):
    """the derived assembly according to the model"""
    out = []
    for r in case.records:
        rows = [["G", t[1], "scaffold"] if t[0] == "G" else ["F", r.name, t[1], t[2], 1, []] for t in G.tiling(r.seq)]
        out.append((r.name, rows))
    return out


def assemblies_for(case, rng, extra=2):
    """[(label, [(scaffold name, specs)])]: derived, reversed by the model, and random ones"""
    der = derived_specs(case)
    rev = [(n, [s if s[0] == "G" else [s[0], s[1], s[2], s[3], -s[4], s[5]] for s in reversed(rows)]) for n, rows in der]
    out = [("derived", der), ("derived reversed", rev)]
    for k in range(extra):
        scs = []
        for si in range(rng.randint(1, 2)):
            rows = []
            for _ in range(rng.randint(1, 4)):
                if rng.random() < 0.3:
                    rows.append(["G", rng.choice((0, 1, 2, 3, 5, 8, 13, 200)), "scaffold"])
                else:
                    r = rng.choice(case.records)
                    L = len(r.seq)
                    s = rng.randint(1, L)
                    e = rng.choice((L, rng.randint(s, L)))
                    rows.append(["F", r.name, s, e, rng.choice((1, -1, -1, 0)), []])
            scs.append((f"r{k}_{si}", rows))
        out.append((f"random {k}", scs))
    return out


def stream_bytes(path, bs, idx, scaffolds, line_length, audit=None):
    fi = FastaIndex(path, bs)
    fi.index = idx
    if audit is not None:
        real = fi.sequence_bytes

        def spy(info, start, end):
            audit.append(end - start + 1)
            return real(info, start, end)

        fi.sequence_bytes = spy
    out = io.BytesIO()
    try:
        FastaStream(out, fi, line_length=line_length).write_assembly(
            Assembly("a", scaffolds=[scaffold_from(n, specs) for n, specs in scaffolds])
        )
    finally:
        close_index(fi)
    return out.getvalue()


def chunk_sizes(path, bs, idx, scaffolds):
    """sizes of the chunks handed out by the iterators, per row"""
    fi = FastaIndex(path, bs)
    fi.index = idx
    worst = 0
    try:
        for n, specs in scaffolds:
            for row in scaffold_from(n, specs).rows:
                itr = fi.get_gap_iter(row) if row_spec(row)[0] == "G" else fi.get_sequence_iter(row)
                for chunk in itr:
                    worst = max(worst, len(chunk.getvalue()))
    finally:
        close_index(fi)
    return worst


def check_file(case, path, buffers, assemblies, line_length):
    """-> list of (message, detail dict)"""
    problems = []
    case.write(path)
    try:
        ref = None
        sigs = {}
        idx_ref = None
        for bs in buffers:
            try:
                idx, asm, sig = index_signature(path, bs)
            except Exception as e:  # noqa: BLE001
                problems.append((f"index_fasta_file(buffer {bs}) raised {e!r}", {"buffer": bs}))
                continue
            sigs[bs] = sig
            if ref is None:
                ref, idx_ref = bs, idx
            elif sig != sigs[ref]:
                a, b = sigs[ref], sig
                what = "faidx rows" if a[0] != b[0] else "derived assembly (AGP text)"
                problems.append((f"indexing with buffer {bs} and buffer {ref} differ in the {what}: {b[0] if a[0] != b[0] else b[1][-200:]!r} vs {a[0] if a[0] != b[0] else a[1][-200:]!r}", {"buffer": bs}))
        if idx_ref is None:
            return problems
        # the common result against the model
        want_rows = [[n, [s[:5] if s[0] == "F" else s[:2] for s in rows]] for n, rows in derived_specs(case)]
        objects, _ = G.parse_agp_text(sigs[ref][1])
        got_rows = []
        for name, rows in objects:
            _, _, specs = G.check_agp_object(name, rows)
            got_rows.append([name, [s[:5] if s[0] == "F" else s[:2] for s in specs]])
        if got_rows != want_rows:
            problems.append((f"derived assembly at buffer {ref} is {got_rows}, maximal runs of the file are {want_rows}", {"buffer": ref}))
        seqs = case.seqs()
        for label, scs in assemblies:
            want = [(n, G.apply_rows(seqs, specs)) for n, specs in scs]
            outs = {}
            for bs in buffers:
                audit = []
                try:
                    outs[bs] = stream_bytes(path, bs, idx_ref, scs, line_length, audit)
                except Exception as e:  # noqa: BLE001
                    problems.append((f"streaming '{label}' with buffer {bs} raised {e!r}", {"buffer": bs, "assembly": scs}))
                    continue
                first = next(iter(outs))
                if outs[bs] != outs[first]:
                    problems.append((f"streaming '{label}' with buffer {bs} gives {len(outs[bs])} bytes, different from buffer {first} ({len(outs[first])} bytes)", {"buffer": bs, "assembly": scs}))
                if audit and max(audit) > bs:
                    problems.append((f"streaming '{label}' with buffer {bs} requested {max(audit)} residues of one sequence at once", {"buffer": bs, "assembly": scs}))
                try:
                    worst = chunk_sizes(path, bs, idx_ref, scs)
                except Exception as e:  # noqa: BLE001
                    worst = 0
                    problems.append((f"chunk iterators raised {e!r} with buffer {bs}", {"buffer": bs, "assembly": scs}))
                if worst > bs:
                    problems.append((f"a chunk of {worst} residues was yielded with buffer {bs} ('{label}')", {"buffer": bs, "assembly": scs}))
            if outs:
                first = next(iter(outs))
                m = G.compare_written_fasta(outs[first], want, line_length)
                if m:
                    problems.append((f"streaming '{label}' with buffer {first}: {m[0]}", {"buffer": first, "assembly": scs}))
    finally:
        G.remove_with_caches(path)
    return problems


# ----------------------------------------------------------------------------------------------------------
# resource check


class HashSink:
    """binary sink that keeps nothing"""

    def __init__(self):
        self.h = hashlib.sha256()
        self.n = 0

    def write(self, b):
        self.h.update(b)
        self.n += len(b)
        return len(b)


def long_record(n, seed):
    rng = random.Random(seed)
    # few, long runs: the run list kept by the indexer stays tiny, so the measurement is about residues
    parts = []
    total = 0
    k = 0
    while total < n:
        ln = min(n - total, rng.randint(n // 7, n // 4))
        parts.append(bytes(rng.choices(b"ACGTacgt", k=ln)) if k % 2 == 0 else bytes(rng.choices(b"NnR", k=min(ln, 5000))))
        total += len(parts[-1])
        k += 1
    return b"".join(parts)


def memory_check(d, bs, n_buffers, width, seed):
    """-> (messages, measured peaks)"""
    msgs = []
    n = bs * n_buffers + 17
    seq = long_record(n, seed)
    case = G.FastaCase([G.Rec("short", b"ACGTNNAC"), G.Rec("long", seq)], width, b"\n", True)
    path = d / "mem.fa"
    case.write(path)
    peaks = {}

    def measured(label, fn):
        # one input line is allowed on top of the buffers only while indexing
        limit = 16 * bs + 64 * 1024 + (8 * (width + 2) if label.startswith("indexing") else 0)
        was_tracing = tracemalloc.is_tracing()
        if not was_tracing:
            tracemalloc.start()
        try:
            tracemalloc.reset_peak()
            base = tracemalloc.get_traced_memory()[0]
            res = fn()
            peak = tracemalloc.get_traced_memory()[1] - base
        finally:
            if not was_tracing:
                tracemalloc.stop()
        peaks[label] = peak
        if peak > limit:
            msgs.append(
                f"{label}: peak traced memory {peak} bytes > limit {limit} (buffer_size {bs}, line {width}, "
                f"{n} residues = {n_buffers} buffers): more than a few buffers of residues were held at once"
            )
        return res

    try:
        idx, asm = measured("indexing a long record", lambda: index_fasta_file(path, bs))
    except Exception as e:  # noqa: BLE001
        return [f"index_fasta_file raised {e!r}"], peaks
    info = idx.get("long")
    if info is None or info.length != n:
        msgs.append(f"long record indexed with length {getattr(info, 'length', None)}, file has {n}")
        return msgs, peaks
    jobs = [
        ("streaming a long forward fragment", [["F", "long", 2, n - 1, 1]]),
        ("streaming a long reverse fragment", [["F", "long", 2, n - 1, -1]]),
        ("streaming a long gap", [["G", n, "scaffold"]]),
    ]
    seqs = case.seqs()
    for label, specs in jobs:
        want = hashlib.sha256(G.expected_fasta([("m", G.apply_rows(seqs, specs))], 60)).hexdigest()
        sc = scaffold_from("m", specs)
        fi = FastaIndex(path, bs)
        fi.index = idx
        sink = HashSink()
        try:
            measured(label, lambda: FastaStream(sink, fi).write_scaffold(sc))
        except Exception as e:  # noqa: BLE001
            msgs.append(f"{label} raised {e!r}")
            continue
        finally:
            close_index(fi)
        if sink.h.hexdigest() != want:
            msgs.append(f"{label}: {sink.n} bytes written do not hash to the expected record")
    G.remove_with_caches(path)
    return msgs, peaks


def replay(inp):
    with G.quiet_logging(), G.workdir() as d:
        if inp["kind"] == "memory":
            msgs, _ = memory_check(d, inp["buffer_size"], inp["n_buffers"], inp["width"], inp["seed"])
            return msgs[0] if msgs else None
        case = G.FastaCase.from_spec(inp["case"])
        asms = [("replayed", [(n, s) for n, s in inp["assembly"]])] if inp.get("assembly") else assemblies_for(case, random.Random(0), 0)
        problems = check_file(case, d / "r.fa", inp["buffers"], asms, inp["line_length"])
        return problems[0][0] if problems else None


def run(tier, seed, **opts):
    rng = random.Random(seed)
    quick = tier == "quick"
    max_mask = 6 if quick else 9
    n_random = 120 if quick else 4000
    col = Collector(
        f"files: every ACGT/other mask up to {max_mask} residues x widths 1..5 x LF/CRLF x final newline, and random files "
        "(1-3 records up to 200/400 residues, runs ending on line boundaries); per file the buffer sizes 1,2,3,5,7,11,13, "
        "width+-1, 2*width+-1, run/record length+-1, 250000; per (file, assembly) all those buffers for streaming; one "
        "evaluation = one (file, all buffers) index comparison or one (file, assembly, all buffers) stream comparison or "
        "one tracemalloc measurement; non-trivial = distinct such case with at least 3 distinct buffer sizes and a record "
        "longer than the smallest buffer"
    )
    with G.quiet_logging(), G.workdir() as d:
        path = d / "t.fa"

        def do(case, buffers, assemblies, line_length, sample=False):
            problems = check_file(case, path, buffers, assemblies, line_length)
            spec = case.spec()
            for msg, det in problems[:3]:
                inp = {"kind": "file", "case": spec, "buffers": sorted({det["buffer"], buffers[0], buffers[-1]}), "line_length": line_length}
                if "assembly" in det:
                    inp["assembly"] = det["assembly"]
                col.fail(msg, inp)
            col.case(("index", case.key()), nontrivial=len(buffers) >= 3)
            for label, scs in assemblies:
                col.case(("stream", case.key(), repr(scs), line_length), nontrivial=len(buffers) >= 3,
                         sample={"kind": "file", "case": spec, "buffers": buffers, "line_length": line_length, "assembly": scs} if sample and label.startswith("random") else None)

        n = 0
        for bits in G.masks(max_mask, min_len=2):
            seq = G.seq_from_mask(bits, shift=n)
            for w, eol, fin in G.layouts((1, 2, 3, 4, 5)):
                n += 1
                if quick and (n + len(bits)) % 2:
                    continue
                recs = [G.Rec("s1", seq)]
                if n % 3 == 0:
                    recs.append(G.Rec("s2", G.seq_from_mask(bits[::-1], shift=n + 5), b" d "))
                case = G.FastaCase(recs, w, eol, fin)
                buffers = sorted({1, 2, 3, 5, 7, w + 1, max(1, w - 1), len(seq) - 1, len(seq), len(seq) + 1, 250_000} - {0})
                do(case, buffers, assemblies_for(case, rng, 1), (60, w, 3)[n % 3], sample=n == 3001)
                if col.full:
                    break
            if col.full:
                break
        for k in range(n_random):
            if col.full:
                break
            case = G.random_case(rng, max_len=200 if quick else 400)
            buffers = G.interesting_buffers(case)
            if len(buffers) > (12 if quick else 30):
                keep = {1, 2, case.width - 1, case.width, case.width + 1, 250_000} & set(buffers)
                rest = [b for b in buffers if b not in keep]
                buffers = sorted(keep | set(rng.sample(rest, (12 if quick else 30) - len(keep))))
            do(case, buffers, assemblies_for(case, rng, 2), rng.choice((60, 60, 7, case.width)), sample=k == 1)
        # resource check
        mem_jobs = [(2048, 220, 60, 1)] if quick else [(4096, 400, 60, 1), (1000, 500, 80, 2), (4093, 800, 100_000, 3), (64, 3000, 60, 4)]
        peaks_seen = {}
        for bs, nb, width, ms in mem_jobs:
            msgs, peaks = memory_check(d, bs, nb, width, ms)
            inp = {"kind": "memory", "buffer_size": bs, "n_buffers": nb, "width": width, "seed": ms}
            for m in msgs:
                col.fail(m, inp)
            peaks_seen[f"buffer {bs} x {nb}, line {width}"] = peaks
            for label in peaks or {"none": 0}:
                col.case(("memory", bs, nb, width, label), sample=inp if label.startswith("streaming a long reverse") else None)
    return col.result(
        bounds=(
            f"masks to length {max_mask} (quick: every other layout) x 20 layouts; {n_random} random files; <= {12 if quick else 30} buffer sizes per "
            "file; memory: " + "; ".join(f"{nb} buffers of {bs} (line {w})" for bs, nb, w, _ in mem_jobs)
            + "; limit 16 x buffer + 64 KiB (+ 8 x line while indexing)"
        ),
        exhaustive=False,
        # a measurement, not part of the deterministic result: varies by a few hundred bytes between runs
        measured_peaks_bytes=peaks_seen,
    )
