"""
C18 bounded tier: OverlapResult span / content consistency under every edit sequence.

Every small scaffold x every bait gives a lookup result; from it every sequence of operations up to a
length bound is explored (breadth first over the distinct states reached - the operations only read
rows/start/end/bait, so equal states have equal futures).  After the lookup and after every step the
result is judged against a base-by-base expansion of the *source* scaffold, built here from the row
specs (never from the code's own arithmetic).

The figures are also read through the wrappers that OverhangResolver decides on (build_utils.OverhangPremise
and its subclasses, obtained both from OverhangResolver.add_overhang_premise and by direct construction):
in every state a premise for the first / last row must report bait overlap, what-if overhang, error delta
and improves / makes_worse that equal the same interval arithmetic, and applying it must remove exactly that
terminal row (with the gaps next to it) and leave the overhang its what-if value announced.

The bait of all interval arithmetic is the bait that was looked up (the Fragment handed to find_overlaps), not whatever
the result carries in .bait.

Readings and edits on the SAME object.  What a result reports must be a function of its current rows, span and bait, not
of what was asked of the object earlier.  So the exploration does not start every step from a pristine object: a child
state is made from a copy of its parent that keeps all instance attributes (whatever the object remembers from having had
every figure read in check_state), the operation is applied to it, and on EVERY edge of the exploration - also the ones
leading to a state already seen - every figure (length, length_error, both overhangs, both bait overlaps, both what-if
overhangs) is read from the edited object, in an order that changes from edge to edge, and compared with plain interval
arithmetic on its current rows (quick tier: of the edges that change neither rows nor span only every 6th).  In addition
whole paths are walked on ONE object from a fresh lookup (for every 4th state reached in the thorough tier, every 25th in
the quick tier): before and after every operation all figures and str() are read in
changing orders, some twice; every reading must equal the arithmetic, and the state reached must be the one the
exploration reached without those readings (readings influence neither later readings nor operations).  The numbers that
str() prints under the labels length / diff / overhang must be those figures too.
"""

import copy
import itertools
import random
import re

from tola.assembly import build_utils
from tola.assembly.fragment import Fragment
from tola.assembly.gap import Gap
from tola.assembly.indexed_assembly import IndexedAssembly
from tola.assembly.overlap_result import OverlapResult
from tola.assembly.scaffold import Scaffold

from .common import Collector

# ("G", length) | ("F", length, strand)
ROW_KINDS = [("G", 1), ("G", 2), ("F", 1, 1), ("F", 2, 1), ("F", 3, 1), ("F", 1, -1), ("F", 2, -1), ("F", 3, -1)]
ERR_LENGTHS = (0, 1, 2, 3)


def op_list():
    ops = [("discard_start",), ("discard_end",)]
    ops += [("trim_large_overhangs", e) for e in ERR_LENGTHS]
    for which in ("first", "last"):
        for ks in (False, True):
            for ke in (False, True):
                ops.append(("trim_fragment", which, ks, ke))
    return ops


OPS = op_list()


def expand(rows):
    """one token per base, in scaffold order"""
    out = []
    for r in rows:
        if isinstance(r, Gap):
            out.extend([("GAP", r.gap_type)] * r.length)
        elif r.strand == -1:
            out.extend((r.name, p, -1) for p in range(r.end, r.start - 1, -1))
        else:
            out.extend((r.name, p, r.strand) for p in range(r.start, r.end + 1))
    return out


class Source:
    def __init__(self, kinds):
        rows = []
        for i, k in enumerate(kinds):
            if k[0] == "G":
                rows.append(Gap(k[1], "scaffold" if i % 2 else "contig"))
            else:
                rows.append(Fragment(f"c{i}", 10 * i + 5, 10 * i + 4 + k[1], k[2]))
        self.kinds = kinds
        self.scaffold = Scaffold("scf", rows)
        self.bases = expand(rows)
        self.row_ends = set(itertools.accumulate(k[1] for k in kinds))
        self.asm = IndexedAssembly("asm", scaffolds=[self.scaffold])


def state_key(res):
    return (
        res.start,
        res.end,
        tuple(("G", r.length) if isinstance(r, Gap) else (r.name, r.start, r.end, r.strand) for r in res.rows),
    )


def clone(res):
    return OverlapResult(bait=res.bait, rows=list(res.rows), start=res.start, end=res.end)


def apply_op(res, op):
    """returns False if the operation did not accept (raised)"""
    try:
        if op[0] == "discard_start":
            res.discard_start()
        elif op[0] == "discard_end":
            res.discard_end()
        elif op[0] == "trim_large_overhangs":
            res.trim_large_overhangs(op[1])
        else:
            row = res.rows[0] if op[1] == "first" else res.rows[-1]
            res.trim_fragment(row, keep_start=op[2], keep_end=op[3])
    except Exception:
        return False
    return True


def check_state(res, src, bait):
    """message of the first violated clause, or None.  bait: the Fragment that was looked up"""
    rows = res.rows
    got_bases = expand(rows)
    n = len(got_bases)
    if res.end - res.start + 1 != n:
        return f"span {res.start}..{res.end} covers {res.end - res.start + 1} positions but the rows hold {n} bases"
    if res.length != n:
        return f"length {res.length} != {n} bases in the rows"
    if res.start_overhang != bait.start - res.start:
        return f"start_overhang {res.start_overhang} != bait.start - start = {bait.start - res.start}"
    if res.end_overhang != res.end - bait.end:
        return f"end_overhang {res.end_overhang} != end - bait.end = {res.end - bait.end}"
    if not rows:
        return None
    if isinstance(rows[0], Gap):
        return "first row is a gap"
    if isinstance(rows[-1], Gap):
        return "last row is a gap"
    if res.start < 1 or res.end > len(src.bases):
        return f"span {res.start}..{res.end} outside the source scaffold 1..{len(src.bases)}"
    want = src.bases[res.start - 1 : res.end]
    if got_bases != want:
        for k, (g, w) in enumerate(zip(got_bases, want)):
            if g != w:
                return f"at scaffold position {res.start + k} the rows hold {g} but the source scaffold has {w}"
    # the internal row boundaries are exactly the source row boundaries inside the span
    ends = []
    p = res.start - 1
    for r in rows:
        p += len(expand([r]))
        ends.append(p)
    inner = set(ends[:-1])
    want_inner = {e for e in src.row_ends if res.start <= e < res.end}
    if inner != want_inner:
        return f"row boundaries {sorted(inner)} inside {res.start}..{res.end}, source scaffold has {sorted(want_inner)}"
    bait_pos = set(range(bait.start, bait.end + 1))
    first_span = set(range(res.start, ends[0] + 1))
    last_span = set(range(ends[-2] + 1 if len(ends) > 1 else res.start, res.end + 1))
    if res.start_row_bait_overlap != len(bait_pos & first_span):
        return f"start_row_bait_overlap {res.start_row_bait_overlap}, bait and first row share {len(bait_pos & first_span)} positions"
    if res.end_row_bait_overlap != len(bait_pos & last_span):
        return f"end_row_bait_overlap {res.end_row_bait_overlap}, bait and last row share {len(bait_pos & last_span)} positions"
    # overhang if the first row (and the gaps that follow it) went away: position of the next fragment row
    k = 1
    while k < len(rows) and isinstance(rows[k], Gap):
        k += 1
    new_start = ends[k - 1] + 1
    k_start = k
    if res.overhang_if_start_removed() != bait.start - new_start:
        return f"overhang_if_start_removed {res.overhang_if_start_removed()}, next contig row starts at {new_start} so expected {bait.start - new_start}"
    k = len(rows) - 2
    while k >= 0 and isinstance(rows[k], Gap):
        k -= 1
    new_end = ends[k] if k >= 0 else res.start - 1
    if res.overhang_if_end_removed() != new_end - bait.end:
        return f"overhang_if_end_removed {res.overhang_if_end_removed()}, previous contig row ends at {new_end} so expected {new_end - bait.end}"
    # ... and the operations really produce that
    c = clone(res)
    if apply_op(c, ("discard_start",)) and c.rows and c.start_overhang != bait.start - new_start:
        return f"discard_start leaves start_overhang {c.start_overhang}, interval arithmetic says {bait.start - new_start}"
    c = clone(res)
    if apply_op(c, ("discard_end",)) and c.rows and c.end_overhang != new_end - bait.end:
        return f"discard_end leaves end_overhang {c.end_overhang}, interval arithmetic says {new_end - bait.end}"
    # the same figures through the premise objects the overhang resolver works with
    msg = check_premises(
        res,
        src,
        {
            "start": {
                "which": "first",
                "row": rows[0],
                "bait_overlap": len(bait_pos & first_span),
                "overhang": bait.start - res.start,
                "overhang_if": bait.start - new_start,
                "rows_if": rows[k_start:],
                "span_if": (new_start, res.end),
            },
            "end": {
                "which": "last",
                "row": rows[-1],
                "bait_overlap": len(bait_pos & last_span),
                "overhang": res.end - bait.end,
                "overhang_if": new_end - bait.end,
                "rows_if": rows[: k + 1],
                "span_if": (res.start, new_end),
            },
        },
    )
    if msg:
        return msg
    # fragment_start_if_trimmed: the contig coordinate that remains lowest after cutting to the bait.
    # Only defined by the statement where there is something to cut (overhang >= 0 on that side).
    for frag in {id(rows[0]): rows[0], id(rows[-1]): rows[-1]}.values():
        want_start = frag.start
        if frag.strand == 1 and frag is rows[0]:
            if res.start_overhang < 0:
                continue
            want_start = src.bases[max(res.start, bait.start) - 1][1]
        elif frag.strand == -1 and frag is rows[-1]:
            if res.end_overhang < 0:
                continue
            want_start = src.bases[min(res.end, bait.end) - 1][1]
        if res.fragment_start_if_trimmed(frag) != want_start:
            return f"fragment_start_if_trimmed({frag}) = {res.fragment_start_if_trimmed(frag)}, cutting to the bait leaves contig start {want_start}"
        c = clone(res)
        try:
            new = c.trim_fragment(c.rows[0] if frag is rows[0] else c.rows[-1])
        except Exception:
            continue
        if new.start != want_start:
            return f"trim_fragment({frag}) gives contig start {new.start}, cutting to the bait leaves {want_start}"
    return None


def row_keys(rows):
    return [("G", r.length) if isinstance(r, Gap) else (r.name, r.start, r.end, r.strand) for r in rows]


def class_side(cls):
    """which end of the result a premise class speaks about, or None if unknown"""
    if issubclass(cls, build_utils.StartOverhangPremise):
        return "start"
    if issubclass(cls, build_utils.EndOverhangPremise):
        return "end"
    return None


def premise_side(prem):
    return class_side(type(prem))


def premise_classes():
    """every subclass of OverhangPremise that build_utils defines (directly or not) whose side is known"""
    todo = list(build_utils.OverhangPremise.__subclasses__())
    out = []
    while todo:
        cls = todo.pop(0)
        if cls in out:
            continue
        out.append(cls)
        todo.extend(cls.__subclasses__())
    return [(cls, class_side(cls)) for cls in out if class_side(cls)]


PREMISE_CLASSES = premise_classes()


def premises_of(res):
    """
    (how obtained, premise, side it must speak about, check figures?) for the terminal rows of res: one of
    every OverhangPremise subclass built directly, then the ones the resolver builds (their figures are
    only looked at again when the class was not already covered for that side)
    """
    rows = res.rows
    out = []
    covered = set()
    for cls, side in PREMISE_CLASSES:
        out.append((cls.__name__, cls(res, rows[0] if side == "start" else rows[-1]), side, True))
        covered.add((cls, side))
    rsv = build_utils.OverhangResolver(error_length=1)
    book = rsv.premises_by_fragment_key
    n_before = 0
    for pos, frag in (("start", rows[0]), ("end", rows[-1])):
        rsv.add_overhang_premise(frag, res)
        made = [p for lst in book.values() for p in lst][n_before:]
        n_before += len(made)
        if len(made) != 1:
            out.append((f"add_overhang_premise({pos} row) made {len(made)} premises, expected 1", None, None, False))
            continue
        prem = made[0]
        # a one-row result has the same fragment at both ends: either premise class is right for it
        side = pos if len(rows) > 1 else (premise_side(prem) or pos)
        out.append((f"made by add_overhang_premise for the {pos} row", prem, side, (type(prem), side) not in covered))
    if len(rows) > 2 and not isinstance(rows[1], Gap):
        rsv.add_overhang_premise(rows[1], res)
        if sum(len(lst) for lst in book.values()) != n_before:
            out.append(("add_overhang_premise made a premise for a row that is not terminal", None, None, False))
    return out


def check_premises(res, src, want):
    """want: side -> figures from interval arithmetic on the rows (computed in check_state)"""
    bait = res.bait
    rows = res.rows
    for how, prem, side, figures in premises_of(res):
        if prem is None:
            return how
        w = want[side]
        name = type(prem).__name__ if how == type(prem).__name__ else f"{type(prem).__name__} ({how})"
        if premise_side(prem) != side:
            return f"{how} is a {type(prem).__name__}, which speaks about the other end"
        if prem.scaffold is not res or prem.fragment is not w["row"]:
            return f"{name} does not hold the result and its {side} row"
        if not figures:
            continue
        if prem.bait_overlap != w["bait_overlap"]:
            return f"{name}.bait_overlap {prem.bait_overlap}, bait and {w['which']} row share {w['bait_overlap']} positions"
        if prem.overhang_if_applied != w["overhang_if"]:
            return (
                f"{name}.overhang_if_applied {prem.overhang_if_applied}, without the {w['which']} row the span is "
                f"{w['span_if'][0]}..{w['span_if'][1]} so expected {w['overhang_if']}"
            )
        delta = abs(w["overhang_if"]) - abs(w["overhang"])
        if prem.overhang_error_delta_if_applied != delta:
            return (
                f"{name}.overhang_error_delta_if_applied {prem.overhang_error_delta_if_applied}, {side} overhang is "
                f"{w['overhang']} now and {w['overhang_if']} without the {w['which']} row so expected {delta}"
            )
        # a removal improves when it brings the overhang nearer to zero, something remains, and it does not
        # leave a negative overhang of three error lengths or more (those are cut instead)
        closer = len(rows) > 1 and delta < 0
        for e in ERR_LENGTHS:
            imp = closer and w["overhang_if"] > -3 * e
            got = prem.improves(e)
            if got is not imp or (e == 1 and prem.makes_worse(e) is imp):
                return (
                    f"{name}.improves({e}) = {got}, makes_worse({e}) = {prem.makes_worse(e)}; {side} overhang "
                    f"{w['overhang']} -> {w['overhang_if']} on {len(rows)} rows means improves = {imp}"
                )
        c = clone(res)
        cp = type(prem)(c, c.rows[0] if side == "start" else c.rows[-1])
        announced = cp.overhang_if_applied
        try:
            cp.apply()
        except Exception as e:
            return f"{name}.apply() raised {type(e).__name__}: {e}"
        if row_keys(c.rows) != row_keys(w["rows_if"]) or (c.start, c.end) != w["span_if"]:
            return (
                f"{name}.apply() leaves span {c.start}..{c.end} rows {row_keys(c.rows)}, removing the {w['which']} row "
                f"and the gaps next to it leaves {w['span_if'][0]}..{w['span_if'][1]} rows {row_keys(w['rows_if'])}"
            )
        after = c.start_overhang if side == "start" else c.end_overhang
        if after != announced:
            return f"{name}.apply() leaves {side} overhang {after} but overhang_if_applied announced {announced}"
    return None


def safe_check(res, src, bait):
    try:
        return check_state(res, src, bait)
    except Exception as e:
        return f"reading the result raised {type(e).__name__}: {e}"


# ------------------------------------------------------------------ readings on an object with a history

FIGURES = (
    ("length", lambda r: r.length),
    ("start_overhang", lambda r: r.start_overhang),
    ("end_overhang", lambda r: r.end_overhang),
    ("length_error", lambda r: r.length_error),
    ("start_row_bait_overlap", lambda r: r.start_row_bait_overlap),
    ("end_row_bait_overlap", lambda r: r.end_row_bait_overlap),
    ("overhang_if_start_removed()", lambda r: r.overhang_if_start_removed()),
    ("overhang_if_end_removed()", lambda r: r.overhang_if_end_removed()),
)
N_ALWAYS = 4  # figures that exist for a result without rows too


def reading_orders():
    rng = random.Random(18)
    base = list(range(len(FIGURES)))
    orders = [tuple(base), tuple(reversed(base)), (6, 7, 4, 5, 0, 1, 2, 3), (7, 5, 2, 6, 4, 1, 3, 0)]
    for _ in range(7):
        o = base[:]
        rng.shuffle(o)
        orders.append(tuple(o))
    return orders


ORDERS = reading_orders()


def want_figures(res, bait):
    """the figures of FIGURES by plain interval arithmetic on the current rows, the span and the looked-up bait"""
    rows = res.rows
    lens = [r.length if isinstance(r, Gap) else r.end - r.start + 1 for r in rows]
    n = sum(lens)
    start, end = res.start, res.end
    out = [n, bait.start - start, end - bait.end, n - (bait.end - bait.start + 1)]
    if rows:
        first_end = start + lens[0] - 1
        last_start = end - lens[-1] + 1
        out.append(max(0, min(first_end, bait.end) - max(start, bait.start) + 1))
        out.append(max(0, min(end, bait.end) - max(last_start, bait.start) + 1))
        k, p = 1, first_end
        while k < len(rows) and isinstance(rows[k], Gap):
            p += lens[k]
            k += 1
        out.append(bait.start - (p + 1))
        k, q = len(rows) - 2, last_start - 1
        while k >= 0 and isinstance(rows[k], Gap):
            q -= lens[k]
            k -= 1
        out.append(q - bait.end)
    return tuple(out)


def make_reader(order, n):
    """a function reading the first n figures of FIGURES from r in the given order (plain code: this runs on every edge)"""
    exprs = ["r.length", "r.start_overhang", "r.end_overhang", "r.length_error", "r.start_row_bait_overlap", "r.end_row_bait_overlap",
             "r.overhang_if_start_removed()", "r.overhang_if_end_removed()"]  # fmt: skip
    assert [e.split(".")[1] for e in exprs] == [name for name, _ in FIGURES]
    body = "".join(f"    v{i} = {exprs[i]}\n" for i in order if i < n)
    ns = {}
    exec(f"def reader(r):\n{body}    return ({', '.join(f'v{i}' for i in range(n))},)\n", ns)  # noqa: S102
    return ns["reader"]


READERS = [(make_reader(o, len(FIGURES)), make_reader(o, N_ALWAYS)) for o in ORDERS]


def read_figures(res, order):
    """every figure read from the object, in the order ORDERS[order]; returned in the order of FIGURES"""
    full, short = READERS[order % len(READERS)]
    return full(res) if res.rows else short(res)


def figures_message(res, bait, got, want, order):
    bad = [f"{FIGURES[i][0]} reads {g}, expected {w}" for i, (g, w) in enumerate(zip(got, want)) if g != w]
    return (
        f"{'; '.join(bad)} by plain interval arithmetic on the current rows {row_keys(res.rows)}, span {res.start}..{res.end} and bait "
        f"{bait.start}-{bait.end} (figures read in the order {[FIGURES[i][0] for i in ORDERS[order % len(ORDERS)] if i < len(got)]} from the "
        "object that has been through the earlier readings and operations: what it reports depends on its history, not only on its rows)"
    )


def check_figures(res, bait, order, want=None):
    """message if a figure read from this very object differs from the arithmetic, else None"""
    try:
        got = read_figures(res, order)
    except Exception as e:
        return f"reading the figures of the edited object raised {type(e).__name__}: {e}"
    want = want or want_figures(res, bait)
    if got != want:
        return figures_message(res, bait, got, want, order)
    return None


STR_LABEL = re.compile(r"^\s*(length|diff|overhang):\s*(-?[\d_]+)\s*$", re.M)


def check_str(res, bait, want=None):
    """the numbers str() prints under the labels length / diff / overhang (first = start, last = end) are the figures"""
    try:
        text = str(res)
    except Exception as e:
        return f"str() of the edited object raised {type(e).__name__}: {e}"
    want = want or want_figures(res, bait)
    found = [(m.group(1), int(m.group(2).replace("_", ""))) for m in STR_LABEL.finditer(text)]
    over = [v for k, v in found if k == "overhang"]
    checks = [(v, want[0], "length") for k, v in found if k == "length"] + [(v, want[3], "diff") for k, v in found if k == "diff"]
    if len(over) == 2:
        checks += [(over[0], want[1], "first overhang"), (over[1], want[2], "last overhang")]
    for got, w, label in checks:
        if got != w:
            return f"str() prints {label} {got}, plain interval arithmetic on the current rows {row_keys(res.rows)}, span {res.start}..{res.end} and bait {bait.start}-{bait.end} gives {w}"
    return None


def carry(res):
    """a copy that keeps every instance attribute of res (all that the object remembers), with a row list of its own"""
    try:
        c = object.__new__(type(res))
        c.__dict__.update(res.__dict__)
    except Exception:
        try:
            c = copy.copy(res)
        except Exception:
            return clone(res)
    c.rows = list(res.rows)
    return c


def walk(src, a, b, ops, order, full, expect_key=None):
    """
    The whole path on ONE object from a fresh lookup.  Before and after every operation every figure and str() are read
    (orders order, order + 1, ...; every second time a few figures twice); full: check_state as well.  Message or None.
    """
    bait = Fragment("scf", a, b, 1, ("Painted", "X"))
    res = src.asm.find_overlaps(bait)
    if res is None:
        return None
    done = []
    for i in range(len(ops) + 1):
        where = f"after {done} on one object" if done else "after find_overlaps"
        if i % 2:
            try:
                read_figures(res, order + 5 + i)
            except Exception as e:
                return f"{where}: reading the figures raised {type(e).__name__}: {e}"
        want = want_figures(res, bait)
        msg = check_figures(res, bait, order + i, want) or check_str(res, bait, want) or check_figures(res, bait, order + i + 3, want)
        if not msg and full:
            msg = safe_check(res, src, bait) or check_figures(res, bait, order + i + 1, want)
        if msg:
            return f"{where}: {msg}"
        if i == len(ops):
            break
        if not res.rows or not apply_op(res, tuple(ops[i])):
            return None if full else f"{where}: {ops[i]} is refused by the object whose figures had been read, but was accepted by an object fresh from the lookup and the same operations"
        done = done + [list(ops[i])]
    if expect_key is not None and state_key(res) != expect_key:
        return (
            f"{done} applied to one object whose figures were read in between leaves span {res.start}..{res.end} rows {row_keys(res.rows)}, "
            f"the same operations without the readings leave span {expect_key[0]}..{expect_key[1]} rows {[list(k) for k in expect_key[2]]}: readings change what operations do"
        )
    return None


def explore(src, a, b, depth, col, counters, walk_every=1, noop_every=1):
    bait = Fragment("scf", a, b, 1, ("Painted", "X"))
    try:
        res = src.asm.find_overlaps(bait)
    except Exception:
        return False  # C12's business
    if res is None:
        return False
    base = {"rows": [list(k) for k in src.kinds], "a": a, "b": b}
    msg = safe_check(res, src, bait)
    counters["states"] += 1
    if msg:
        col.fail(f"after find_overlaps({a}-{b}) on rows {src.kinds}: {msg}", dict(base, ops=[]))
        return True
    key = state_key(res)
    frontier = [(res, [], key)]
    seen = {key: want_figures(res, bait)}
    for _ in range(depth):
        nxt = []
        for st, path, st_key in frontier:
            if not st.rows:
                continue
            for op in OPS:
                # the copy remembers what st remembers (st has had every figure read in check_state)
                c = carry(st)
                counters["ops"] += 1
                if not apply_op(c, op):
                    continue
                key = state_key(c)
                counters["edges"] += 1
                order = counters["edges"]
                known = seen.get(key)
                if key == st_key and order % noop_every:
                    continue  # quick tier: of the edges that change neither rows nor span only every noop_every-th is read
                counters["edges_read"] += 1
                msg = check_figures(c, bait, order, known)
                if msg:
                    p2 = path + [list(op)]
                    col.fail(f"find_overlaps({a}-{b}) on rows {src.kinds} then {p2}, figures read before and after every operation on the same object: {msg}", dict(base, ops=p2, order=order))
                    if col.full:
                        return True
                    continue
                if known is not None:
                    continue
                seen[key] = want_figures(c, bait)
                p2 = path + [list(op)]
                msg = safe_check(c, src, bait)
                counters["states"] += 1
                if not msg and counters["states"] % walk_every == 0:
                    counters["walks"] += 1
                    msg = walk(src, a, b, p2, order, False, key)
                if msg:
                    col.fail(f"find_overlaps({a}-{b}) on rows {src.kinds} then {p2}: {msg}", dict(base, ops=p2, order=order))
                    if col.full:
                        return True
                    continue
                nxt.append((c, p2, key))
        frontier = nxt
    return True


def replay(inp):
    """the recorded path on one object, everything read (figures, str(), check_state) before and after every operation"""
    src = Source([tuple(k) for k in inp["rows"]])
    order = inp.get("order", 0)
    msg = walk(src, inp["a"], inp["b"], inp["ops"], order, True)
    if msg:
        return msg
    # the state the exploration judged: the operations alone on an object fresh from the lookup (no readings in between)
    bait = Fragment("scf", inp["a"], inp["b"], 1, ("Painted", "X"))
    res = src.asm.find_overlaps(bait)
    if res is None:
        return None
    for op in inp["ops"]:
        if not res.rows or not apply_op(res, tuple(op)):
            return None
    msg = safe_check(res, src, bait) or walk(src, inp["a"], inp["b"], inp["ops"], order, False, state_key(res))
    return f"after {inp['ops']}: {msg}" if msg else None


def run(tier, seed, **opts):
    rng = random.Random(seed)
    quick = tier == "quick"
    depth = 3 if quick else 4
    full_rows = 3 if quick else 4
    col = Collector(
        f"scaffolds of rows from {len(ROW_KINDS)} kinds (gap 1-2, fragment 1-3 on either strand) x every bait "
        f"1 <= a <= b <= total+2 x every sequence of <= {depth} operations from {len(OPS)} (discard_start, discard_end, "
        f"trim_large_overhangs(e in {ERR_LENGTHS}), trim_fragment(first|last, 4 keep-flag combinations)), explored over "
        "distinct states; every state is judged on the OverlapResult attributes and on the figures of the "
        "OverhangPremise objects for its first and last row (each subclass built directly and the ones "
        "OverhangResolver.add_overhang_premise makes: bait overlap, what-if overhang, error delta, improves / "
        f"makes_worse for error lengths {ERR_LENGTHS}, effect of apply), always against the bait that was looked up; every "
        "child state is made by editing a copy of its parent that keeps all instance attributes, and on every edge (also to states "
        "already seen" + ("; of the edges that change neither rows nor span every 6th" if quick else "") + ") all figures are read from the edited object in a "
        "changing order and compared with interval arithmetic on "
        f"its current rows; for {'every 25th state' if quick else 'every 4th state'} the whole path is walked on ONE object from a fresh lookup with all "
        "figures and str() read before and after each operation (changing orders, some twice) and the final state compared with the "
        "one reached without readings; non-trivial = distinct (scaffold, bait) "
        "with a non-empty lookup result; evaluations = operation applications + states checked"
    )
    counters = {"ops": 0, "states": 0, "edges": 0, "edges_read": 0, "walks": 0}
    walk_every, noop_every = (25, 6) if quick else (4, 1)
    n_sc = 0

    def do_scaffold(kinds):
        nonlocal n_sc
        src = Source(kinds)
        n_sc += 1
        total = len(src.bases)
        for a in range(1, total + 3):
            for b in range(a, total + 3):
                if explore(src, a, b, depth, col, counters, walk_every, noop_every):
                    col.distinct.add((kinds, a, b))
                    if len(col.samples) < col.max_samples and (n_sc % 97 == 5 and a == 2 and b == total):
                        col.samples.append({"rows": [list(k) for k in kinds], "a": a, "b": b, "depth": depth})
                if col.full:
                    return

    for n in range(1, full_rows + 1):
        for kinds in itertools.product(ROW_KINDS, repeat=n):
            do_scaffold(kinds)
            if col.full:
                break
    # one row more, sampled
    n_extra = 150 if quick else 600
    for _ in range(n_extra):
        if col.full:
            break
        kinds = tuple(rng.choice(ROW_KINDS) for _ in range(full_rows + 1))
        do_scaffold(kinds)
    col.evaluations = counters["ops"] + counters["states"]
    return col.result(
        bounds=f"all scaffolds of <= {full_rows} rows ({len(ROW_KINDS)} row kinds) + {n_extra} random scaffolds of {full_rows + 1} rows; "
        f"all baits up to total+2; all operation sequences of length <= {depth}",
        exhaustive=True,
        states_checked=counters["states"],
        edges_checked=counters["edges_read"],
        same_object_walks=counters["walks"],
    )
