"""
C15 bounded tier: the FASTA index cache (<fasta>.fai / <fasta>.agp) is never silently used when stale,
partial or concurrently rewritten.

Oracle: the index and the assembly are computed here from the FASTA *bytes* (record offsets, line lengths,
maximal ACGTacgt runs as contigs, everything else as 'scaffold' gaps).  An observation is one fresh
FastaIndex(path).auto_load(); it must raise or show exactly that.

(a) histories over {rewrite FASTA, delete .fai, delete .agp, auto-load} on a logical clock that advances by
    0 or 1 between operations (so "cache mtime == FASTA mtime" occurs); every file written by an operation gets the
    logical time of that operation through os.utime (whole seconds here; fractions of a second: (h)).
(b) crash points: the indexing run happens in a forked child whose file operations (open, every raw write that
    reaches the OS, close, rename, unlink, stat) are counted through wrappers around builtins.open / io.open /
    os.replace / ...; the child is killed with os._exit before operation k, for every k.  Buffered data that has not
    reached the OS is lost, completed operations persist.  Then the parent observes.
(c) two "processes" (threads with separate fake pids, gated so that exactly one runs at a time) auto-load the same
    FASTA; the schedule switches at file-operation boundaries with at most two preemptions.  A third process, a reader
    that runs unpreempted, auto-loads while the others are suspended (evaluated on a copy of the files).
(d) indexing runs interrupted by an *exception* instead of a kill: at file operation k (the operations of (b) plus every
    write() call on the text handle of a cache file, i.e. between any two rows) the run receives KeyboardInterrupt (a real
    SIGINT when the check runs in the main thread), OSError(ENOSPC) or SystemExit.  The stack unwinds through the writing
    code, so whatever it does in except / finally / __exit__ happens.  Then a fresh auto-load is judged.
(e) several index / rewrite cycles inside ONE process: histories over {rewrite with a different size, rewrite with the SAME
    size in bytes (other names, lengths, offsets, gaps), delete the cache, auto-load on a new object, auto-load on one
    long-lived object, run_indexing() on a new object, run_indexing() on the long-lived object}; every result is judged
    against the FASTA bytes, so state carried from one indexing run to the next inside the process shows.
(h) time stamps with fractions of a second (every current file system has them; "strictly newer" is a statement about the
    time stamps as they are, not about whole seconds): histories as in (a) on a clock that runs in ms (also us, ns), starts at
    a fraction of a second and advances by 0 / 400 / 700 units, every time stamp set to the nanosecond with os.utime(ns=...).
    A cache written a fraction of a second BEFORE the rewrite of the FASTA (same clock second, first or second half) or at
    the very same instant is not strictly newer: it must be rebuilt, and the load must show the new content.  Three such
    cache states (stale-same-second, stale-same-instant, valid-same-second) also go through the complete runs of (f).
(i) FASTA contents with records that have no residues (header line only: first / middle / last record, two in a row, all
    records, the only record).  Such a record has a row of length 0 in the .fai and no line in the .agp, yet the assembly of
    the content has a scaffold (without rows) for it, in file order: histories as in (a), (e), (g) over these contents, and
    the complete runs of (f), crash points (b) and injections (d) on one of them; index AND assembly of every load, from the
    cache or not, must be those of the current content.  When the .agp on disk is judged with this module's own reader it is
    compared with the scaffolds that have rows.
(j) record ORDER.  The index of a FASTA file is the sequence of its records in file order (that is what a .fai is, and what
    iterating FastaIndex.index / FastaIndex.assembly.scaffolds gives after indexing), so "exactly the index and assembly of
    the current content" is judged on ordered lists, never on dict equality.  In the contents of (a)-(i) the record names
    happen to be in string order, so an order lost on the way through the cache would not show.  Family (j) uses contents
    whose file order differs from every order a program might impose (string order of the names, natural / numeric order,
    case-folded order, ascending or descending length, reverse file order), with and without records that have no residues
    (whose place in the assembly can only come from the index order): histories as in (a), (e), (g), complete runs (f), crash
    points (b) and injections (d) over these contents.
After (a), (d), (e), (h), (i) and (j) the cache files themselves are read with this module's own parsers: if both exist and are strictly
newer than the FASTA (what any later process will take as valid) they must describe the FASTA bytes.

Layouts.  The path handed to FastaIndex, and the cache files found next to it, need not be regular files: data staged by a
workflow manager are symbolic links.  Histories (a), crash points (b), injections (d) and complete runs (f) are therefore
also executed with the FASTA path being a symbolic link (or a chain of two) to the real file - rewrites go to the target, by
writing in place or by replacing it - and with the cache files being symbolic links to files kept elsewhere (history
operation S "stage": every cache file present is moved to a store directory and a link is left under its name).  A link's
own timestamp says when the link was made, not when the content was written: links to the FASTA are made before
everything else, links to cache files at the logical time of the staging.  The oracle is the same: raise, or show the
current bytes of the FASTA.

(f) publication rule ("a reader never observes a half-written cache file as valid"): the final name <fasta>.fai /
    <fasta>.agp may only ever come into existence, or change, by a rename of a completely written file from the SAME
    directory (the only operation that is atomic whatever file systems are mounted).  Under the interception of file
    operations a complete auto_load() / run_indexing() is executed from every cache state and the following are failures:
    opening the final name for writing (builtins.open, io.open, os.open; this is also what a copy onto it does); a rename /
    move onto it from another directory (a temporary file outside the FASTA's directory: a rename only if both happen to be on
    one file system); a rename of a file that does not, at that moment, hold the complete index / assembly of the FASTA
    bytes; a final file that differs after the run although no rename onto it was seen.  Each run is done with TMPDIR as it
    is and with TMPDIR pointing elsewhere (/dev/shm if usable, else a second temporary directory); the rule itself does not
    need a second file system.  The same monitor is active in (c) and (d).  If the sequence of file operations of a run
    depends on where TMPDIR points, the crash points of (b) are explored for that placement as well (with shutil's
    sendfile shortcut off, so that a copy is a sequence of writes).
"""

import builtins
import errno
import functools
import io
import itertools
import logging
import os
import pathlib
import random
import re
import shutil
import signal
import tempfile
import threading
import time

from tola.fasta.index import FastaIndex

from .common import Collector

SEQ_CHARS = set(b"ACGTacgt")


# ------------------------------------------------------------------ oracle


@functools.lru_cache(maxsize=64)
def brute(data):
    """(index rows [[name, length, offset, residues per line, line length in bytes]], assembly [[name, rows]])"""
    recs = []
    pos = 0
    n = len(data)
    while pos < n:
        nl = data.find(b"\n", pos)
        end = n if nl < 0 else nl + 1
        line = data[pos:end]
        body = line.rstrip(b"\r\n")
        if line[:1] == b">":
            recs.append({"name": body[1:].split()[0].decode(), "offset": end, "eol": len(line) - len(body), "lines": []})
        elif recs:
            recs[-1]["lines"].append(body)
        pos = end
    index, asm = [], []
    for r in recs:
        seq = b"".join(r["lines"])
        rpl = len(r["lines"][0]) if r["lines"] else 0
        index.append([r["name"], len(seq), r["offset"], rpl, rpl + r["eol"]])
        rows = []
        i = 0
        while i < len(seq):
            j = i
            is_seq = seq[i] in SEQ_CHARS
            while j < len(seq) and (seq[j] in SEQ_CHARS) == is_seq:
                j += 1
            rows.append(["F", r["name"], i + 1, j, 1] if is_seq else ["G", j - i, "scaffold"])
            i = j
        asm.append([r["name"], rows])
    return index, asm


@functools.lru_cache(maxsize=16)
def cache_texts(data):
    """hand-written .fai and .agp for FASTA bytes (used to plant valid or stale caches)"""
    index, asm = brute(data)
    fai = "".join("\t".join(str(x) for x in row) + "\n" for row in index)
    lines = []
    for name, rows in asm:
        p = 0
        for i, r in enumerate(rows):
            if r[0] == "F":
                n = r[3] - r[2] + 1
                lines.append("\t".join([name, str(p + 1), str(p + n), str(i + 1), "W", r[1], str(r[2]), str(r[3]), "+"]))
            else:
                n = r[1]
                lines.append("\t".join([name, str(p + 1), str(p + n), str(i + 1), "U", str(n), r[2], "yes", "proximity_ligation"]))
            p += n
    return fai, "".join(line + "\n" for line in lines)


@functools.lru_cache(maxsize=64)
def make_fasta(version, big=False):
    """deterministic content; different versions differ in names, lengths, offsets and gap positions"""
    if big == "empty":
        return make_fasta_empty(version)
    rng = random.Random(version * 7919 + (1 if big else 0))
    out = []
    n_seq = 420 if big else 2 + version % 2
    width = 50 + version % 7 if big else 8 + version % 5
    for i in range(n_seq):
        name = f"seq{i:04d}v{version}" if big else f"s{i + 1}_{version}"
        parts = []
        for k in range(rng.randint(1, 3)):
            if k or rng.random() < 0.2:
                parts.append("N" * rng.randint(1, 12))
            parts.append("".join(rng.choice("ACGTacgt") for _ in range(rng.randint(3, 40 if not big else 60))))
        if rng.random() < 0.3:
            parts.append("n" * rng.randint(1, 5))
        seq = "".join(parts)
        out.append(f">{name} description {version}\n")
        for p in range(0, len(seq), width):
            out.append(seq[p : p + width] + "\n")
    return "".join(out).encode()


# (number of records, which of them have a header line but no residues), by version modulo 8
EMPTY_PATTERNS = [(3, {1}), (3, {0}), (3, {2}), (4, {1, 2}), (2, {0, 1}), (1, {0}), (4, {0, 3}), (5, {0, 1, 4})]


@functools.lru_cache(maxsize=64)
def make_fasta_empty(version):
    """
    Contents in which some records consist of a header line only (legal FASTA: a .fai has a row of length 0 for such a
    record, an AGP file has no line for it): first / middle / last record, two in a row, all records, the only record.
    """
    rng = random.Random(version * 6151 + 5)
    n_seq, empty = EMPTY_PATTERNS[version % len(EMPTY_PATTERNS)]
    width = 8 + version % 5
    out = []
    for i in range(n_seq):
        out.append(f">e{i + 1}_{version}" + (" no residues\n" if i in empty and rng.random() < 0.5 else "\n"))
        if i in empty:
            continue
        parts = []
        for k in range(rng.randint(1, 3)):
            if k or rng.random() < 0.3:
                parts.append("N" * rng.randint(1, 9))
            parts.append("".join(rng.choice("ACGTacgt") for _ in range(rng.randint(3, 30))))
        seq = "".join(parts)
        for p in range(0, len(seq), width):
            out.append(seq[p : p + width] + "\n")
    return "".join(out).encode()


# (j) record names in FILE order (0 marks a record without residues in the variants that have such records).  In each pattern
# the file order differs from the string order of the names, from their natural (numeric) order, from the case-folded order and
# from the reverse of each; the lengths given by ORDER_LENGTHS are neither ascending nor descending in file order.
ORDER_PATTERNS = [
    (["scaffold_2", "scaffold_1", "scaffold_10"], {2}),  # string order 1, 10, 2; natural order 1, 2, 10
    (["scaffold_10", "scaffold_9", "scaffold_11", "scaffold_1"], {0}),
    (["ctg_b", "Ctg_c", "ctg_a", "CTG_D"], {1, 3}),  # upper / lower case: code point order differs from case-folded order
    (["chrX", "chr2", "chr10", "chrMT", "chr1"], {3}),
    (["z", "m", "a", "q"], {1, 2}),
    (["s3", "s1", "s2"], set()),
    (["hap2_5", "hap1_12", "hap1_3", "hap2_1", "hap1_1"], {4}),
    (["b", "c", "a"], {1}),
]
ORDER_LENGTHS = [23, 9, 41, 5, 30]


@functools.lru_cache(maxsize=64)
def make_fasta_order(version):
    """
    Contents whose records are NOT in any sorted order (ORDER_PATTERNS[version % 8]); odd rounds of the patterns
    (version // 8 odd) have records without residues at the marked places, even rounds have none.  Rewrites (version + 1)
    change names, lengths and offsets.
    """
    rng = random.Random(version * 4793 + 11)
    names, empty = ORDER_PATTERNS[version % len(ORDER_PATTERNS)]
    if (version // len(ORDER_PATTERNS)) % 2 == 0:
        empty = set()
    width = 7 + version % 4
    out = []
    for i, name in enumerate(names):
        out.append(f">{name}" + (" record order\n" if rng.random() < 0.5 else "\n"))
        if i in empty:
            continue
        n = ORDER_LENGTHS[(i + version) % len(ORDER_LENGTHS)] + (version // len(ORDER_PATTERNS))
        seq = [rng.choice("ACGTacgt") for _ in range(n)]
        if n > 12 and rng.random() < 0.6:
            at = rng.randint(2, n - 6)
            seq[at : at + rng.randint(1, 4)] = "N" * rng.randint(1, 4)
        seq = "".join(seq)
        for p in range(0, len(seq), width):
            out.append(seq[p : p + width] + "\n")
    return "".join(out).encode()


def order_is_telling(data):
    """generator self-check: the file order of the records differs from every order a program might impose on them"""
    index, _ = brute(data)
    names = [r[0] for r in index]
    nat = lambda s: [int(x) if x.isdigit() else x for x in re.split(r"(\d+)", s)]  # noqa: E731
    keyed = [sorted(names), sorted(names, key=nat), sorted(names, key=str.casefold), sorted(names, key=lambda s: nat(s.casefold()))]
    lens = [r[1] for r in index]
    by_len = [[n for _, n in sorted(zip(lens, names), key=lambda t: t[0], reverse=rev)] for rev in (False, True)] if len(set(lens)) == len(lens) else []
    return len(names) > 1 and all(names != o and names != o[::-1] for o in keyed + by_len) and names != names[::-1]


def size_words(big):
    """the input of a scenario in words: big is False (small), True (cache files > 8 KiB), "empty" (make_fasta_empty) or
    "order" / "order-empty" (make_fasta_order without / with records that have no residues)"""
    if big in ("order", "order-empty"):
        return "small (records not in sorted order of their names" + (", some without residues)" if big == "order-empty" else ")")
    return "small (some records without residues)" if big == "empty" else "big" if big else "small"


@functools.lru_cache(maxsize=64)
def make_fasta_ss(family, j):
    """
    Same-size family: make_fasta_ss(family, 0), (family, 1), ... all have the same size in bytes (same header lengths,
    same number of residues, same number of lines), but consecutive members differ in the sequence names (every third
    step), in the lengths of the first two records (bases move between their last lines, so offsets move too) and in
    the residues and gap positions.
    """
    rng = random.Random(family * 104729 + 17)
    n_seq = 2 + family % 2
    width = 8 + family % 5
    full = [rng.randint(0, 3) for _ in range(n_seq)]
    rem = [rng.randint(2, width - 2) for _ in range(n_seq)]
    shift = j % 3 - 1
    rem[0] += shift
    rem[1] -= shift
    letter = "abcd"[(j // 3) % 4]
    crng = random.Random(family * 104729 + 1000 + j)
    out = []
    for i in range(n_seq):
        n = full[i] * width + rem[i]
        seq = [crng.choice("ACGTacgt") for _ in range(n)]
        at = crng.randint(0, n - 1)
        for p in range(at, min(n, at + crng.randint(0, 4))):
            seq[p] = "N"
        seq = "".join(seq)
        out.append(f">q{i + 1}{letter}_{family} same-size family\n")
        for p in range(0, n, width):
            out.append(seq[p : p + width] + "\n")
    return "".join(out).encode()


class Content:
    """
    the FASTA content of a history: rewrites either change the size in bytes or keep it.  gen: None (make_fasta), "ss"
    (same-size families), "empty" (contents with records without residues, make_fasta_empty), "order" (records not in sorted
    order, make_fasta_order); v0: first version
    """

    def __init__(self, gen=None, v0=0):
        self.ss = gen in (True, "ss")
        self.empty = gen == "empty"
        self.order = gen == "order"
        self.version = v0
        self.j = 0

    @property
    def data(self):
        if self.empty:
            return make_fasta_empty(self.version)
        if self.order:
            return make_fasta_order(self.version)
        return make_fasta_ss(self.version, self.j) if self.ss else make_fasta(self.version)

    def rewrite(self, same_size):
        if not self.ss:
            if same_size:
                raise ValueError("same-size rewrites need gen='ss'")
            self.version += 1
        elif same_size:
            self.j += 1
        else:
            size = len(self.data)
            self.j = 0
            self.version += 1
            while len(self.data) == size:
                self.version += 1
        return self.data


def snapshot(fai):
    """(index, assembly) of a FastaIndex object as plain lists"""
    index = [[name, i.length, i.file_offset, i.residues_per_line, i.max_line_length] for name, i in fai.index.items()]
    asm = []
    for sc in fai.assembly.scaffolds:
        rows = []
        for r in sc.rows:
            if hasattr(r, "gap_type"):
                rows.append(["G", r.length, r.gap_type])
            else:
                rows.append(["F", r.name, r.start, r.end, r.strand])
        asm.append([sc.name, rows])
    return index, asm


def observe(path, obj=None, method="auto_load"):
    """
    one load: ('ok', index, assembly) or ('raised', text).  Default: auto_load() of a fresh FastaIndex; obj: a FastaIndex
    object to (re)use; method: 'auto_load' or 'run_indexing'.
    """
    try:
        fai = FastaIndex(pathlib.Path(path)) if obj is None else obj
        getattr(fai, method)()
        return ("ok", *snapshot(fai))
    except Exception as e:
        return ("raised", f"{type(e).__name__}: {e}")


def parse_fai_lines(lines):
    """this module's own reader of a .fai: index rows, or None if not parseable"""
    index = []
    try:
        for line in lines:
            name, *nums = line.split()
            if len(nums) != 4:
                return None
            index.append([name] + [int(x) for x in nums])
    except ValueError:
        return None
    return index


def parse_agp_lines(lines):
    """this module's own reader of an .agp: [[scaffold, rows]], or None if not parseable"""
    asm = []
    try:
        for line in lines:
            if not line.strip() or line.startswith("#"):
                continue
            c = line.split("\t")
            if len(c) < 9:
                return None
            if not asm or asm[-1][0] != c[0]:
                asm.append([c[0], []])
            if c[4] in ("U", "N"):
                asm[-1][1].append(["G", int(c[5]), c[6]])
            else:
                asm[-1][1].append(["F", c[5], int(c[6]), int(c[7]), {"+": 1, "-": -1}.get(c[8], 0)])
    except ValueError:
        return None
    return asm


@functools.lru_cache(maxsize=32)
def parsed_cache_bytes(ext, content):
    """(what this module's reader makes of the bytes of a .fai / .agp, number of lines)"""
    lines = content.decode(errors="replace").splitlines()
    return (parse_fai_lines(lines) if ext == ".fai" else parse_agp_lines(lines)), len(lines)


def cache_on_disk_claim(fa, data):
    """
    What a later process finds: if <fa>.fai and <fa>.agp both exist and are strictly newer than the FASTA they pass for
    valid, so (read with the parsers above, not the library's) they must describe `data`.  None if there is no such
    claim, the files are not parseable (a reader fails loudly) or they are right; else a message.
    """
    try:
        st = os.stat(fa)
        if not all(os.stat(fa + ext).st_mtime_ns > st.st_mtime_ns for ext in (".fai", ".agp")):
            return None
        with open(fa + ".fai") as fh:
            fai_lines = fh.read().splitlines()
        with open(fa + ".agp") as fh:
            agp_lines = fh.read().splitlines()
    except FileNotFoundError:
        return None
    index, asm = parse_fai_lines(fai_lines), parse_agp_lines(agp_lines)
    if index is None or asm is None:
        return None
    return judge(("ok", index, asm), data, agp_file=True)


def with_rows(asm):
    """what an AGP file can say about an assembly: it has one line per row, so a record without residues has no line"""
    return [sc for sc in asm if sc[1]]


def judge(obs, data, agp_file=False):
    """
    None if the observation is allowed, else a message.  agp_file: obs[2] was read from an .agp file, so it is compared
    with the scaffolds of the content that have rows (the others are in the .fai only).
    """
    if obs[0] == "raised":
        return None
    index, asm = brute(data)
    if obs[1] != index:
        if sorted(obs[1]) == sorted(index):
            got_names, want_names = [r[0] for r in obs[1]], [r[0] for r in index]
            return (
                f"the index has the right {len(index)} entries but lists the records in the order {got_names[:6]}; in the FASTA content they are in the "
                f"order {want_names[:6]} (the index of a FASTA file is the sequence of its records: iterating it, e.g. to stream all records, gives another file)"
            )
        return f"index has {len(obs[1])} entries {obs[1][:2]}..., the FASTA content has {len(index)}: {index[:2]}..."
    if agp_file:
        asm = with_rows(asm)
    if obs[2] != asm:
        n_got = sum(len(r) for _, r in obs[2])
        n_want = sum(len(r) for _, r in asm)
        msg = f"assembly has {len(obs[2])} scaffolds / {n_got} rows, the FASTA content has {len(asm)} scaffolds / {n_want} rows"
        got_names, want_names = [n for n, _ in obs[2]], [n for n, _ in asm]
        if got_names != want_names:
            no_residues = {row[0] for row in index if row[1] == 0}
            missing = [n for n in want_names if n not in got_names]
            if missing:
                msg += f"; missing scaffolds {missing[:4]}" + (" (all of them records without residues: header line only)" if set(missing) <= no_residues else "")
            elif sorted(got_names) == sorted(want_names):
                msg += f"; scaffolds in the order {got_names[:6]}, in the FASTA they are in the order {want_names[:6]}"
            else:
                msg += f"; scaffolds {[n for n in got_names if n not in want_names][:4]} are not records of the FASTA (or are repeated)"
        return msg
    return None


# ------------------------------------------------------------------ instrumentation of file operations


class EventFileIO(io.FileIO):
    def __init__(self, path, mode, hook):
        self._hook = hook
        self._path = path
        self._writing = any(c in mode for c in "wxa+")
        hook("open-" + mode, path)
        super().__init__(path, mode)

    def write(self, b):
        self._hook("write", self._path)
        return super().write(b)

    def readinto(self, b):
        self._hook("read", self._path)
        return super().readinto(b)

    def readall(self):
        self._hook("read", self._path)
        return super().readall()

    def close(self):
        try:
            if not self.closed and self._writing:
                self._hook("close", self._path)
        finally:
            super().close()  # a hook that raises models close(2) reporting an error: the descriptor is released anyway


class EventText(io.TextIOWrapper):
    """text handle of a file opened for writing: every write() call is an event (nothing reaches the OS here)"""

    def __init__(self, buf, hook, path, **kw):
        super().__init__(buf, **kw)
        self._hook = hook
        self._path = path

    def write(self, s):
        self._hook("text-write", self._path)
        return super().write(s)


class FileOps:
    """context manager: file operations on paths under `watch` call hook(label, path) first"""

    def __init__(self, watch, hook, pid_of=None, text_events=False, fasta=None, data=None):
        self.watch = str(watch)
        self.hook = hook
        self.pid_of = pid_of
        self.text_events = text_events  # also report write() calls on text handles (exception injection points)
        self.saved = {}
        # publication rule (f): how the final cache names of `fasta` (whose bytes are `data`) come into existence
        self.finals = {os.path.abspath(fasta + ext): ext for ext in (".fai", ".agp")} if fasta else {}
        self.data = data
        self.violations = []
        self.renamed_onto = set()
        self.before = {}

    def final_name(self, p):
        """extension of the final cache name that p denotes, else None"""
        if isinstance(p, int) or not self.finals:
            return None
        try:
            return self.finals.get(os.path.abspath(os.fspath(p)))
        except TypeError:
            return None

    def violation(self, text):
        if text not in self.violations:
            self.violations.append(text)

    def entry_sig(self, p):
        """identity of what is found under a name: the directory entry itself and what it leads to"""
        out = []
        for follow in (False, True):
            try:
                st = self.saved["stat"](p, follow_symlinks=follow)
                out.append((st.st_ino, st.st_mtime_ns, st.st_size))
            except OSError:
                out.append(None)
        return tuple(out)

    def check_opened_for_writing(self, path, how):
        ext = self.final_name(path)
        if ext:
            self.violation(
                f"the cache file {os.path.basename(os.fspath(path))} is opened for writing under its final name ({how}): its content is "
                "built up (or copied) in place, so a crash or a reader in between finds a partial file under the name and with the "
                "fresh mtime of a valid cache; the name may only appear by a rename of a completely written file"
            )

    def check_rename(self, src, dst):
        ext = self.final_name(dst)
        if not ext:
            return
        dst_s, src_s = os.path.abspath(os.fspath(dst)), os.path.abspath(os.fspath(src))
        self.renamed_onto.add(dst_s)
        if os.path.dirname(src_s) != os.path.dirname(dst_s):
            self.violation(
                f"the cache file {os.path.basename(dst_s)} is put in place by moving the temporary file {src_s} from another directory "
                f"than the FASTA's ({os.path.dirname(dst_s)}): that is an atomic rename only while both happen to be on one file system, "
                "otherwise it fails or becomes a copy under the final name"
            )
        if self.data is None:
            return
        try:
            with self.saved["open"](src_s, "rb") as fh:
                got, n_lines = parsed_cache_bytes(ext, fh.read())
        except OSError:
            return  # nothing there (any more): the rename itself is going to fail, loudly
        index, asm = brute(self.data)
        want, what = (index, "index rows") if ext == ".fai" else (with_rows(asm), "scaffolds with rows")
        if got != want and got is not None and sorted(map(repr, got)) == sorted(map(repr, want)):
            self.violation(
                f"the temporary file renamed to {os.path.basename(dst_s)} holds the {len(want)} {what} of the FASTA content but not in the order of "
                f"the records in the file: {[r[0] for r in got][:6]} instead of {[r[0] for r in want][:6]} (whoever reads this cache gets the records in another order)"
            )
        elif got != want:
            self.violation(
                f"the temporary file renamed to {os.path.basename(dst_s)} is not completely written at the moment of the rename: it holds "
                f"{'something unparseable' if got is None else f'{len(got)} {what}'} in {n_lines} lines, the FASTA content has {len(want)} {what}"
            )

    def finish(self):
        """after the run: a final file that is different now must have been renamed into place"""
        for p in self.finals:
            now = self.entry_sig(p)
            if now[1] is not None and now != self.before.get(p) and p not in self.renamed_onto:
                if not any(os.path.basename(p) in v for v in self.violations):
                    self.violation(
                        f"the cache file {os.path.basename(p)} is new or different after the run although nothing was renamed onto it: it "
                        "was written in place by an operation other than an atomic rename"
                    )
        return self.violations

    def watched(self, p):
        if isinstance(p, int):
            return False
        try:
            return os.fspath(p).startswith(self.watch)
        except TypeError:
            return False

    def __enter__(self):
        real_open = builtins.open
        s = self.saved = {
            "open": real_open,
            "io_open": io.open,
            "replace": os.replace,
            "rename": os.rename,
            "unlink": os.unlink,
            "remove": os.remove,
            "stat": os.stat,
            "getpid": os.getpid,
            "os_open": os.open,
        }
        self.before = {p: self.entry_sig(p) for p in self.finals}

        def my_open(file, mode="r", buffering=-1, encoding=None, errors=None, newline=None, closefd=True, opener=None):
            rawmode = mode.replace("b", "").replace("t", "")
            if rawmode != "r":
                self.check_opened_for_writing(file, f"open(..., {mode!r})")
            if opener is not None or not self.watched(file):
                return real_open(file, mode, buffering, encoding, errors, newline, closefd, opener)
            raw = EventFileIO(os.fspath(file), rawmode, self.hook)
            if rawmode == "r":
                buf = io.BufferedReader(raw)
            else:
                buf = io.BufferedWriter(raw)
            if "b" in mode:
                return buf
            if self.text_events and rawmode != "r":
                return EventText(buf, self.hook, os.fspath(file), encoding=io.text_encoding(encoding), errors=errors, newline=newline)
            return io.TextIOWrapper(buf, encoding=io.text_encoding(encoding), errors=errors, newline=newline)

        def wrap2(name, label):
            real = s[name]

            def f(src, dst, *a, **kw):
                if self.watched(dst):
                    self.hook(label, os.fspath(dst))
                    self.check_rename(src, dst)
                return real(src, dst, *a, **kw)

            return f

        def my_os_open(path, flags, mode=0o777, *, dir_fd=None):
            if dir_fd is None and self.watched(path) and flags & (os.O_WRONLY | os.O_RDWR | os.O_CREAT | os.O_TRUNC | os.O_APPEND):
                self.hook("os-open-w", os.fspath(path))
                self.check_opened_for_writing(path, "os.open with write flags")
            return s["os_open"](path, flags, mode, dir_fd=dir_fd)

        def wrap1(name, label):
            real = s[name]

            def f(p, *a, **kw):
                if self.watched(p):
                    self.hook(label, os.fspath(p))
                return real(p, *a, **kw)

            return f

        builtins.open = my_open
        io.open = my_open
        os.replace = wrap2("replace", "rename")
        os.rename = wrap2("rename", "rename")
        os.unlink = wrap1("unlink", "unlink")
        os.remove = wrap1("remove", "unlink")
        os.stat = wrap1("stat", "stat")
        os.open = my_os_open
        if self.pid_of:
            real_getpid = s["getpid"]
            os.getpid = lambda: self.pid_of() or real_getpid()
        return self

    def __exit__(self, *exc):
        s = self.saved
        builtins.open = s["open"]
        io.open = s["io_open"]
        os.replace, os.rename, os.unlink, os.remove, os.stat, os.getpid = s["replace"], s["rename"], s["unlink"], s["remove"], s["stat"], s["getpid"]
        os.open = s["os_open"]
        return False


# ------------------------------------------------------------------ (a) histories

T0 = 1_500_000_000


def file_sig(p):
    try:
        st = os.stat(p)
    except FileNotFoundError:
        return None
    return (st.st_ino, st.st_mtime_ns, st.st_size)


LOAD_OPS = {
    # op: (what is loaded, method, description)
    "L": ("new", "auto_load", "auto-load on a new FastaIndex object"),
    "Lo": ("same", "auto_load", "auto-load on the FastaIndex object that lives through the whole history"),
    "R": ("new", "run_indexing", "run_indexing() on a new FastaIndex object"),
    "Ro": ("same", "run_indexing", "run_indexing() on the FastaIndex object that lives through the whole history"),
}


def ns_of(when):
    """a time given in seconds (int or float) or, above 10**12, already in nanoseconds -> nanoseconds"""
    return when if isinstance(when, int) and when > 10**12 else int(round(when * 10**9))


def set_time(p, when):
    """mtime (and atime) of a file, to the nanosecond"""
    os.utime(p, ns=(ns_of(when), ns_of(when)))


def set_link_time(p, when):
    """the timestamp of a symbolic link itself (when the link was made)"""
    if os.utime in os.supports_follow_symlinks:
        os.utime(p, ns=(ns_of(when), ns_of(when)), follow_symlinks=False)


UNIT_NS = {"s": 10**9, "ms": 10**6, "us": 10**3, "ns": 1}


def offset_words(ns, t0_ns):
    """a time stamp relative to the start of the history, exactly: 'T0+0.6 s'"""
    d = ns - t0_ns
    sign, d = ("-", -d) if d < 0 else ("+", d)
    frac = f"{d % 10**9:09d}".rstrip("0")
    return f"T0{sign}{d // 10**9}" + (f".{frac}" if frac else "") + " s"


def times_words(fa, t0_ns):
    """the mtimes on which the validity of the cache is decided, in words"""
    out = []
    for ext in ("", ".fai", ".agp"):
        try:
            out.append(f"{ext or 'FASTA'} written at {offset_words(os.stat(fa + ext).st_mtime_ns, t0_ns)}")
        except FileNotFoundError:
            out.append(f"{ext} absent")
    return ", ".join(out)


HISTORY_LAYOUTS = ("plain", "link", "chain")


def place_fasta(d, layout, data, when):
    """
    Puts the FASTA bytes in place; returns (path for FastaIndex, path of the real file).  plain: one regular file; link: the
    path is a symbolic link to the real file in another directory; chain: a link to a link to the real file.  Links are made
    at time when - 10, before the content.
    """
    fa = os.path.join(d, "asm.fa")
    real = fa
    if layout != "plain":
        os.mkdir(os.path.join(d, "data"))
        real = os.path.join(d, "data", "genome.fa")
        if layout == "chain":
            os.mkdir(os.path.join(d, "staged"))
            mid = os.path.join(d, "staged", "asm.fa")
            os.symlink(real, mid)
            os.symlink(mid, fa)
            set_link_time(mid, ns_of(when) - 10 * 10**9)
        else:
            os.symlink(real, fa)
        set_link_time(fa, ns_of(when) - 10 * 10**9)
    with open(real, "wb") as fh:
        fh.write(data)
    set_time(real, when)
    return fa, real


def run_history(ops, col, inp, same_size_family=False, layout="plain", gen=None, v0=0, unit="s", start=0):
    """
    ops: [[op, tick], ...] with op in W (rewrite, other size), Ws (rewrite, same size in bytes; needs same_size_family),
    Dfai, Dagp, D (both), S (stage: cache files present become symbolic links to files in a store directory, the links
    made now) and the loads of LOAD_OPS.  All in this process.  layout: see place_fasta; rewrites go to the real file (link:
    written in place; chain: replaced by a new file).  gen, v0: see Content.  The logical clock starts at T0 + start and
    advances by tick before each operation, both in `unit` (s, ms, us, ns): with a unit below the second the time stamps
    have fractions of a second, as on any current file system.  Returns number of loads judged.
    """
    judged = 0
    how = "" if layout == "plain" else f" [FASTA path is a symbolic link ({layout}) to the real file, rewrites go to the target]"
    if gen == "empty":
        how += " [FASTA contents with records that have no residues]"
    if gen == "order":
        how += " [FASTA contents whose records are not in sorted order of their names" + (", some without residues]" if (v0 // len(ORDER_PATTERNS)) % 2 else "]")
    if unit != "s" or start:
        how += f" [clock in {unit}, starting at T0+{start} {unit}; every file written by an operation gets exactly the time of that operation]"
    unit_ns = UNIT_NS[unit]
    t0_ns = T0 * 10**9
    with tempfile.TemporaryDirectory() as d:
        content = Content("ss" if same_size_family else gen, v0)
        data = content.data
        t = t0_ns + start * unit_ns
        fa, real = place_fasta(d, layout, data, t)
        caches = [fa + ".fai", fa + ".agp"]
        n_staged = 0
        long_lived = FastaIndex(pathlib.Path(fa))
        for step, (op, tick) in enumerate(ops):
            t += tick * unit_ns
            if op in ("W", "Ws"):
                size = len(data)
                data = content.rewrite(same_size=op == "Ws")
                assert not same_size_family or (len(data) == size) == (op == "Ws")
                if layout == "chain":
                    with open(real + ".new", "wb") as fh:
                        fh.write(data)
                    os.replace(real + ".new", real)
                else:
                    with open(real, "wb") as fh:
                        fh.write(data)
                set_time(real, t)
            elif op in ("Dfai", "Dagp", "D"):
                for p, o in zip(caches, ("Dfai", "Dagp")):
                    if op in (o, "D") and os.path.lexists(p):
                        os.unlink(p)
            elif op == "S":
                os.makedirs(os.path.join(d, "store"), exist_ok=True)
                for p in caches:
                    if os.path.exists(p) and not os.path.islink(p):
                        n_staged += 1
                        kept = os.path.join(d, "store", f"{n_staged}{os.path.splitext(p)[1]}")
                        os.rename(p, kept)  # content and mtime stay what they were
                        os.symlink(kept, p)
                        set_link_time(p, t)
            else:
                which, method, what = LOAD_OPS[op]
                before = [file_sig(p) for p in caches]
                fasta_mtime = os.stat(fa).st_mtime_ns
                need_rebuild = any(b is None or not (os.stat(p).st_mtime_ns > fasta_mtime) for p, b in zip(caches, before))
                when = times_words(fa, t0_ns)
                obs = observe(fa, long_lived if which == "same" else None, method)
                judged += 1
                msg = judge(obs, data)
                if msg:
                    col.fail(
                        f"history {ops[: step + 1]} in one process{how}: the {what} at step {step + 1} (FASTA content {content.version}.{content.j}, "
                        f"{len(data)} bytes; {when}; load at {offset_words(t, t0_ns)}) silently yields something else than the current "
                        f"FASTA content: {msg}",
                        inp,
                    )
                    return judged
                written = []
                for p, b in zip(caches, before):
                    a = file_sig(p)
                    if a is not None and a != b:
                        written.append(p)
                        set_time(p, t)
                        if os.path.islink(p):
                            set_link_time(p, t)
                if obs[0] == "ok" and need_rebuild and len(written) != 2:
                    col.fail(
                        f"history {ops[: step + 1]}{how}: a cache file was missing or not strictly newer than the FASTA ({when}), but the {what} rewrote only "
                        f"{[os.path.basename(p) for p in written]} (both must be rebuilt together)",
                        inp,
                    )
                    return judged
                msg = cache_on_disk_claim(fa, data)
                if msg:
                    col.fail(
                        f"history {ops[: step + 1]}{how}: after step {step + 1} ({what}) the cache files on disk are both newer than the FASTA, so "
                        f"every later process takes them as valid, but they do not describe the FASTA content: {msg}",
                        inp,
                    )
                    return judged
    return judged


def link_histories(max_len, layout):
    """histories as in (a) plus the staging operation S; for the plain layout only those that stage (the others are in (a))"""
    symbols = [(op, tick) for op in ("W", "Dfai", "Dagp", "L", "S") for tick in (0, 1)]
    for n in range(1, max_len + 1):
        for prefix in itertools.product(symbols, repeat=n - 1):
            if layout == "plain" and not any(op == "S" for op, _ in prefix):
                continue
            for tick in (0, 1):
                yield [list(x) for x in prefix] + [["L", tick]]


def random_link_history(rng, length):
    symbols = [(op, tick) for op in ("W", "W", "Dfai", "Dagp", "L", "L", "S", "S") for tick in (0, 1, 1)]
    return [list(rng.choice(symbols)) for _ in range(length - 1)] + [["L", rng.choice((0, 1))]]


# quick tier: a few longer histories with staged (symbolically linked) cache files, run in every layout
STAGED_SAMPLES = [
    [["L", 1], ["W", 1], ["S", 1], ["L", 1]],
    [["L", 1], ["S", 1], ["W", 1], ["L", 1]],
    [["L", 1], ["S", 1], ["W", 0], ["L", 1]],
    [["L", 1], ["W", 1], ["S", 1], ["Dagp", 0], ["L", 0], ["W", 1], ["L", 1]],
    [["L", 0], ["S", 1], ["L", 1], ["W", 1], ["Dfai", 1], ["L", 1], ["S", 1], ["W", 1], ["L", 1]],
]


def histories(max_len):
    symbols = [(op, tick) for op in ("W", "Dfai", "Dagp", "L") for tick in (0, 1)]
    for n in range(1, max_len + 1):
        for prefix in itertools.product(symbols, repeat=n - 1):
            for tick in (0, 1):
                yield [list(s) for s in prefix] + [["L", tick]]


# (h) time stamps with fractions of a second: the clock runs in ms (us, ns) and starts at a fraction
FRACTION_TICKS = (0, 400, 700)


def fraction_histories(max_len):
    """histories as in (a) with ticks of 0 / 400 / 700 clock units (so that, in ms, consecutive operations fall into the
    same clock second or not, the later one in its first or its second half)"""
    symbols = [(op, tick) for op in ("W", "Dfai", "Dagp", "L") for tick in FRACTION_TICKS]
    for n in range(1, max_len + 1):
        for prefix in itertools.product(symbols, repeat=n - 1):
            for tick in FRACTION_TICKS:
                yield [list(x) for x in prefix] + [["L", tick]]


def random_fraction_history(rng, length):
    symbols = [(op, tick) for op in ("W", "W", "Dfai", "Dagp", "L", "L", "S") for tick in (0, 1, 300, 400, 700, 1000)]
    return [list(rng.choice(symbols)) for _ in range(length - 1)] + [["L", rng.choice((0, 1, 300, 700))]]


# quick tier: (unit, start, layout, ops).  First load at T0+start indexes (cache stamped with that time), the rewrite comes a
# fraction of a second later, the last load must not be served from the older cache
FRACTION_SAMPLES = [
    ("ms", 200, "plain", [["L", 0], ["W", 400], ["L", 300]]),  # cache .2, FASTA .6 of the same second
    ("ms", 200, "plain", [["L", 0], ["W", 200], ["L", 0]]),  # cache .2, FASTA .4
    ("ms", 200, "plain", [["L", 0], ["W", 0], ["L", 0]]),  # same instant, with a fraction
    ("ms", 500, "plain", [["L", 0], ["W", 300], ["L", 0], ["Dagp", 0], ["L", 100], ["L", 100]]),
    ("ms", 900, "plain", [["L", 0], ["W", 300], ["L", 0], ["L", 1000]]),  # across a full second
    ("ms", 999, "plain", [["L", 0], ["W", 1], ["L", 0]]),  # cache .999, FASTA on the full second
    ("ms", 0, "plain", [["L", 0], ["W", 999], ["L", 0]]),  # cache on the full second, FASTA .999
    ("us", 200, "plain", [["L", 0], ["W", 400], ["L", 300]]),
    ("ns", 200, "plain", [["L", 0], ["W", 400], ["L", 300]]),
    ("ms", 200, "chain", [["L", 0], ["S", 100], ["W", 300], ["L", 100]]),
    ("ms", 100, "link", [["L", 0], ["W", 600], ["L", 0], ["W", 200], ["L", 0]]),
]

# (i) contents with records without residues
EMPTY_SESSION_SYMBOLS = [("W", 1), ("D", 1), ("L", 1), ("Lo", 1), ("R", 1), ("Ro", 1)]


def empty_session_histories(max_len):
    last = [s for s in EMPTY_SESSION_SYMBOLS if s[0] in LOAD_OPS]
    for n in range(1, max_len + 1):
        for prefix in itertools.product(EMPTY_SESSION_SYMBOLS, repeat=n - 1):
            for end in last:
                yield [list(s) for s in prefix] + [list(end)]


# quick tier: (first version, layout, ops); besides these, [load, load] is run from each of the 8 patterns of make_fasta_empty
EMPTY_SAMPLES = [
    (2, "plain", [["L", 1], ["W", 1], ["L", 1], ["L", 0], ["Lo", 1]]),
    (3, "link", [["L", 1], ["Dagp", 1], ["L", 1], ["L", 1]]),
    (0, "chain", [["L", 1], ["S", 1], ["L", 1], ["W", 1], ["L", 1], ["L", 1]]),
    (4, "plain", [["R", 1], ["L", 1], ["Dfai", 1], ["L", 0], ["L", 1]]),
    (6, "plain", [["L", 1], ["W", 0], ["L", 1], ["W", 1], ["L", 1], ["L", 1]]),
]


# (j) contents whose records are not in sorted order.  quick tier: (first version, layout, ops); besides these, [load, load]
# is run from each of the 16 contents (8 patterns, without / with records that have no residues)
ORDER_SAMPLES = [
    (8, "plain", [["L", 1], ["L", 1], ["W", 1], ["L", 1], ["L", 0], ["Lo", 1]]),
    (1, "link", [["L", 1], ["Dagp", 1], ["L", 1], ["L", 1]]),
    (10, "chain", [["L", 1], ["S", 1], ["L", 1], ["W", 1], ["L", 1], ["L", 1]]),
    (3, "plain", [["R", 1], ["L", 1], ["Dfai", 1], ["L", 0], ["L", 1], ["Ro", 1], ["Lo", 1]]),
]


SESSION_SYMBOLS = [("Ws", 0), ("Ws", 1), ("W", 1), ("D", 1), ("L", 1), ("Lo", 1), ("R", 1), ("Ro", 1)]


def session_histories(max_len):
    """(e): histories of one process with same-size rewrites and loads on new / long-lived objects, ending in a load"""
    last = [s for s in SESSION_SYMBOLS if s[0] in LOAD_OPS]
    for n in range(1, max_len + 1):
        for prefix in itertools.product(SESSION_SYMBOLS, repeat=n - 1):
            for end in last:
                yield [list(s) for s in prefix] + [list(end)]


def random_session_history(rng, length):
    symbols = SESSION_SYMBOLS + [("Dfai", 1), ("Dagp", 1), ("W", 0), ("L", 0)]
    ops = [list(rng.choice(symbols)) for _ in range(length - 1)]
    return ops + [list(rng.choice([s for s in symbols if s[0] in LOAD_OPS]))]


# ------------------------------------------------------------------ scenarios for (b) and (c): real clock, FASTA in the past

SCENARIOS = ("cold", "stale", "fai-missing", "agp-missing", "valid")
# cache states in which the time stamps differ by fractions of a second only (used by (f); any experiment can replay them)
CLOSE_SCENARIOS = ("stale-same-second", "stale-same-instant", "valid-same-second")


SCENARIO_LAYOUTS = ("plain", "fasta-link", "cache-links", "all-links")


CLOSE_WORDS = {
    "stale-same-second": " (cache files of the previous content, written 0.2 s BEFORE the FASTA within the same clock second, both in its first half)",
    "stale-same-instant": " (cache files of the previous content with exactly the FASTA's time stamp, which has a fraction of a second)",
    "valid-same-second": " (cache files of the current content, written 0.5 s after the FASTA within the same clock second)",
}


def layout_words(layout):
    return {
        "plain": "",
        "fasta-link": ", FASTA path a symbolic link to the real file",
        "cache-links": ", cache files symbolic links made after the FASTA was written",
        "all-links": ", FASTA path a chain of symbolic links and cache files symbolic links made after the FASTA was written",
    }[layout]


def setup_scenario(d, scenario, big, layout="plain"):
    """
    returns (fasta path, current bytes).  Times: links to the FASTA made 3000 s ago, stale cache written 2000 s ago, FASTA
    written 1000 s ago, cache of the current content written 500 s ago, links to cache files made 100 s ago.
    In the scenarios of CLOSE_SCENARIOS the FASTA is written 0.4 s after a full second S (about 1000 s ago) and the cache
    files hold the previous content, written at S + 0.2 s (stale-same-second) or at the very same S + 0.4 s
    (stale-same-instant), or the current content, written at S + 0.9 s (valid-same-second).
    big: False / True (make_fasta), "empty" (small contents with records without residues) or "order" / "order-empty" (small
    contents whose records are not in sorted order, without / with records that have no residues).
    """
    # records without residues: the current content has two of them in a row between others, the previous one the first and last
    if big == "empty":
        old, cur = make_fasta_empty(6), make_fasta_empty(3)
    elif big == "order":  # records not in sorted order: current scaffold_2, scaffold_1, scaffold_10; previous content other names
        old, cur = make_fasta_order(1), make_fasta_order(0)
    elif big == "order-empty":  # the same with records without residues (current: scaffold_10, the last record of the file)
        old, cur = make_fasta_order(len(ORDER_PATTERNS) + 3), make_fasta_order(len(ORDER_PATTERNS))
    else:
        old, cur = make_fasta(3, big), make_fasta(4, big)
    now = time.time()
    fasta_layout = {"plain": "plain", "cache-links": "plain", "fasta-link": "link", "all-links": "chain"}[layout]
    second = (int(now) - 1000) * 10**9
    fasta_time = second + 400_000_000 if scenario in CLOSE_SCENARIOS else now - 1000
    fa, _ = place_fasta(d, fasta_layout, cur, fasta_time)
    if fasta_layout != "plain":
        for p in (fa, os.path.join(d, "staged", "asm.fa")):
            if os.path.islink(p):
                set_link_time(p, now - 3000)
    if scenario == "stale":
        fai, agp = cache_texts(old)
        when = now - 2000
    elif scenario in ("fai-missing", "agp-missing", "valid"):
        fai, agp = cache_texts(cur)
        when = now - 500
    elif scenario in CLOSE_SCENARIOS:
        fai, agp = cache_texts(cur if scenario == "valid-same-second" else old)
        when = second + {"stale-same-second": 200_000_000, "stale-same-instant": 400_000_000, "valid-same-second": 900_000_000}[scenario]
    else:
        return fa, cur
    for ext, text, missing in ((".fai", fai, "fai-missing"), (".agp", agp, "agp-missing")):
        if scenario == missing:
            continue
        p = fa + ext
        if layout in ("cache-links", "all-links"):
            os.makedirs(os.path.join(d, "store"), exist_ok=True)
            p = os.path.join(d, "store", "kept" + ext)
            os.symlink(p, fa + ext)
            set_link_time(fa + ext, now - 100)
        with open(p, "w") as fh:
            fh.write(text)
        set_time(p, when)
    return fa, cur


class TmpPlacement:
    """
    context manager.  where == "other": TMPDIR (and tempfile's remembered choice) point to a fresh directory elsewhere, on
    /dev/shm if that is usable (usually another file system), else in the ordinary temporary directory; shutil's sendfile
    shortcut is off so that a copy is a sequence of write operations.  Anything else: nothing is changed.  The FASTA's
    directory has to be made before entering.
    """

    FLAGS = ("_USE_CP_SENDFILE", "_USE_CP_COPY_FILE_RANGE")

    def __init__(self, where):
        self.other = where == "other"

    def __enter__(self):
        if not self.other:
            return self
        self.dir = None
        if os.path.isdir("/dev/shm") and os.access("/dev/shm", os.W_OK | os.X_OK):
            try:
                self.dir = tempfile.mkdtemp(prefix="c15tmp", dir="/dev/shm")
            except OSError:
                pass
        if self.dir is None:
            self.dir = tempfile.mkdtemp(prefix="c15tmp")
        self.saved = (os.environ.get("TMPDIR"), tempfile.tempdir, {f: getattr(shutil, f) for f in self.FLAGS if hasattr(shutil, f)})
        os.environ["TMPDIR"] = self.dir
        tempfile.tempdir = None
        for f in self.saved[2]:
            setattr(shutil, f, False)
        return self

    def __exit__(self, *exc):
        if self.other:
            env, remembered, flags = self.saved
            if env is None:
                os.environ.pop("TMPDIR", None)
            else:
                os.environ["TMPDIR"] = env
            tempfile.tempdir = remembered
            for f, v in flags.items():
                setattr(shutil, f, v)
            shutil.rmtree(self.dir, ignore_errors=True)
        return False


def count_events(scenario, big, text_events=False, layout="plain", tmp=None):
    n = [0]
    labels = []

    def hook(label, path):
        n[0] += 1
        labels.append(f"{label} {os.path.basename(path)}")

    with tempfile.TemporaryDirectory() as d:
        fa, _ = setup_scenario(d, scenario, big, layout)
        with TmpPlacement(tmp), FileOps(d, hook, text_events=text_events):
            observe(fa)
    return n[0], labels


# ------------------------------------------------------------------ (f) publication rule on complete runs


def state_words(scenario, big, layout, tmp):
    return (
        f"{size_words(big)} input, cache state '{scenario}'{CLOSE_WORDS.get(scenario, '')}{layout_words(layout)}"
        + (", TMPDIR pointing to a directory elsewhere" if tmp == "other" else "")
    )


def publication_experiment(scenario, big, layout, tmp, method, col, inp):
    """one complete, undisturbed run under the monitor of FileOps; then a fresh auto-load"""
    with tempfile.TemporaryDirectory() as d:
        fa, cur = setup_scenario(d, scenario, big, layout)
        with TmpPlacement(tmp):
            ops = FileOps(d, lambda label, path: None, fasta=fa, data=cur)
            with ops:
                obs = observe(fa, method=method)
            head = f"{state_words(scenario, big, layout, tmp)}: a complete {method}() "
            for v in ops.finish():
                col.fail(head + f"breaks the rule that a cache file only ever appears by an atomic rename of a complete file within the FASTA's directory: {v}", inp)
            msg = judge(obs, cur)
            if msg:
                col.fail(head + f"silently yields something else than the current FASTA content: {msg}", inp)
                return
            msg = judge(observe(fa), cur)
            if msg:
                col.fail(head + f"is followed by a fresh auto-load that silently shows: {msg}", inp)
                return
            msg = cache_on_disk_claim(fa, cur)
            if msg:
                col.fail(head + f"leaves cache files that pass for valid (both newer than the FASTA) but: {msg}", inp)


# ------------------------------------------------------------------ (b) crash points


def crash_experiment(scenario, big, k, col, inp, labels=None, layout="plain", tmp=None):
    with tempfile.TemporaryDirectory() as d:
        fa, cur = setup_scenario(d, scenario, big, layout)
        with TmpPlacement(tmp):
            pid = os.fork()
            if pid == 0:
                code = 0
                try:
                    n = [0]

                    def hook(label, path):
                        if n[0] == k:
                            os._exit(77)
                        n[0] += 1

                    with FileOps(d, hook):
                        FastaIndex(pathlib.Path(fa)).auto_load()
                except BaseException:
                    code = 3
                finally:
                    os._exit(code)
            _, status = os.waitpid(pid, 0)
            crashed = os.WIFEXITED(status) and os.WEXITSTATUS(status) == 77
            obs = observe(fa)
        msg = judge(obs, cur)
        if msg:
            where = f"before file operation {k + 1}" + (f" ({labels[k]})" if labels and k < len(labels) else "") if crashed else "after completing"
            col.fail(
                f"{state_words(scenario, big, layout, tmp)}: indexing run killed {where}; the next auto-load silently shows: {msg}",
                inp,
            )
        return crashed


# ------------------------------------------------------------------ (d) exceptions raised inside the indexing run

EXC_KINDS = ("interrupt", "oserror", "exit")


def raise_injected(kind):
    if kind == "interrupt":
        if threading.current_thread() is threading.main_thread() and signal.getsignal(signal.SIGINT) is signal.default_int_handler:
            signal.raise_signal(signal.SIGINT)  # a real Ctrl-C: the handler raises KeyboardInterrupt right here
            time.sleep(0)
        raise KeyboardInterrupt("injected")
    if kind == "oserror":
        raise OSError(errno.ENOSPC, "No space left on device (injected)")
    raise SystemExit("injected (e.g. SIGTERM handler calling sys.exit)")


def exception_experiment(scenario, big, k, kind, col, inp, labels=None, layout="plain"):
    """the indexing run gets an exception of `kind` at event k (file operation or text-handle write); then a fresh auto-load"""
    with tempfile.TemporaryDirectory() as d:
        fa, cur = setup_scenario(d, scenario, big, layout)
        n = [0]
        fired = [False]

        def hook(label, path):
            n[0] += 1
            if n[0] == k + 1:
                fired[0] = True
                raise_injected(kind)

        victim = None
        ops = FileOps(d, hook, text_events=True, fasta=fa, data=cur)
        with ops:
            try:
                victim = FastaIndex(pathlib.Path(fa))
                victim.auto_load()
                outcome = "returned normally"
            except BaseException as e:
                if not fired[0] and not isinstance(e, Exception):
                    raise  # not ours (a real Ctrl-C of the check itself)
                outcome = f"ended in {type(e).__name__}"
        where = f"at event {k + 1}" + (f" ({labels[k]})" if labels and k < len(labels) else "")
        head = f"{state_words(scenario, big, layout, None)}: indexing run hit by {kind} {where} and {outcome}; "
        for v in filter(first_report, ops.finish()):
            col.fail(head + f"it breaks the rule that a cache file only ever appears by an atomic rename of a complete file within the FASTA's directory: {v}", inp)
        if fired[0] and outcome == "returned normally":
            try:
                msg = judge(("ok", *snapshot(victim)), cur)
            except Exception as e:
                msg = f"an object that cannot be read ({type(e).__name__}: {e})"
            if msg:
                col.fail(head + f"the run itself silently carries on with: {msg}", inp)
        msg = judge(observe(fa), cur)
        if msg:
            col.fail(head + f"the next auto-load silently shows: {msg}", inp)
        else:
            msg = cache_on_disk_claim(fa, cur)
            if msg:
                col.fail(head + f"the cache files left on disk pass for valid (both newer than the FASTA) but: {msg}", inp)
        return fired[0]


def exception_points(scenario, big, quick, layout="plain"):
    """(total, labels, ks): event numbers at which to inject.  All of them for the small input; for the big input every file
    operation (quick: from the first open-for-writing on), and of the ~3300 text-handle writes the first and last three of
    each file plus an even spread (quick: ~6 per file, thorough: ~60 per file)."""
    total, labels = count_events(scenario, big, text_events=True, layout=layout)
    if big is not True:
        return total, labels, list(range(total + 1))
    ks = {total}
    text = [k for k, lab in enumerate(labels) if lab.startswith("text-write")]
    first_write = min([k for k, lab in enumerate(labels) if lab.startswith("open-w")], default=total)
    # quick: the stat / read operations before the first cache file is opened are explored with the small input only
    ks.update(k for k, lab in enumerate(labels) if not lab.startswith("text-write") and (k >= first_write or not quick))
    by_file = {}
    for k in text:
        by_file.setdefault(labels[k], []).append(k)
    for lst in by_file.values():
        ks.update(lst[:3] + lst[-3:])
        step = max(1, len(lst) // (6 if quick else 60))
        ks.update(lst[::step])
    return total, labels, sorted(ks)


# ------------------------------------------------------------------ (c) interleavings


class SchedulerStuck(BaseException):
    """a gated run did not reach its next file operation in time (BaseException: must not be taken for a loud failure)"""


class Sched:
    def __init__(self, names):
        self.cond = threading.Condition()
        self.turn = None
        self.budget = 0
        self.state = {n: "running" for n in names}

    def event(self, label, path):
        me = threading.current_thread().name
        if me not in self.state:
            return
        with self.cond:
            self.state[me] = "blocked"
            self.cond.notify_all()
            while not (self.turn == me and self.budget > 0):
                if not self.cond.wait(timeout=60):
                    raise SchedulerStuck(me)
            self.budget -= 1
            self.state[me] = "running"

    def done(self, me):
        with self.cond:
            self.state[me] = "done"
            self.cond.notify_all()

    def wait_parked(self, who):
        with self.cond:
            while self.state[who] == "running":
                if not self.cond.wait(timeout=60):
                    raise SchedulerStuck(who)

    def run_segment(self, who, n):
        """let `who` pass n file operations (None: run to completion); returns True if it finished"""
        with self.cond:
            if self.state[who] == "done":
                return True
            self.turn = who
            self.budget = 10**9 if n is None else n
            self.cond.notify_all()
            while not (self.state[who] == "done" or (self.state[who] == "blocked" and self.budget == 0)):
                if not self.cond.wait(timeout=60):
                    raise SchedulerStuck(who)
            self.turn = None
            self.budget = 0
            return self.state[who] == "done"


_VIEW_MEMO = {}
_RULE_REPORTED = set()  # rule violations already reported by (c) / (d) in this run (the same one shows at every point)


def first_report(v):
    key = v[:70]
    if key in _RULE_REPORTED:
        return False
    _RULE_REPORTED.add(key)
    return True


def reader_view(fa, cur):
    """
    What a further process C that starts now, and runs its auto-load without being preempted, would get: the load is done on
    a copy of the FASTA and the cache files (contents and mtimes preserved), so the schedule of the others is not disturbed.
    """
    # C's result is a function of the three files' contents and of which cache files are strictly newer than the FASTA:
    # states already judged in this run are not judged again
    key = [cur]
    fasta_mtime = os.stat(fa).st_mtime
    for ext in (".fai", ".agp"):
        try:
            with open(fa + ext, "rb") as fh:
                key.append((fh.read(), os.stat(fa + ext).st_mtime > fasta_mtime))
        except FileNotFoundError:
            key.append(None)
    key = tuple(key)
    if key not in _VIEW_MEMO:
        with tempfile.TemporaryDirectory(prefix="c15view") as v:
            for ext in ("", ".fai", ".agp"):
                try:
                    shutil.copy2(fa + ext, os.path.join(v, os.path.basename(fa) + ext))
                except FileNotFoundError:
                    pass
            _VIEW_MEMO[key] = judge(observe(os.path.join(v, os.path.basename(fa))), cur)
    return _VIEW_MEMO[key]


def interleave_experiment(scenario, big, i, j, col, inp, more_readers=False):
    """
    A passes i operations, B passes j operations (None: completes), A completes, [reader C], B completes.
    Returns (A done early, B done early).
    """
    with tempfile.TemporaryDirectory() as d:
        fa, cur = setup_scenario(d, scenario, big)
        sched = Sched(["A", "B"])
        results = {}
        pids = {"A": 40001, "B": 40002}

        def worker():
            me = threading.current_thread().name
            try:
                results[me] = observe(fa)
            except BaseException as e:  # SchedulerStuck
                results[me] = ("harness", repr(e))
            finally:
                sched.done(me)

        ops = FileOps(d, sched.event, pid_of=lambda: pids.get(threading.current_thread().name), fasta=fa, data=cur)
        with ops:
            threads = [threading.Thread(target=worker, name=n, daemon=True) for n in ("A", "B")]
            for t in threads:
                t.start()
            sched.wait_parked("A")
            sched.wait_parked("B")
            mid = []
            a_done = sched.run_segment("A", i)
            b_done = sched.run_segment("B", j)
            if more_readers and not (a_done and b_done):
                mid.append((f"A x{i} / B x{j}", reader_view(fa, cur)))
            sched.run_segment("A", None)
            if not b_done:
                mid.append((f"A x{i} / B x{j} / A", reader_view(fa, cur)))
            sched.run_segment("B", None)
            for t in threads:
                t.join(timeout=60)
        for v in filter(first_report, ops.finish()):
            col.fail(
                f"{size_words(big)} input, cache state '{scenario}', schedule A x{i} / B x{j if j is not None else 'all'} / A / B breaks the rule "
                f"that a cache file only ever appears by an atomic rename of a complete file within the FASTA's directory: {v}",
                inp,
            )
        for after, msg in mid:
            if msg:
                col.fail(
                    f"{size_words(big)} input, cache state '{scenario}', schedule {after} / C / ...: a third process C that "
                    f"auto-loads at this point, while the other run(s) are suspended, silently loads: {msg}",
                    inp,
                )
        for who in ("A", "B"):
            obs = results.get(who, ("harness", "no result"))
            if obs[0] == "harness":
                raise SchedulerStuck(obs[1])
            msg = judge(obs, cur)
            if msg:
                col.fail(
                    f"{size_words(big)} input, cache state '{scenario}', schedule A x{i} / B x{j if j is not None else 'all'} / A / B: "
                    f"process {who} silently loaded: {msg}",
                    inp,
                )
        msg = judge(observe(fa), cur)
        if msg:
            col.fail(f"{size_words(big)} input, cache state '{scenario}', after schedule A x{i} / B x{j}: a fresh auto-load shows: {msg}", inp)
        return a_done, b_done


# ------------------------------------------------------------------ entry points


def replay(inp):
    col = Collector("replay")
    _VIEW_MEMO.clear()
    _RULE_REPORTED.clear()
    prev = logging.root.manager.disable
    logging.disable(logging.CRITICAL)
    try:
        layout = inp.get("layout", "plain")
        if inp["kind"] == "history":
            run_history(
                inp["ops"], col, inp, same_size_family=inp.get("gen") == "ss", layout=layout,
                gen=inp.get("gen"), v0=inp.get("v0", 0), unit=inp.get("unit", "s"), start=inp.get("start", 0),
            )
        elif inp["kind"] == "crash":
            labels = count_events(inp["scenario"], inp["big"], layout=layout, tmp=inp.get("tmp"))[1]
            crash_experiment(inp["scenario"], inp["big"], inp["k"], col, inp, labels, layout=layout, tmp=inp.get("tmp"))
        elif inp["kind"] == "exception":
            labels = count_events(inp["scenario"], inp["big"], text_events=True, layout=layout)[1]
            exception_experiment(inp["scenario"], inp["big"], inp["k"], inp["exc"], col, inp, labels, layout=layout)
        elif inp["kind"] == "publication":
            publication_experiment(inp["scenario"], inp["big"], layout, inp.get("tmp"), inp["method"], col, inp)
        else:
            try:
                interleave_experiment(inp["scenario"], inp["big"], inp["i"], inp["j"], col, inp, more_readers=True)
            except SchedulerStuck as e:
                return f"schedule did not complete: {e!r}"
    finally:
        logging.disable(prev)
    return col.failures[0]["message"] if col.failures else None


def run(tier, seed, **opts):
    rng = random.Random(seed)
    quick = tier == "quick"
    _VIEW_MEMO.clear()
    _RULE_REPORTED.clear()
    parts = opts.get("parts", "abcdefghij")  # run only some of the families (testing aid)
    max_len = 4 if quick else 5
    session_len = 3 if quick else 4
    link_len = 3 if quick else 4
    col = Collector(
        f"(a) all histories of <= {max_len} operations over {{rewrite FASTA, delete .fai, delete .agp, auto-load}} x clock tick 0/1 "
        "before each operation, ending in an auto-load; (b) every crash point (before each file operation incl. every raw "
        "write reaching the OS) of an indexing run from cache states cold / stale / .fai missing / .agp missing / valid, small "
        "input and an input whose .fai and .agp exceed the 8 KiB io buffer, followed by a fresh auto-load; (c) two gated "
        "auto-loads of the same FASTA, schedules A x i, B x j, A, B over all i, j at file-operation granularity, with a third "
        "process (a reader that is not preempted) after A has completed while B is still suspended"
        + ("" if quick else " and while both are suspended") + "; "
        "(d) the same indexing runs hit by an exception (KeyboardInterrupt, through a real SIGINT when run in the main thread / OSError ENOSPC / SystemExit) at a "
        "file operation or at a write() call on the text handle of a cache file (small input: every such point x 3 kinds; big "
        "input: every file operation" + (" from the first open-for-writing on, cache states stale and .fai missing only" if quick else "") + ", first and last 3 writes of "
        "each cache file and an even spread of the others, kinds rotated), followed by a fresh "
        f"auto-load; (e) all histories of <= {session_len} operations inside ONE process over {{rewrite same size in bytes with tick 0/1, "
        "rewrite other size, delete cache, auto-load / run_indexing() on a new / on one long-lived FastaIndex object}, ending in a load"
        + ("" if quick else ", plus 300 seeded random ones of 5-9 operations")
        + "; after (a), (d), (e) also the cache files on disk are read independently; "
        "(f) publication rule: complete auto_load() / run_indexing() runs from the 5 cache states x small / big input x 4 layouts "
        "(plain files; FASTA path a symbolic link; cache files symbolic links; both, FASTA through a chain of two links) x TMPDIR as "
        "it is / pointing elsewhere, under interception: the final cache names may only appear by a rename of a complete file from "
        "the same directory (no open-for-write or copy onto them, no temporary file in another directory), and the result and a "
        f"fresh auto-load show the FASTA bytes; (g) all histories of <= {link_len} operations as in (a) plus 'stage' (cache files "
        "present become symbolic links made now) with the FASTA path a symbolic link / a chain of links to the real file (rewritten "
        "in place / replaced) or a plain file"
        + (", plus 5 longer staged histories x 3 layouts" if quick else ", plus 200 seeded random ones of 5-8 operations per layout") + "; "
        "(b) and (d) are repeated on the small input with symbolic links ("
        + ("all-links layout, 2 cache states" if quick else "3 link layouts x 5 cache states, and the big input in the all-links layout") + "), "
        "and (b) with TMPDIR elsewhere whenever the file operations of a run depend on TMPDIR; "
        "(h) time stamps with fractions of a second, set to the nanosecond: "
        + ("11 histories (cache written 0.2-0.4 s before / at the same instant as / across a full second from the rewrite of the FASTA; clock in ms, us, ns)" if quick else
           "all histories of <= 4 operations as in (a) with ticks 0 / 400 / 700 ms from T0+200 ms, of <= 3 operations from T0+0 / 600 / 999 ms, in us and ns, and with the FASTA "
           "path a link / chain, plus 300 seeded random ones (4-8 operations, incl. staging, ticks 0 / 1 / 300 / 400 / 700 / 1000 units)")
        + ", and 3 cache states with the cache a fraction of a second older / equal / newer than the FASTA in (f)"
        + ("" if quick else " and (b)") + "; "
        "(i) FASTA contents with records without residues (8 patterns: first / middle / last / two in a row / all / only record): "
        + ("[auto-load, auto-load] from each pattern and 5 longer histories" if quick else
           "all histories of <= 3 operations as in (a) from each pattern and of <= 4 from the first, histories with links and staging, one-process "
           "histories with long-lived objects and run_indexing(), 200 seeded random ones; crash points (b) and injections (d) on such a content")
        + ", and such a content in the complete runs of (f): index and assembly (a scaffold without rows per such record, in file order) must be those of the content; "
        "(j) FASTA contents whose records are not in any sorted order (8 name patterns: file order differs from string / natural / case-folded order of the names, from "
        "ascending / descending length and from the reverse of each; each without and with records that have no residues): "
        + ("[auto-load, auto-load] from each of the 16 contents, 4 longer histories, complete runs (f) from 3 cache states, crash points (b) and injections (d) from one" if quick else
           "all histories of <= 3 operations as in (a) from each of the 16 contents and of <= 4 from two, histories with links and staging, one-process histories with "
           "long-lived objects and run_indexing(), 200 seeded random ones; complete runs (f) from all cache states x layouts x TMPDIR, crash points (b) and injections (d) from 5 cache states")
        + ": index and assembly are compared as SEQUENCES of records / scaffolds in file order; "
        "non-trivial = distinct histories / crash points / injection points / schedules / complete runs",
        max_samples=8,
    )
    prev = logging.root.manager.disable
    logging.disable(logging.CRITICAL)
    n_hist = n_crash = n_sched = n_exc = n_sess = n_pub = n_link = n_frac = n_empty = n_order = 0
    try:
        # (f)
        if "f" in parts:
            for big, scenario, layout, tmp in itertools.product((False, True, "empty"), SCENARIOS + CLOSE_SCENARIOS, SCENARIO_LAYOUTS, (None, "other")):
                if col.full:
                    break
                if quick and big and layout in ("fasta-link", "cache-links"):
                    continue
                if quick and (big == "empty" or scenario in CLOSE_SCENARIOS) and (big is True or tmp or layout not in ("plain", "all-links")):
                    continue  # quick: records without residues / time stamps a fraction of a second apart on the small inputs only
                if quick and big == "empty" and (layout != "plain" or scenario in CLOSE_SCENARIOS):
                    continue
                methods = ("auto_load",) if quick and (big or layout != "plain") else ("auto_load", "run_indexing")
                for method in methods:
                    inp = {"kind": "publication", "scenario": scenario, "big": big, "layout": layout, "tmp": tmp, "method": method}
                    publication_experiment(scenario, big, layout, tmp, method, col, inp)
                    col.case(("p", scenario, big, layout, tmp, method), sample=inp if (scenario, big, layout, tmp) == ("stale", False, "all-links", "other") else None)
                    n_pub += 1
        # (g)
        for layout in ("link", "chain", "plain") if "g" in parts else ():
            gen = itertools.chain(
                link_histories(link_len, layout),
                STAGED_SAMPLES if quick else (random_link_history(rng, rng.randint(5, 8)) for _ in range(200)),
            )
            for ops in gen:
                if col.full:
                    break
                inp = {"kind": "history", "layout": layout, "ops": ops}
                judged = run_history(ops, col, inp, layout=layout)
                col.evaluations += max(0, judged - 1)
                col.case(("l", layout, repr(ops)), sample=inp if n_link == 130 else None)
                n_link += 1
        # (h)
        if "h" in parts:
            if quick:
                gen = iter(FRACTION_SAMPLES)
            else:
                gen = itertools.chain(
                    (("ms", 200, "plain", ops) for ops in fraction_histories(4)),
                    ((unit, start, "plain", ops) for unit, start in (("ms", 0), ("ms", 600), ("ms", 999), ("us", 200), ("ns", 200)) for ops in fraction_histories(3)),
                    (("ms", 200, layout, ops) for layout in ("link", "chain") for ops in fraction_histories(3)),
                    (
                        (rng.choice(("ms", "ms", "us", "ns")), rng.choice((0, 200, 500, 999)), rng.choice(HISTORY_LAYOUTS), random_fraction_history(rng, rng.randint(4, 8)))
                        for _ in range(300)
                    ),
                )
            for unit, start, layout, ops in gen:
                if col.full:
                    break
                inp = {"kind": "history", "layout": layout, "unit": unit, "start": start, "ops": ops}
                judged = run_history(ops, col, inp, layout=layout, unit=unit, start=start)
                col.evaluations += max(0, judged - 1)
                col.case(("t", unit, start, layout, repr(ops)), sample=inp if n_frac == 0 else None)
                n_frac += 1
        # (i)
        if "i" in parts:
            n_pat = len(EMPTY_PATTERNS)
            if quick:
                gen = itertools.chain(((v0, "plain", [["L", 1], ["L", 1]]) for v0 in range(n_pat)), EMPTY_SAMPLES)
            else:
                gen = itertools.chain(
                    ((v0, "plain", ops) for v0 in range(n_pat) for ops in histories(3)),
                    ((0, "plain", ops) for ops in histories(4)),
                    ((v0, layout, ops) for v0 in (0, 3, 5) for layout in ("link", "chain") for ops in link_histories(3, layout)),
                    ((v0, "plain", ops) for v0 in (0, 3, 4) for ops in empty_session_histories(3)),
                    ((rng.randrange(n_pat), rng.choice(HISTORY_LAYOUTS), random_link_history(rng, rng.randint(4, 8))) for _ in range(200)),
                )
            for v0, layout, ops in gen:
                if col.full:
                    break
                inp = {"kind": "history", "gen": "empty", "v0": v0, "layout": layout, "ops": ops}
                judged = run_history(ops, col, inp, layout=layout, gen="empty", v0=v0)
                col.evaluations += max(0, judged - 1)
                col.case(("e", v0, layout, repr(ops)), sample=inp if n_empty == 3 else None)
                n_empty += 1
        # (j)
        if "j" in parts:
            n_pat = len(ORDER_PATTERNS)
            for v in range(2 * n_pat + 2):
                if not order_is_telling(make_fasta_order(v)):
                    raise AssertionError(f"generator: the records of make_fasta_order({v}) are in a sorted order")
            if quick:
                gen = itertools.chain(((v0, "plain", [["L", 1], ["L", 1]]) for v0 in range(2 * n_pat)), ORDER_SAMPLES)
            else:
                gen = itertools.chain(
                    ((v0, "plain", ops) for v0 in range(2 * n_pat) for ops in histories(3)),
                    ((v0, "plain", ops) for v0 in (0, n_pat) for ops in histories(4)),
                    ((v0, layout, ops) for v0 in (2, n_pat, n_pat + 3) for layout in ("link", "chain") for ops in link_histories(3, layout)),
                    ((v0, "plain", ops) for v0 in (0, n_pat, n_pat + 2, n_pat + 6) for ops in empty_session_histories(3)),
                    ((rng.randrange(2 * n_pat), rng.choice(HISTORY_LAYOUTS), random_link_history(rng, rng.randint(4, 8))) for _ in range(200)),
                )
            for v0, layout, ops in gen:
                if col.full:
                    break
                inp = {"kind": "history", "gen": "order", "v0": v0, "layout": layout, "ops": ops}
                judged = run_history(ops, col, inp, layout=layout, gen="order", v0=v0)
                col.evaluations += max(0, judged - 1)
                col.case(("o", v0, layout, repr(ops)), sample=inp if n_order == 8 else None)
                n_order += 1
            # complete runs (f), crash points (b) and injections (d) on these contents
            for big in ("order", "order-empty"):
                states = [(sc, "plain", None) for sc in ("cold", "stale", "valid")] if quick else list(itertools.product(SCENARIOS + CLOSE_SCENARIOS, SCENARIO_LAYOUTS, (None, "other")))
                for scenario, layout, tmp in states:
                    for method in ("auto_load", "run_indexing"):
                        if col.full:
                            break
                        inp = {"kind": "publication", "scenario": scenario, "big": big, "layout": layout, "tmp": tmp, "method": method}
                        publication_experiment(scenario, big, layout, tmp, method, col, inp)
                        col.case(("p", scenario, big, layout, tmp, method))
                        n_pub += 1
                for scenario in (("stale",) if big == "order-empty" else ()) if quick else SCENARIOS:
                    if not hasattr(os, "fork") or col.full:
                        break
                    total, labels = count_events(scenario, big)
                    for k in range(total + 1):
                        inp = {"kind": "crash", "scenario": scenario, "big": big, "k": k}
                        crash_experiment(scenario, big, k, col, inp, labels)
                        col.case(("c", scenario, big, k, "plain", None))
                        n_crash += 1
                for scenario in (("agp-missing",) if big == "order-empty" else ()) if quick else SCENARIOS:
                    if col.full:
                        break
                    total, labels, ks = exception_points(scenario, big, quick)
                    for n, k in enumerate(ks):
                        for kind in (EXC_KINDS[n % 3],) if quick else EXC_KINDS:
                            inp = {"kind": "exception", "scenario": scenario, "big": big, "k": k, "exc": kind}
                            exception_experiment(scenario, big, k, kind, col, inp, labels)
                            col.case(("x", scenario, big, k, kind, "plain"))
                            n_exc += 1
        # (a)
        for ops in histories(max_len) if "a" in parts else ():
            if col.full:
                break
            inp = {"kind": "history", "ops": ops}
            judged = run_history(ops, col, inp)
            col.evaluations += max(0, judged - 1)
            col.case(("h", repr(ops)), sample=inp if n_hist in (9, 700) else None)
            n_hist += 1
        # (b)
        if hasattr(os, "fork") and "b" in parts:
            if quick:
                link_states = [(False, sc, "all-links") for sc in ("stale", "fai-missing")]
            else:
                link_states = [(False, sc, lay) for lay in SCENARIO_LAYOUTS[1:] for sc in SCENARIOS] + [(True, sc, "all-links") for sc in SCENARIOS]
                link_states += [("empty", sc, "plain") for sc in SCENARIOS] + [(False, sc, "plain") for sc in CLOSE_SCENARIOS]
            for big, scenario, layout in [(big, sc, "plain") for big in (False, True) for sc in SCENARIOS] + link_states:
                if col.full:
                    break
                placements = [(None, *count_events(scenario, big, layout=layout))]
                if layout == "plain":
                    # TMPDIR elsewhere: explored only if that changes what the run does with the files
                    total2, labels2 = count_events(scenario, big, tmp="other")
                    if labels2 != placements[0][2]:
                        placements.append(("other", total2, labels2))
                for tmp, total, labels in placements:
                    for k in range(total + 1):
                        inp = {"kind": "crash", "scenario": scenario, "big": big, "k": k}
                        if layout != "plain":
                            inp["layout"] = layout
                        if tmp:
                            inp["tmp"] = tmp
                        crash_experiment(scenario, big, k, col, inp, labels, layout=layout, tmp=tmp)
                        col.case(("c", scenario, big, k, layout, tmp), sample=inp if (scenario, big, k, layout) == ("cold", False, 5, "plain") else None)
                        n_crash += 1
                        if col.full:
                            break
        # (d)
        if quick:
            link_states = [(False, sc, "all-links") for sc in ("stale", "agp-missing")]
        else:
            link_states = [(False, sc, lay) for lay in SCENARIO_LAYOUTS[1:] for sc in SCENARIOS] + [("empty", sc, "plain") for sc in SCENARIOS]
        for big, scenario, layout in ([(big, sc, "plain") for big in (False, True) for sc in SCENARIOS] + link_states) if "d" in parts else ():
            if col.full:
                break
            if big is True and quick and scenario not in ("stale", "fai-missing"):
                continue  # quick, big input: one state where the .agp and one where the .fai is the file whose validity is at stake
            total, labels, ks = exception_points(scenario, big, quick, layout)
            for n, k in enumerate(ks):
                kinds = EXC_KINDS if big is not True else (EXC_KINDS[n % 3],) if quick else (EXC_KINDS[n % 3], EXC_KINDS[(n + 1) % 3])
                for kind in kinds:
                    inp = {"kind": "exception", "scenario": scenario, "big": big, "k": k, "exc": kind}
                    if layout != "plain":
                        inp["layout"] = layout
                    fired = exception_experiment(scenario, big, k, kind, col, inp, labels, layout=layout)
                    assert fired == (k < total), (scenario, big, k, total)
                    col.case(("x", scenario, big, k, kind, layout), sample=inp if (scenario, big, k, kind, layout) == ("stale", False, 12, "interrupt", "plain") else None)
                    n_exc += 1
                if col.full:
                    break
        # (e)
        if "e" in parts:
            gen = itertools.chain(
                session_histories(session_len),
                () if quick else (random_session_history(rng, rng.randint(5, 9)) for _ in range(300)),
            )
            for ops in gen:
                if col.full:
                    break
                inp = {"kind": "history", "gen": "ss", "ops": ops}
                judged = run_history(ops, col, inp, same_size_family=True)
                col.evaluations += max(0, judged - 1)
                col.case(("s", repr(ops)), sample=inp if n_sess == 150 else None)
                n_sess += 1
        # (c)
        for big in (False, True) if "c" in parts else ():
            for scenario in SCENARIOS:
                if col.full:
                    break
                total, _ = count_events(scenario, big)
                for i in range(total + 1):
                    if scenario == "valid":
                        js = [None] + ([] if quick else list(range(0, total + 1, 2)))  # nothing is written in this state
                    elif big:
                        # full grid only in the thorough tier; quick: B runs to completion, and a short B segment for every 3rd i
                        js = ([None] + ([2] if i % 3 == 0 else [])) if quick else [None] + list(range(0, total + 1, 3))
                    else:
                        js = [None] + list(range(0, total + 1))
                    b_finished_at = None
                    for j in js:
                        if j is not None and b_finished_at is not None and j >= b_finished_at:
                            continue  # B completes within its segment: same schedule as an earlier one
                        inp = {"kind": "interleave", "scenario": scenario, "big": big, "i": i, "j": j}
                        try:
                            _, b_done = interleave_experiment(scenario, big, i, j, col, inp, more_readers=not quick)
                        except SchedulerStuck as e:
                            col.fail(f"schedule A x{i} / B x{j} on cache state '{scenario}' did not complete: {e!r}", inp, ["stuck"])
                            b_done = False
                        if j is not None and b_done:
                            b_finished_at = j
                        col.case(("i", scenario, big, i, j), sample=inp if (scenario, big, i, j) == ("cold", False, 7, None) else None)
                        n_sched += 1
                        if col.full:
                            break
                    if col.full:
                        break
    finally:
        logging.disable(prev)
    return col.result(
        bounds=f"{n_hist} histories of length <= {max_len}; {n_crash} crash points (5 cache states x small / >8 KiB-cache input, every file "
        f"operation); {n_sched} two-process schedules with <= 2 preemptions; {n_exc} exception injections (cache states x small / big input x "
        f"file operations and text-handle writes x up to 3 exception kinds); {n_sess} one-process histories of length <= {session_len} "
        "with same-size rewrites and long-lived objects" + ("" if quick else " (300 of them random, length 5-9)")
        + f"; {n_pub} complete runs under the publication rule; {n_link} histories with symbolic links (FASTA path and / or staged cache files)"
        f"; {n_frac} histories with time stamps that have fractions of a second; {n_empty} histories over FASTA contents with records without residues; {n_order} histories over FASTA contents whose records are not in sorted order",
        exhaustive=True,
    )
