"""
C16 bounded tier: --no-clobber never alters an existing file; --clobber rewrites every output completely.

For each configuration (generated case x output format FASTA/AGP/TPF x --write-log/--no-write-log) the
pretext-to-asm CLI is first run into an empty directory: that gives the set of output files and, because
the tool is a function of its inputs, the bytes a completely rewritten file must hold.  Then, for every
non-empty subset of those files (all subsets when there are <= 6 files, else singles, pairs and the full
set), the subset is pre-created with sentinel bytes (shorter or longer than the real content) and the same
command is run with --no-clobber and with --clobber.  Everything is judged from exit status, error output
and a byte-for-byte directory listing.

The statement puts no condition on WHAT the pre-existing file is, so a second enumeration varies the kind of
every pre-existing entry (KINDS): an empty file, a one-byte file, sentinel content shorter / longer than the
real output, exactly the bytes a fresh run would write, a read-only file, a symbolic link to a file in
another directory and a dangling symbolic link.  Every planted entry gets an old modification time, and
under --no-clobber "unchanged" is judged on the whole directory entry: type, permission bits, inode, size,
mtime, bytes, and for a link its target string and the state of the file it points to.  Under --clobber
"completely rewritten" additionally means that the old modification time is gone.  A few runs per
configuration are repeated in a fresh interpreter (python -m ...), so that the exit status is the one a
calling shell sees.
"""

import itertools
import os
import pathlib
import random
import shutil
import stat
import tempfile

from . import cli_gen as g
from .common import Collector

STALE_LINE = b"STALE-CONTENT-FROM-A-PREVIOUS-RUN-STALE-CONTENT-FROM-A-PREVIOUS-RUN\n"
SHORT = b"OLD\n"
OUT_NAME = "xxTest1.2"

CASES = {"simple": g.case_simple, "multi": g.case_multi, "cut": g.case_cut, "haps": g.case_haps}


# what a pre-existing output file can be (a directory in the way is out of scope)
KINDS = ("empty", "byte", "short", "long", "same", "readonly", "symlink", "dangling")
P2A = "tola.assembly.scripts.pretext_to_asm"
OLD_NS = 1_000_000_000 * 10**9  # September 2001: the modification time given to everything planted


def sentinel(kind, real):
    if kind == "empty":
        return b""
    if kind == "byte":
        return b"\n"
    if kind == "short":
        return SHORT
    if kind == "same":
        return real
    return STALE_LINE * (2 + len(real) // len(STALE_LINE))


def plant(d, elsewhere, name, kind, real, writable=False):
    """pre-create output file `name` in d as `kind`; returns the path of the link target (or None)"""
    path = d / name
    target = None
    if kind in ("symlink", "dangling"):
        elsewhere.mkdir(exist_ok=True)
        target = elsewhere / f"target-of-{name}"
        if kind == "symlink":
            target.write_bytes(sentinel("long", real))
            os.utime(target, ns=(OLD_NS, OLD_NS))
        os.symlink(target, path)
    else:
        path.write_bytes(sentinel(kind, real))
        if kind == "readonly" and not writable:
            path.chmod(0o444)
    os.utime(path, ns=(OLD_NS, OLD_NS), follow_symlinks=False)
    return target


def entry_state(path):
    """everything observable about one directory entry, without following a link"""
    try:
        st = os.lstat(path)
    except FileNotFoundError:
        return None
    state = {"type": stat.S_IFMT(st.st_mode), "perm": stat.S_IMODE(st.st_mode), "inode": st.st_ino, "size": st.st_size, "mtime": st.st_mtime_ns}
    if stat.S_ISLNK(st.st_mode):
        state["link"] = os.readlink(path)
    elif stat.S_ISREG(st.st_mode):
        state["bytes"] = pathlib.Path(path).read_bytes()
    return state


TYPE_NAMES = {stat.S_IFREG: "regular file", stat.S_IFLNK: "symbolic link", stat.S_IFDIR: "directory"}


def alterations(before, after):
    """differences between two entry_state() records, in words"""
    if after is None:
        return ["has been deleted"] if before is not None else []
    if before is None:
        return [f"has been created ({after['size']} bytes)"]
    out = []
    if before["type"] != after["type"]:
        return [f"was a {TYPE_NAMES.get(before['type'], before['type'])} and is now a {TYPE_NAMES.get(after['type'], after['type'])}"]
    if before.get("link") != after.get("link"):
        out.append(f"link target changed from {before.get('link')!r} to {after.get('link')!r}")
    if before.get("bytes") != after.get("bytes"):
        out.append(f"content was altered ({before['size']} -> {after['size']} bytes)")
    if before["inode"] != after["inode"]:
        out.append("was replaced by a new file (inode changed)")
    if before["perm"] != after["perm"]:
        out.append(f"permission bits changed {before['perm']:o} -> {after['perm']:o}")
    if before["mtime"] != after["mtime"]:
        out.append("modification time changed (the file was written to)")
    return out


def subsets_of(names):
    names = sorted(names)
    if len(names) <= 6:
        for n in range(1, len(names) + 1):
            yield from itertools.combinations(names, n)
    else:
        for n in (1, 2):
            yield from itertools.combinations(names, n)
        yield tuple(names)


class Config:
    """inputs on disk + the fresh-directory outputs of one (case, format, log option, input format)"""

    def __init__(self, case, fmt, write_log, in_fmt, root):
        self.case, self.fmt, self.write_log, self.in_fmt = case, fmt, write_log, in_fmt
        self.root = pathlib.Path(root)
        self.in_dir = self.root / "in"
        self.in_dir.mkdir()
        self.inputs = g.write_inputs(case, self.in_dir, formats=(in_fmt,))
        self.n_dirs = 0
        self.error = None
        # learn the outputs (twice: the first run also builds the FASTA index cache next to the input)
        for _ in range(2):
            d = self.new_dir()
            code, _, err, exc = self.invoke(d, [])
            if code != 0:
                self.error = f"run into an empty directory failed (exit {code}): {exc or err[-300:]}"
                return
            self.fresh = g.snapshot(d)
            shutil.rmtree(d)

    def new_dir(self):
        self.n_dirs += 1
        d = self.root / f"out{self.n_dirs}"
        d.mkdir()
        return d

    def invoke(self, d, extra, process=False):
        args = ["--assembly", self.inputs[self.in_fmt], "--pretext", self.inputs["pretext"], "--output", d / f"{OUT_NAME}.{self.fmt}"]
        args.append("--write-log" if self.write_log else "--no-write-log")
        if process:  # a fresh interpreter: the exit status is the one a calling shell or pipeline sees
            code, out, err = g.run_subprocess(P2A, args + list(extra), cwd=d)
            return code, out.decode(errors="replace"), err.decode(errors="replace"), None
        return g.run_pretext_to_asm(args + list(extra))

    def describe(self):
        return f"[{self.case['name']} -> .{self.fmt}, {'--write-log' if self.write_log else '--no-write-log'}, input {self.in_fmt}]"


def check_subset(cfg, pre, mode, col, inp):
    """pre: {file name: one of KINDS}; mode: '--no-clobber' | '--clobber' | 'default'; inp.get('process'): fresh interpreter"""
    d = cfg.new_dir()
    elsewhere = cfg.root / f"elsewhere{cfg.n_dirs}"
    try:
        no_clobber = mode == "--no-clobber"
        targets = {}
        for name, kind in pre.items():
            # a file without write permission defeats --clobber for an unprivileged user: that is not the tool's fault
            targets[name] = plant(d, elsewhere, name, kind, cfg.fresh[name], writable=not no_clobber and os.geteuid() != 0)
        before = {name: entry_state(d / name) for name in pre}
        before_target = {name: entry_state(t) for name, t in targets.items() if t}
        code, _, err, exc = cfg.invoke(d, [] if mode == "default" else [mode], process=bool(inp.get("process")))
        what = f"{cfg.describe()} {mode}{' (python -m)' if inp.get('process') else ''} with pre-existing {sorted(pre.items())}"
        if no_clobber:
            if code == 0:
                col.fail(f"{what}: exit status 0 although output files already exist", inp)
            for name, kind in pre.items():
                diffs = alterations(before[name], entry_state(d / name))
                if diffs:
                    col.fail(f"{what}: pre-existing {kind} file {name} {'; '.join(diffs)}", inp)
                if name in before_target:
                    diffs = alterations(before_target[name], entry_state(targets[name]))
                    if diffs:
                        col.fail(f"{what}: the file elsewhere that the pre-existing link {name} points to {'; '.join(diffs)}", inp)
            text = err + (exc or "")
            if code != 0 and not any(name in text for name in pre):
                col.fail(f"{what}: error output names no colliding file: {text[-200:]!r}", inp)
        else:
            after = g.snapshot(d)
            if code != 0:
                col.fail(f"{what}: exit status {code}: {exc or err[-200:]}", inp)
                return
            if sorted(after) != sorted(cfg.fresh):
                col.fail(f"{what}: files {sorted(after)} differ from the fresh-directory set {sorted(cfg.fresh)}", inp)
                return
            for name, data in cfg.fresh.items():
                if after[name] != data:
                    stale = after[name].count(b"STALE") + after[name].count(b"OLD\n")
                    col.fail(
                        f"{what}: {name} is not the fresh-directory content ({len(after[name])} bytes, fresh {len(data)}; "
                        f"{stale} stale fragments survive)",
                        inp,
                    )
                elif name in pre and os.stat(d / name).st_mtime_ns == OLD_NS:
                    col.fail(f"{what}: pre-existing {pre[name]} file {name} still has its old modification time: it was not rewritten", inp)
    finally:
        for name in pre:  # so that the directory can be removed whatever happened to the permissions
            try:
                os.chmod(d / name, 0o644)
            except OSError:
                pass
        shutil.rmtree(d, ignore_errors=True)
        shutil.rmtree(elsewhere, ignore_errors=True)


def kind_assignments(names, quick, offset=0):
    """(pre, with_clobber_run, in_fresh_interpreter) for the enumeration over the KINDS of pre-existing entries"""
    names = sorted(names)
    nk = len(KINDS)
    seen = set()

    def emit(pre, clobber_too=True, process=False):
        key = (tuple(sorted(pre.items())), process)
        if key not in seen:
            seen.add(key)
            yield pre, clobber_too, process

    # every single file as every kind
    for i, name in enumerate(names):
        for j, kind in enumerate(KINDS):
            if kind in ("short", "long"):
                continue  # single files with these sentinels are in the first enumeration
            yield from emit({name: kind}, clobber_too=not quick or (i + j) % 2 == 0)
    # the whole set of one kind (if nothing but e.g. empty files is in the way, is the run stopped at all?) and mixed
    for kind in KINDS:
        if kind in ("short", "long") and quick:
            continue
        yield from emit({name: kind for name in names}, clobber_too=not quick or kind in ("empty", "symlink"))
    for r in range(nk if not quick else 2):
        yield from emit({name: KINDS[(i + r + offset) % nk] for i, name in enumerate(names)})
    # the exit status as a calling process sees it: first and last file of the run's outputs, and all of them
    picks = [{names[0]: "long"}, {names[-1]: "empty"}, {name: "byte" for name in names}]
    for name in names:
        if name.endswith(".log"):
            picks.append({name: "short"})
    for pre in picks if not quick else picks[-1:]:
        yield from emit(pre, clobber_too=False, process=True)
    # pairs (quick: a few of them) and, in the thorough tier, every enumerated subset with rotating kinds
    if quick:
        pairs = list(itertools.combinations(names, 2))
        step = max(1, len(pairs) // 5)
        for k, (a, b) in enumerate(pairs[offset % step :: step]):
            yield from emit({a: KINDS[(2 * k + offset) % nk], b: ("empty", "symlink", "long", "byte")[k % 4]}, clobber_too=k % 2 == 0)
            yield from emit({a: "empty", b: "empty"}, clobber_too=False)
    else:
        for k, sub in enumerate(subsets_of(names)):
            if len(sub) < 2:
                continue
            for r in range(nk):
                yield from emit({name: KINDS[(i + r) % nk] for i, name in enumerate(sub)}, clobber_too=r % 2 == 0)
            for kind in ("empty", "symlink"):
                yield from emit({name: kind for name in sub}, clobber_too=False)


def run_config(case, fmt, write_log, in_fmt, polarities, col, stride=1, offset=0, quick=True):
    with tempfile.TemporaryDirectory() as root:
        cfg = Config(case, fmt, write_log, in_fmt, root)
        base = {"case": case, "fmt": fmt, "write_log": write_log, "in_fmt": in_fmt}
        if cfg.error:
            col.fail(f"{cfg.describe()}: {cfg.error}", dict(base, pre={}, mode="default"))
            return 0
        n = 0
        for k, sub in enumerate(subsets_of(cfg.fresh)):
            if stride > 1 and len(sub) == 2 and (k + offset) % stride:
                continue
            for pol in polarities:
                pre = {name: ("long", "short")[(i + pol + k) % 2] for i, name in enumerate(sub)}
                for mode in ("--no-clobber", "--clobber" if (k + pol) % 2 else "default"):
                    inp = dict(base, pre=pre, mode=mode)
                    check_subset(cfg, pre, mode, col, inp)
                    col.case((case["name"], fmt, write_log, in_fmt, tuple(sorted(pre.items())), mode), sample=inp if (k, pol) == (3, 0) and mode == "--no-clobber" and fmt == "fa" else None)
                    n += 1
                    if col.full:
                        return n
        for k, (pre, clobber_too, process) in enumerate(kind_assignments(cfg.fresh, quick, offset)):
            for mode in ("--no-clobber", "--clobber" if k % 2 else "default")[: 2 if clobber_too else 1]:
                inp = dict(base, pre=pre, mode=mode)
                if process:
                    inp["process"] = True
                check_subset(cfg, pre, mode, col, inp)
                col.case((case["name"], fmt, write_log, in_fmt, tuple(sorted(pre.items())), mode, process), sample=inp if k == 0 and mode == "--no-clobber" and fmt == "agp" else None)
                n += 1
                if col.full:
                    return n
        return n


def replay(inp):
    col = Collector("replay")
    with tempfile.TemporaryDirectory() as root:
        cfg = Config(inp["case"], inp["fmt"], inp["write_log"], inp["in_fmt"], root)
        if cfg.error:
            return cfg.error
        if inp["pre"]:
            check_subset(cfg, inp["pre"], inp["mode"], col, inp)
    return col.failures[0]["message"] if col.failures else None


def run(tier, seed, **opts):
    rng = random.Random(seed)
    quick = tier == "quick"
    col = Collector(
        "configurations = generated case (single- and multi-assembly outputs) x output format fa/agp/tpf x --write-log on/off "
        "(FASTA input for .fa, TPF or AGP input otherwise); for each, every non-empty subset of the fresh-directory output files "
        "(all subsets if <= 6 files, else singles, pairs, full set) pre-created with sentinels shorter / longer than the real "
        "content, then --no-clobber and --clobber (explicit or default); then the kind of the pre-existing entry is varied "
        f"over {', '.join(KINDS)} (link targets live in another directory; everything planted gets an old mtime): every "
        "single file as every kind, the whole set as one kind and as rotating mixed kinds, pairs (quick: about five per "
        "configuration; thorough: every enumerated subset under all rotations of the kinds), and a few runs in a fresh "
        "interpreter for the real exit status.  --no-clobber: non-zero exit, error names a colliding file, every planted entry "
        "and every link target unchanged in type, permission bits, inode, size, mtime, bytes, link text.  --clobber: exit 0, "
        "exactly the fresh-directory files with the fresh-directory bytes and no old mtime left.  "
        "non-trivial = distinct (configuration, subset, kinds, mode, in-process or fresh interpreter)"
    )
    plan = []
    if quick:
        for fmt in ("fa", "agp", "tpf"):
            for wl in (True, False):
                plan.append((g.case_simple(), fmt, wl, "fa" if fmt == "fa" else ("tpf" if wl else "agp"), (0,), 1))
        plan.append((g.case_multi(), "fa", True, "fa", (0,), 1))
        plan.append((g.case_haps(), "tpf", True, "fa", (1,), 1))
    else:
        cases = [f() for f in CASES.values()] + [g.case_random(rng, k) for k in range(4)]
        for case in cases:
            for fmt in ("fa", "agp", "tpf"):
                for wl in (True, False):
                    in_fmt = "fa" if fmt == "fa" else rng.choice(("tpf", "agp", "fa"))
                    if in_fmt == "tpf" and not g.tpf_can_carry(case):
                        in_fmt = "agp"
                    plan.append((case, fmt, wl, in_fmt, (0, 1), 1))
    n_cfg = 0
    for case, fmt, wl, in_fmt, pols, stride in plan:
        if col.full:
            break
        run_config(case, fmt, wl, in_fmt, pols, col, stride=stride, offset=seed, quick=quick)
        n_cfg += 1
    return col.result(
        bounds=f"{n_cfg} configurations; subsets: all (<= 6 output files) or singles + pairs"
        + ("" if quick else "")
        + " + full set; sentinel polarity "
        + ("one assignment per subset" if quick else "both assignments per subset")
        + f"; kinds of pre-existing entry: {len(KINDS)} ({', '.join(KINDS)}), "
        + ("singles x all kinds, full set x all kinds, ~5 pairs" if quick else "every enumerated subset x all rotations of the kinds"),
        exhaustive=not quick,
    )
