"""
C16 bounded tier: --no-clobber never alters an existing file; --clobber rewrites every output completely.

For each configuration (generated case x output format FASTA/AGP/TPF x --write-log/--no-write-log) the
pretext-to-asm CLI is first run into an empty directory: that gives the set of output files and, because
the tool is a function of its inputs, the bytes a completely rewritten file must hold.  Then, for every
non-empty subset of those files (all subsets when there are <= 6 files, else singles, pairs and the full
set), the subset is pre-created with sentinel bytes (shorter or longer than the real content) and the same
command is run with --no-clobber and with --clobber.  Everything is judged from exit status, error output
and a byte-for-byte directory listing.
"""

import itertools
import pathlib
import random
import shutil
import tempfile

from . import cli_gen as g
from .common import Collector

STALE_LINE = b"STALE-CONTENT-FROM-A-PREVIOUS-RUN-STALE-CONTENT-FROM-A-PREVIOUS-RUN\n"
SHORT = b"OLD\n"
OUT_NAME = "xxTest1.2"

CASES = {"simple": g.case_simple, "multi": g.case_multi, "cut": g.case_cut, "haps": g.case_haps}


def sentinel(kind, real):
    if kind == "short":
        return SHORT
    return STALE_LINE * (2 + len(real) // len(STALE_LINE))


def subsets_of(names):
    names = sorted(names)
    if len(names) <= 6:
        for n in range(1, len(names) + 1):
            yield from itertools.combinations(names, n)
    else:
        for n in (1, 2):
            yield from itertools.combinations(names, n)
        yield tuple(names)


class Config:
    """inputs on disk + the fresh-directory outputs of one (case, format, log option, input format)"""

    def __init__(self, case, fmt, write_log, in_fmt, root):
        self.case, self.fmt, self.write_log, self.in_fmt = case, fmt, write_log, in_fmt
        self.root = pathlib.Path(root)
        self.in_dir = self.root / "in"
        self.in_dir.mkdir()
        self.inputs = g.write_inputs(case, self.in_dir, formats=(in_fmt,))
        self.n_dirs = 0
        self.error = None
        # learn the outputs (twice: the first run also builds the FASTA index cache next to the input)
        for _ in range(2):
            d = self.new_dir()
            code, _, err, exc = self.invoke(d, [])
            if code != 0:
                self.error = f"run into an empty directory failed (exit {code}): {exc or err[-300:]}"
                return
            self.fresh = g.snapshot(d)
            shutil.rmtree(d)

    def new_dir(self):
        self.n_dirs += 1
        d = self.root / f"out{self.n_dirs}"
        d.mkdir()
        return d

    def invoke(self, d, extra):
        args = ["--assembly", self.inputs[self.in_fmt], "--pretext", self.inputs["pretext"], "--output", d / f"{OUT_NAME}.{self.fmt}"]
        args.append("--write-log" if self.write_log else "--no-write-log")
        return g.run_pretext_to_asm(args + list(extra))

    def describe(self):
        return f"[{self.case['name']} -> .{self.fmt}, {'--write-log' if self.write_log else '--no-write-log'}, input {self.in_fmt}]"


def check_subset(cfg, pre, mode, col, inp):
    """pre: {file name: 'short' | 'long'}; mode: '--no-clobber' | '--clobber' | 'default'"""
    d = cfg.new_dir()
    try:
        before = {}
        for name, kind in pre.items():
            before[name] = sentinel(kind, cfg.fresh[name])
            (d / name).write_bytes(before[name])
        code, _, err, exc = cfg.invoke(d, [] if mode == "default" else [mode])
        after = g.snapshot(d)
        what = f"{cfg.describe()} {mode} with pre-existing {sorted(pre.items())}"
        if mode == "--no-clobber":
            if code == 0:
                col.fail(f"{what}: exit status 0", inp)
            for name, data in before.items():
                if name not in after:
                    col.fail(f"{what}: pre-existing file {name} has been deleted", inp)
                elif after[name] != data:
                    col.fail(f"{what}: pre-existing file {name} was altered ({len(data)} -> {len(after[name])} bytes)", inp)
            text = err + (exc or "")
            if code != 0 and not any(name in text for name in pre):
                col.fail(f"{what}: error output names no colliding file: {text[-200:]!r}", inp)
        else:
            if code != 0:
                col.fail(f"{what}: exit status {code}: {exc or err[-200:]}", inp)
                return
            if sorted(after) != sorted(cfg.fresh):
                col.fail(f"{what}: files {sorted(after)} differ from the fresh-directory set {sorted(cfg.fresh)}", inp)
                return
            for name, data in cfg.fresh.items():
                if after[name] != data:
                    stale = after[name].count(b"STALE") + after[name].count(b"OLD\n")
                    col.fail(
                        f"{what}: {name} is not the fresh-directory content ({len(after[name])} bytes, fresh {len(data)}; "
                        f"{stale} stale fragments survive)",
                        inp,
                    )
    finally:
        shutil.rmtree(d, ignore_errors=True)


def run_config(case, fmt, write_log, in_fmt, polarities, col, stride=1, offset=0):
    with tempfile.TemporaryDirectory() as root:
        cfg = Config(case, fmt, write_log, in_fmt, root)
        base = {"case": case, "fmt": fmt, "write_log": write_log, "in_fmt": in_fmt}
        if cfg.error:
            col.fail(f"{cfg.describe()}: {cfg.error}", dict(base, pre={}, mode="default"))
            return 0
        n = 0
        for k, sub in enumerate(subsets_of(cfg.fresh)):
            if stride > 1 and len(sub) == 2 and (k + offset) % stride:
                continue
            for pol in polarities:
                pre = {name: ("long", "short")[(i + pol + k) % 2] for i, name in enumerate(sub)}
                for mode in ("--no-clobber", "--clobber" if (k + pol) % 2 else "default"):
                    inp = dict(base, pre=pre, mode=mode)
                    check_subset(cfg, pre, mode, col, inp)
                    col.case((case["name"], fmt, write_log, in_fmt, tuple(sorted(pre.items())), mode), sample=inp if (k, pol) == (3, 0) and mode == "--no-clobber" and fmt == "fa" else None)
                    n += 1
                    if col.full:
                        return n
        return n


def replay(inp):
    col = Collector("replay")
    with tempfile.TemporaryDirectory() as root:
        cfg = Config(inp["case"], inp["fmt"], inp["write_log"], inp["in_fmt"], root)
        if cfg.error:
            return cfg.error
        if inp["pre"]:
            check_subset(cfg, inp["pre"], inp["mode"], col, inp)
    return col.failures[0]["message"] if col.failures else None


def run(tier, seed, **opts):
    rng = random.Random(seed)
    quick = tier == "quick"
    col = Collector(
        "configurations = generated case (single- and multi-assembly outputs) x output format fa/agp/tpf x --write-log on/off "
        "(FASTA input for .fa, TPF or AGP input otherwise); for each, every non-empty subset of the fresh-directory output files "
        "(all subsets if <= 6 files, else singles, pairs, full set) pre-created with sentinels shorter / longer than the real "
        "content, then --no-clobber and --clobber (explicit or default); non-trivial = distinct (configuration, subset, "
        "sentinel lengths, mode)"
    )
    plan = []
    if quick:
        for fmt in ("fa", "agp", "tpf"):
            for wl in (True, False):
                plan.append((g.case_simple(), fmt, wl, "fa" if fmt == "fa" else ("tpf" if wl else "agp"), (0,), 1))
        plan.append((g.case_multi(), "fa", True, "fa", (0,), 1))
        plan.append((g.case_haps(), "tpf", True, "fa", (1,), 1))
    else:
        cases = [f() for f in CASES.values()] + [g.case_random(rng, k) for k in range(4)]
        for case in cases:
            for fmt in ("fa", "agp", "tpf"):
                for wl in (True, False):
                    in_fmt = "fa" if fmt == "fa" else rng.choice(("tpf", "agp", "fa"))
                    if in_fmt == "tpf" and not g.tpf_can_carry(case):
                        in_fmt = "agp"
                    plan.append((case, fmt, wl, in_fmt, (0, 1), 1))
    n_cfg = 0
    for case, fmt, wl, in_fmt, pols, stride in plan:
        if col.full:
            break
        run_config(case, fmt, wl, in_fmt, pols, col, stride=stride, offset=seed)
        n_cfg += 1
    return col.result(
        bounds=f"{n_cfg} configurations; subsets: all (<= 6 output files) or singles + pairs"
        + ("" if quick else "")
        + " + full set; sentinel polarity "
        + ("one assignment per subset" if quick else "both assignments per subset"),
        exhaustive=not quick,
    )
