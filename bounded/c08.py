"""
C08 bounded tier: an unedited Pretext map (every input scaffold whole, uncut, unpainted, untagged; scaffold ends
rounded to floor or ceil texels; sub-texel scaffolds present or absent) reproduces the input assembly exactly in the
primary output, no other output assembly appears and cuts = breaks = joins = haplotig removals = 0; painting every
scaffold changes only names (prefix + rank by size) and order.

Side conditions taken from the statement: every scaffold of at least one texel has a last contig of at least one
texel; input names lie outside the generated namespaces and are listed in numeric-aware order, so that "same order" can
be judged literally.

Gap rows.  "The same gaps" is judged row by row: where the input has SEVERAL gap rows in a row between two contigs (legal
in AGP and TPF, e.g. a contig-type gap followed by a scaffold-type gap) the output must have every one of them, in the same
order, with its length and type - whichever way PretextView rounded the scaffold's length (down, up, or no rounding needed).
Gap rows in front of the first or behind the last contig of an input scaffold separate no two contigs and no output
scaffold may begin or end with a gap (C07): such terminal gap rows are the only input rows that may - and must - be missing
from the output; they do count for the scaffold's length in the map.  This holds for scaffolds shorter than a texel that
are absent from the map as well: they are rebuilt from their contigs and must come out with every gap row of every run
(repaired in /repo: the rebuild used to replace a run of gap rows by one join gap).

Names.  The statement holds for all input assemblies, whatever their scaffolds and contigs are called: an unedited map
has no haplotype, Target or other tag, so every scaffold belongs to the primary output under its own name.  Besides the
names of the shared generators (scaffold_<n>, ctg<n><letter>, old<n><m>) the `names` family re-labels scaffolds and contigs
with the name shapes assemblers, polishers and earlier curation rounds produce: letters+digits+underscore+anything
(contig1_pilon, tig00012_arrow, ctg7_1, Chr3_random), a haplotype-like word in front (hap1_3, HAP2_ctg4), several
underscores without a trailing number (ctg_12_pilon, hap1_scaffold_3_pilon, x_y_12a), empty parts (ctg3__x, _ctg3_x,
q3_), a leading number (3_ctg), upper / lower / mixed case, dots.  Kept OUT of the name space, and asserted: names of
the shape <x>_<y>_<digits> (routed to an invented haplotype by the unchanged tree: the known finding
C09 'name-derived-haplotype'), the generated namespaces of the side condition above (names that start with an autosome
prefix in use, H_<n>, and PretextView's own Scaffold_<n>), and the letter 'I' (the output order
reads it as a roman numeral; the input lists its scaffolds in numeric-aware order so that "same order" can be judged
literally).

Tags on INPUT contigs.  "Untagged" is said of the Pretext map; the input assembly is any assembly, and one legal input is
the AGP this tool wrote in an earlier curation round (`--assembly` accepts AGP; columns 10.. of a component line are its
tags).  That file carries tags on some contigs: every contig cut in the earlier round is tagged Cut followed by the tags
the curator had put on that piece (Cut Unloc, Cut Haplotig, Cut Contaminant, Cut FalseDuplicate, Cut Singleton, Cut X), and tags
read from an older input are passed on unchanged.  An unedited map over such an input has no tag of its own, so the
statement asks for the same result as without them: every scaffold - present in the map or shorter than a texel and absent -
in the primary output under its own name, no other assembly.  The `tags` families put these tag sets on contigs of absent
sub-texel scaffolds and of scaffolds present in the map, through both routes that can carry them (Fragment objects, AGP
text with tag columns written here) and, for some cases, through the pretext-to-asm command line (only the primary file may
be written).  Kept OUT of the tag space for now (reported, see INPUT_TAG_SETS): input tags that are not in the tool's list of
known words.

Painted clause, on top of the returned assemblies: for every n-th all-painted case the output assemblies are asked for a
second time from the same BuildAssembly (names and content must not depend on how often they are requested), and some
all-painted cases are run through the pretext-to-asm command line with --autosome-prefix, twice in the same process: the
scaffold names in the written primary file must be <prefix><rank by amount of sequence> both times.
"""

import itertools
import pathlib
import random
import re
import tempfile
from fractions import Fraction

from . import cli_gen
from . import pipeline_gen as pg
from .common import Collector


def strip_terminal_gaps(rows):
    i, j = 0, len(rows)
    while i < j and rows[i][0] == "G":
        i += 1
    while j > i and rows[j - 1][0] == "G":
        j -= 1
    return rows[i:j]


def has_gap_run(rows):
    return any(a[0] == "G" and b[0] == "G" for a, b in itertools.pairwise(rows))


def in_domain(inp, bpt):
    f = pg.bptF(bpt)
    for s in inp:
        core = strip_terminal_gaps(s["rows"])
        if not core:
            return False
        if Fraction(pg.rows_len(s["rows"])) >= f:
            if Fraction(pg.row_len(core[-1])) < f:
                return False
    return True


def null_map(inp, bpt, roundings, absent, painted, prefix="SUPER_", via="objects"):
    scs = []
    for s, rounding in zip(inp, roundings, strict=True):
        if s["name"] in absent:
            continue
        pcs = pg.pieces_of(s, bpt, rounding, ())
        if pcs:
            scs.append([[*pcs[0], 1, ["Painted"] if painted else []]])
    return {"input": inp, "map": {"bpt": bpt, "scaffolds": scs}, "prefix": prefix, "via": via}


def rows_of(rows):
    """the rows an output scaffold must have: the input rows without gap rows in front of the first / behind the last contig"""
    return [tuple(r[:5]) if r[0] == "F" else tuple(r) for r in strip_terminal_gaps(rows)]


def plain(rows):
    return [tuple(r[:5]) if r[0] == "F" else tuple(r) for r in rows]


def describe_difference(got, want):
    """what differs between the rows of an output scaffold and the rows it must have, in words"""
    if [r for r in got if r[0] == "F"] == [r for r in want if r[0] == "F"]:
        gaps_g = [[tuple(g) for g in between] for _, between, _, _ in pg.adjacencies([list(r) for r in got])]
        gaps_w = [[tuple(g) for g in between] for _, between, _, _ in pg.adjacencies([list(r) for r in want])]
        for j, (g, w) in enumerate(zip(gaps_g, gaps_w, strict=True), 1):
            if g != w:
                return f"same contigs, but between contig {j} and {j + 1} the output has gap rows {g} where the input has {w}"
        return "same contigs and inner gaps, but the output has terminal gap rows"
    return "the contigs differ"


def problems_of(case, run):
    inp = case["input"]
    out = run.out
    problems = []
    extra = [k for k in out if k is not None]
    if extra:
        held = {k: [sc["name"] for sc in out[k]["scaffolds"]][:3] for k in extra[:4]}
        problems.append(f"output assemblies other than the primary were produced: {extra!r} (holding scaffolds {held}; an unedited / all-painted map has one output assembly, the primary)")
    if (run.cuts, run.breaks, run.joins) != (0, 0, 0):
        problems.append(f"statistics report cuts={run.cuts} breaks={run.breaks} joins={run.joins}, expected 0/0/0")
    hap_removals = pg.info_yaml(run).get("manual_haplotig_removals") if case.get("yaml") else len(out.get("Haplotig", {"scaffolds": []})["scaffolds"])
    if hap_removals != 0:
        problems.append(f"{hap_removals} haplotig removals reported, expected 0")
    prim = out.get(None)
    if prim is None:
        problems.append("no primary assembly")
        return problems
    got = [(sc["name"], plain(sc["rows"])) for sc in prim["scaffolds"]]
    painted_src = {sc[0][0] for sc in case["map"]["scaffolds"] if "Painted" in sc[0][4]}
    if not painted_src:
        want = [(s["name"], rows_of(s["rows"])) for s in inp]
        if got != want:
            if sorted(got) == sorted(want):
                problems.append(f"primary output has the input scaffolds in another order: {[n for n, _ in got]}")
            else:
                for (gn, gr), (wn, wr) in itertools.zip_longest(got, want, fillvalue=(None, None)):
                    if (gn, gr) != (wn, wr):
                        how = f" ({describe_difference(gr, wr)})" if gn == wn and gr is not None else ""
                        problems.append(f"primary output differs from the input{how}: got scaffold {gn!r} rows {gr}, input has {wn!r} rows {wr}")
                        break
        return problems
    # painted null map: same content, names = prefix + rank by sequence length; unpainted (absent) ones unchanged
    prefix = case["prefix"]
    want_rows = {s["name"]: rows_of(s["rows"]) for s in inp}
    unplaced_want = sorted((n, r) for n, r in want_rows.items() if n not in painted_src)
    chrom = [(n, r) for n, r in got if n.startswith(prefix)]
    unplaced_got = sorted((n, r) for n, r in got if not n.startswith(prefix))
    strange = [n for n, _ in unplaced_got if n not in want_rows]
    if strange:
        problems.append(f"scaffolds named {strange[:4]} in the primary output: a painted scaffold must be called {prefix}<rank by size> (autosome prefix {prefix!r}), an unpainted one keeps its input name")
    if unplaced_got != unplaced_want:
        problems.append(f"unpainted scaffolds changed: got {unplaced_got}, expected {unplaced_want}")
    numbers = []
    for n, r in chrom:
        tail = n[len(prefix) :]
        if not tail.isdigit():
            problems.append(f"painted scaffold named {n!r}, expected {prefix}<number>")
            continue
        numbers.append((int(tail), pg.seq_len(r), r))
    numbers.sort(key=lambda x: x[0])
    if [x[0] for x in numbers] != list(range(1, len(painted_src) + 1)):
        problems.append(f"painted scaffolds are numbered {[x[0] for x in numbers]}, expected 1..{len(painted_src)}")
    sizes = [x[1] for x in numbers]
    if sizes != sorted(sizes, reverse=True):
        problems.append(f"chromosome numbers do not follow size: sequence lengths in number order {sizes}")
    if sorted(x[2] for x in numbers) != sorted(want_rows[n] for n in painted_src):
        problems.append("painting changed the content of a scaffold: " + f"got {[x[2] for x in numbers]}, input {[want_rows[n] for n in sorted(painted_src)]}")
    return problems


def second_request_problems(run):
    """the output assemblies asked for a second time from the same BuildAssembly: same assemblies, names, rows"""
    first = {k: [(sc["name"], plain(sc["rows"])) for sc in asm["scaffolds"]] for k, asm in run.out.items()}
    with pg.quiet():
        try:
            again = pg.plain_out(run.build.assemblies_with_scaffolds_fused())
        except Exception as e:  # noqa: BLE001
            return [f"asking the same BuildAssembly for its output assemblies a second time fails: {type(e).__name__}: {str(e).splitlines()[0][:150] if str(e) else ''}"]
    second = {k: [(sc["name"], plain(sc["rows"])) for sc in asm["scaffolds"]] for k, asm in again.items()}
    if first != second:
        names = {k: [n for n, _ in v] for k, v in second.items()}
        return [f"asking the same BuildAssembly for its output assemblies a second time gives another answer: scaffold names {names}, the first time {({k: [n for n, _ in v] for k, v in first.items()})}"]
    return []


def agp_scaffolds(text):
    """[(scaffold name, rows)] of a written AGP file (hand-written reader; no project code)"""
    scaffolds = {}
    for line in text.splitlines():
        if not line.strip() or line.startswith("#"):
            continue
        cols = line.split("\t")
        rows = scaffolds.setdefault(cols[0], [])
        if cols[4] in ("U", "N"):
            rows.append(("G", int(cols[5]), cols[6]))
        else:
            rows.append(("F", cols[5], int(cols[6]), int(cols[7]), {"+": 1, "-": -1}.get(cols[8], 0)))
    return list(scaffolds.items())


def cli_problems(case):
    """
    the all-painted null map through the real command line (in process, temporary directory, removed), with
    --autosome-prefix <case prefix>, TWICE: each time the primary file must hold the input scaffolds, content unchanged,
    named <prefix><rank by amount of sequence>, and nothing but a primary assembly may be written
    """
    inp = case["input"]
    prefix = case["prefix"]
    want = sorted(rows_of(s["rows"]) for s in inp)
    problems = []
    with tempfile.TemporaryDirectory() as d:
        d = pathlib.Path(d)
        (d / "asm.agp").write_text(tagged_agp_text(inp))
        (d / "pretext.agp").write_text(pg.pretext_agp_text(case["map"]))
        for attempt in (1, 2):
            out_dir = d / f"out{attempt}"
            out_dir.mkdir()
            args = ["-a", d / "asm.agp", "-p", d / "pretext.agp", "-o", out_dir / "x.agp", "--autosome-prefix", prefix, "--no-write-log", "-l", "ERROR"]
            code, _, err, exc = cli_gen.run_pretext_to_asm(args)
            which = f"pretext-to-asm --autosome-prefix {prefix} (run {attempt} of 2 in one process)"
            if code != 0:
                problems.append(f"{which} exits with {code}: {((exc or '') + ' ' + (err or '')).strip()[-200:]}")
                break
            files = sorted(p.name for p in out_dir.iterdir() if p.name.endswith(".agp"))
            if files != ["x.1.primary.curated.agp"]:
                problems.append(f"{which} wrote assembly files {files}, expected only x.1.primary.curated.agp")
                break
            got = agp_scaffolds((out_dir / files[0]).read_text())
            painted_src = {sc[0][0] for sc in case["map"]["scaffolds"]}
            n_painted = len(painted_src)
            names = sorted((n for n, _ in got if n not in {s["name"] for s in inp if s["name"] not in painted_src}), key=pg.natural_key)
            want_names = [f"{prefix}{i}" for i in range(1, n_painted + 1)]
            if names != want_names:
                problems.append(f"{which}: painted scaffolds are named {names[:6]}, expected {want_names[:6]}")
            elif sorted(r for _, r in got) != want:
                problems.append(f"{which}: content of the written primary assembly differs from the input")
            else:
                sizes = [pg.seq_len(r) for n, r in sorted(((n, r) for n, r in got if n in want_names), key=lambda nr: pg.natural_key(nr[0]))]
                if sizes != sorted(sizes, reverse=True):
                    problems.append(f"{which}: chromosome numbers do not follow size: sequence lengths in number order {sizes}")
            if problems:
                break
    return problems


# --------------------------------------------------------------------------------------------------
# tags on input contigs: the input route "AGP with tag columns" (e.g. this tool's output of an earlier round)
# --------------------------------------------------------------------------------------------------

# What an AGP written by an earlier curation round carries on a contig: Cut (the contig was cut), followed by the tags of
# the Pretext piece it was cut for; and the same words alone (tags are passed on from input to output unchanged).
# NOT generated (the unchanged tree violates the statement for them; reported, not yet recorded): a haplotype's name
# (Cut Hap2 -> an extra assembly Hap2), Target (every other absent scaffold becomes a contaminant), Primary (TaggingError),
# two different chromosome names on contigs of one absent scaffold (TaggingError).
INPUT_TAG_SETS = (
    ("Cut",), ("Cut", "Unloc"), ("Cut", "Haplotig"), ("Cut", "Contaminant"), ("Cut", "FalseDuplicate"), ("Cut", "Singleton"),
    ("Unloc",), ("Haplotig",), ("Contaminant",), ("FalseDuplicate",), ("Singleton",), ("Unloc", "Cut"), ("Cut", "Cut"),
    # the piece was cut for a chromosome the curator had named: Cut + the name tag (an upper-case letter, digits)
    ("Cut", "X"), ("Cut", "B1"), ("W",), ("Cut", "Unloc", "Z"),
)
N_PLAIN_TAG_SETS = 13  # the sets in front of the chromosome-name ones (a scaffold gets at most one chromosome name: seeded family)
TAG_PLACES = ("absent_first", "absent_all", "present_last", "every_contig", "first_of_each")


def with_tags(inp, place, tags, bpt):
    """
    the same input with `tags` on some contigs: absent_first / absent_all = the first / every contig of each scaffold shorter
    than a texel; present_last = the last contig of each scaffold of at least a texel; every_contig; first_of_each = the
    first contig of every scaffold
    """
    f = pg.bptF(bpt)
    out = []
    for s in inp:
        small = Fraction(pg.rows_len(s["rows"])) < f
        frag_idx = [i for i, r in enumerate(s["rows"]) if r[0] == "F"]
        if place == "absent_first":
            chosen = frag_idx[:1] if small else []
        elif place == "absent_all":
            chosen = frag_idx if small else []
        elif place == "present_last":
            chosen = [] if small else frag_idx[-1:]
        elif place == "every_contig":
            chosen = frag_idx
        else:
            chosen = frag_idx[:1]
        rows = [[*r[:5], list(tags)] if i in chosen else list(r) for i, r in enumerate(s["rows"])]
        out.append({"name": s["name"], "rows": rows})
    return out


def has_input_tags(inp):
    return any(r[0] == "F" and len(r) > 5 and r[5] for s in inp for r in s["rows"])


def tagged_agp_text(inp):
    """the input assembly as AGP text, the tags of a contig in columns 10.. (written here, not with tola.assembly.format)"""
    out = ["##agp-version\t2.1\n", "# input assembly\n"]
    for sc in inp:
        p = 0
        for n, r in enumerate(sc["rows"], 1):
            ln = pg.row_len(r)
            if r[0] == "G":
                out.append(f"{sc['name']}\t{p + 1}\t{p + ln}\t{n}\tU\t{ln}\t{r[2]}\tyes\tproximity_ligation\n")
            else:
                strand = {1: "+", -1: "-", 0: "?"}[r[4]]
                cols = [sc["name"], p + 1, p + ln, n, "W", r[1], r[2], r[3], strand, *(r[5] if len(r) > 5 else ())]
                out.append("\t".join(str(c) for c in cols) + "\n")
            p += ln
    return "".join(out)


def run_case(case):
    """pg.run_case; via "agp+tags": the input assembly is parsed from AGP text WITH its tag columns, the map from PretextView AGP text"""
    if case.get("via") != "agp+tags":
        return pg.run_case(case)
    import io

    from tola.assembly.build_assembly import BuildAssembly
    from tola.assembly.gap import Gap
    from tola.assembly.indexed_assembly import IndexedAssembly
    from tola.assembly.parser import parse_agp

    run = pg.Run()
    with pg.quiet():
        try:
            run.stage = "parse"
            asm = parse_agp(io.StringIO(tagged_agp_text(case["input"])), "in")
            prtxt = pg.build_pretext(case)
            run.stage = "index"
            input_asm = IndexedAssembly.new_from_assembly(asm)
            build = BuildAssembly("x", default_gap=Gap(200, "scaffold"), autosome_prefix=case.get("prefix", "SUPER_"))
            run.build = build
            run.stage = "remap"
            build.remap_to_input_assembly(prtxt, input_asm)
            run.stage = "fuse"
            out = build.assemblies_with_scaffolds_fused()
            run.stage = "done"
            run.raw_out = out
            run.out = pg.plain_out(out)
            st = build.assembly_stats
            run.cuts, run.breaks, run.joins = st.cuts, st.breaks, st.joins
        except Exception as e:  # noqa: BLE001 - the oracle decides
            run.error = e
    return run


def cli_unpainted_problems(case):
    """
    an unpainted null map through the real command line (in process, temporary directory, removed), the input given as AGP
    with its tag columns: the only assembly file written is the primary one and it holds the input's scaffolds, names and rows
    """
    inp = case["input"]
    want = sorted((s["name"], rows_of(s["rows"])) for s in inp)
    with tempfile.TemporaryDirectory() as d:
        d = pathlib.Path(d)
        (d / "asm.agp").write_text(tagged_agp_text(inp))
        (d / "pretext.agp").write_text(pg.pretext_agp_text(case["map"]))
        out_dir = d / "out"
        out_dir.mkdir()
        code, _, err, exc = cli_gen.run_pretext_to_asm(["-a", d / "asm.agp", "-p", d / "pretext.agp", "-o", out_dir / "x.agp", "--no-write-log", "-l", "ERROR"])
        which = "pretext-to-asm on the unedited map, input given as AGP" + (" with tag columns" if has_input_tags(inp) else "")
        if code != 0:
            return [f"{which} exits with {code}: {((exc or '') + ' ' + (err or '')).strip()[-200:]}"]
        files = sorted(p.name for p in out_dir.iterdir() if p.name.endswith(".agp"))
        if files != ["x.1.primary.curated.agp"]:
            return [f"{which} wrote assembly files {files}, expected only x.1.primary.curated.agp"]
        got = sorted((n, [tuple(r) for r in rows]) for n, rows in agp_scaffolds((out_dir / files[0]).read_text()))
        if got != want:
            return [f"{which}: the written primary assembly differs from the input: scaffolds {[n for n, _ in got][:6]}, input {[n for n, _ in want][:6]}"]
    return []


def check(case, col):
    run = run_case(case)
    if run.error is not None:
        col.fail(f"remapping of an unedited map did not complete ({run.stage}): {run.error_text}", case)
        return
    problems = problems_of(case, run)
    if case.get("twice"):
        problems.extend(second_request_problems(run))
    if case.get("cli"):
        problems.extend(cli_problems(case))
    if case.get("cli_unpainted"):
        problems.extend(cli_unpainted_problems(case))
    if problems:
        note = ""
        if has_input_tags(case["input"]):
            tagged = sorted({f"{r[1]} {' '.join(r[5])}" for s in case["input"] for r in s["rows"] if r[0] == "F" and len(r) > 5 and r[5]})
            note = f" [input contigs carrying tags, which an untagged map gives no meaning to: {', '.join(tagged[:4])}{', ...' if len(tagged) > 4 else ''}]"
        col.fail("; ".join(problems[:3]) + note, case)


def replay(inp):
    col = Collector("replay")
    check(inp, col)
    return col.failures[0]["message"] if col.failures else None


GAPS = (None, (1, "contig"), (10, "scaffold"), (200, "scaffold"))


def shapes(lengths, max_contigs):
    """every scaffold shape: contig lengths x one gap choice x every strand assignment"""
    out = []
    for k in range(1, max_contigs + 1):
        for lt in itertools.product(lengths, repeat=k):
            for g in GAPS if k > 1 else (None,):
                for sp in itertools.product((1, -1), repeat=k):
                    out.append((lt, sp, g))
    return out


C1, S3, C10, S200, S1, C25 = (1, "contig"), (3, "scaffold"), (10, "contig"), (200, "scaffold"), (1, "scaffold"), (25, "contig")
GAP_KINDS = (C1, S3, C10, S200, S1, C25)


def run_scaffold(name, lens, strands, runs, lead, trail, naming, tag):
    """
    like pg.make_scaffold, but between two consecutive contigs stands a RUN of gap rows (a tuple of (length, type); () = the
    contigs abut) and `lead` / `trail` are runs of gap rows in front of the first / behind the last contig
    """
    rows = [pg.G(*g) for g in lead]
    pos = sum(g[0] for g in lead)
    for j, ln in enumerate(lens):
        if j:
            for g in runs[j - 1]:
                rows.append(pg.G(*g))
                pos += g[0]
        if naming == "fasta":
            rows.append(pg.F(name, pos + 1, pos + ln, strands[j]))
        elif naming == "own":
            rows.append(pg.F(f"ctg{tag}{chr(97 + j)}", 1, ln, strands[j]))
        else:
            base = 6000 + 3000 * (j % 2)
            rows.append(pg.F(f"old{tag}{j // 2}", base + 1, base + ln, strands[j]))
        pos += ln
    rows.extend(pg.G(*g) for g in trail)
    return {"name": name, "rows": rows}


def gap_run_specs(tier):
    """
    the enumerated gap-run geometries (contig lengths, runs between the contigs, leading run, trailing run):
      * two contigs with every ordered pair of gap kinds between them (quick: 3 kinds, thorough: 6), some runs of three;
      * three contigs: a run and a single gap / abutting contigs / a second run, in both orders;
      * runs of 1-2 gap rows in front of the first and / or behind the last contig, with a single gap, a run or nothing between.
    The last contig is 40 or 150 bp, at least one texel at every texel size used.
    """
    quick = tier == "quick"
    kinds = (C1, S3, C10) if quick else GAP_KINDS
    specs = []
    for pair_i, lens in enumerate(((7, 40), (150, 40)) if quick else ((7, 40), (150, 40), (40, 150), (1, 150))):
        for g1 in kinds:
            for g2 in kinds:
                if quick and pair_i == 1 and g1 == g2:
                    continue
                specs.append((lens, [(g1, g2)], (), ()))
    triples = [(C1, S3, C10), (S3, S3, S3), (S200, C1, S200), (C10, S1, C1), (C25, S200, S3), (C1, C1, C1)]
    for t in triples[: 2 if quick else 6]:
        specs.append(((40, 150), [t], (), ()))
    first = [(C1, S3), (S200, C10)] if quick else [(C1, S3), (S200, C10), (S3, C1), (C10, C10), (C1, S3, C10)]
    second = [(), (S3,), (C10, C1)] if quick else [(), (S3,), (C1,), (C10, C1), (S3, S200)]
    for r1 in first:
        for r2 in second:
            specs.append(((40, 7, 40), [r1, r2], (), ()))
            specs.append(((7, 150, 40), [r2, r1], (), ()))
    terminal = [(S3,), (C1, S3)] if quick else [(S3,), (C1,), (C1, S3), (S200, C10), (C10, C10, S3)]
    for t in terminal:
        for mid in ((C10,), (C1, S3)):
            specs.append(((7, 40), [mid], t, ()))
            specs.append(((7, 40), [mid], (), t))
            specs.append(((40, 40), [mid], t, tuple(reversed(t))))
        specs.append(((150,), [], t, ()))
        specs.append(((40,), [], (), t))
        specs.append(((40,), [], t, t))
    return specs


# --------------------------------------------------------------------------------------------------
# names: the shapes scaffold and contig names have in real assemblies
# --------------------------------------------------------------------------------------------------

# {n} is a number that makes the name unique (scaffolds: 1.., contigs: 100 * scaffold number + contig number)
NAME_SHAPES = (
    # letters + digits + underscore + anything
    "contig{n}_pilon", "ctg{n}_x", "tig{n:05d}_arrow", "Chr{n}_random", "LG{n}_arrow", "scaffold{n}_arrow", "ptg{n:06d}l_1", "ctg{n}_1", "q{n}_",
    # a haplotype-like word in front
    "hap1_{n}", "HAP2_{n}", "Hap2_ctg{n}", "H1_tig{n}", "hap1_scaffold{n}", "mat_{n}", "PAT_ctg{n}",
    # several underscores, no number at the end
    "ctg_{n}_pilon", "scaffold_{n}_rc", "hap1_scaffold_{n}_pilon", "x_y_{n}a", "a_b_c{n}_d", "ctg{n}_x_", "Sc{n}_a_b",
    # empty parts, leading number, dots, upper case
    "ctg{n}__x", "_ctg{n}_x", "{n}_ctg", "{n}_2_x", "x.y_{n}", "ctg{n}.1_2", "UTG{n}_A", "CTG{n}_POLCA", "scaffold{n}", "Scaffold{n}", "SCAFFOLD_{n}",
)
PREFIXES = ("SUPER_", "chr", "CHR_", "Super")
PRETEXT_NAME = re.compile(r"Scaffold_\d+")  # what PretextView calls the scaffolds of its map: a generated namespace


def name_ok(name):
    """inside the name space of this module (see the module text): not <x>_<y>_<digits>, outside the generated namespaces, no 'I'"""
    generated = name.startswith(PREFIXES) or name.startswith("H_") or PRETEXT_NAME.fullmatch(name)
    return not pg.NAME_DERIVED_HAPLOTYPE.search(name) and not generated and "I" not in name


def renamed(inp, scaffold_shapes, contig_shapes):
    """
    the same assembly with other names: scaffold number i (1-based) is called scaffold_shapes[i - 1] filled with i, each of
    its contigs that is not named after the scaffold contig_shapes[i - 1] filled with 100 * i + its number (contigs of
    the same old name keep a common name; coordinates, lengths, gaps, strands unchanged); the scaffolds listed in
    numeric-aware order of their new names
    """
    out = []
    for i, (sc, ss, cs) in enumerate(zip(inp, scaffold_shapes, contig_shapes, strict=True), 1):
        new = {sc["name"]: ss.format(n=i)}
        rows = []
        for r in sc["rows"]:
            if r[0] == "F":
                if r[1] not in new:
                    new[r[1]] = cs.format(n=100 * i + len(new))
                rows.append(["F", new[r[1]], *r[2:]])
            else:
                rows.append(list(r))
        for nm in new.values():
            assert name_ok(nm), nm
        out.append({"name": new[sc["name"]], "rows": rows})
    assert len({s["name"] for s in out}) == len(out)
    return sorted(out, key=lambda s: pg.natural_key(s["name"]))


def run(tier, seed, **opts):
    rng = random.Random(seed)
    col = Collector(
        "null maps: every input scaffold presented whole at floor or ceil texels, sub-texel scaffolds present or absent, "
        "all unpainted/untagged or all painted; (a) every single-scaffold input of <= 2 contigs over the length set x 4 "
        "texel sizes x floor/ceil x absent/present x painted/unpainted inside the side condition, (b) every ordered pair "
        "of a reduced shape set, (c) seeded inputs of 2-12 scaffolds x <= 4 contigs; three contig naming styles, input via "
        "objects/AGP/TPF; (d) enumerated and (e) seeded inputs with runs of 2-3 consecutive gap rows between contigs and gap rows in front of the "
        "first / behind the last contig; (f) every shape of scaffold / contig names real assemblies use other than <x>_<y>_<digits> on a 3-scaffold input and (g) seeded inputs with seeded name shapes; "
        "(h) enumerated and (i) seeded inputs whose contigs carry the tags an AGP written by an earlier curation round carries (Cut, Cut + a piece tag, piece tags alone), on absent sub-texel and on placed scaffolds, "
        "input via objects / AGP text with tag columns / the command line; oracle: row-by-row identity with the input (terminal gap rows dropped), painted names = prefix + rank by "
        "amount of sequence, also on a second request and through the command line with --autosome-prefix; non-trivial = distinct case in which at least one "
        "scaffold's texel rounding is not exact or a scaffold is absent"
    )
    quick = tier == "quick"
    namings = ("own", "fasta", "offset")
    n = 0
    stats = {"single": 0, "pairs": 0, "random": 0, "gapruns": 0, "random_gapruns": 0, "names": 0, "random_names": 0, "tags": 0, "random_tags": 0, "all_painted": 0, "cli": 0, "cli_unpainted": 0, "skipped_outside_domain": 0}
    cli_every = 400 if quick else 1500
    cli_unpainted_every = 40 if quick else 160  # every n-th unpainted case of the tags families also runs the command line
    unpainted_tagged = 0

    def one(case, fam, nontrivial):
        nonlocal n, unpainted_tagged
        n += 1
        if fam in ("tags", "random_tags") and not any("Painted" in sc[0][4] for sc in case["map"]["scaffolds"]):
            unpainted_tagged += 1
            if unpainted_tagged % cli_unpainted_every == 2:
                case["cli_unpainted"] = True
                stats["cli_unpainted"] += 1
        case["yaml"] = n % 53 == 0
        scs = case["map"]["scaffolds"]
        if scs and all("Painted" in sc[0][4] for sc in scs):
            stats["all_painted"] += 1
            if stats["all_painted"] % 7 == 1:
                case["twice"] = True
            if stats["all_painted"] % cli_every == 3:
                case["cli"] = True
                case["prefix"] = ("chr", "SUPER_", "CHR_", "Super")[(stats["all_painted"] // cli_every) % 4]
                stats["cli"] += 1
        check(case, col)
        stats[fam] += 1
        col.case(pg.case_key(case), nontrivial=nontrivial, sample={"family": fam, **case} if n % 2999 == 0 else None)

    def inexact(inp, bpt, absent):
        return bool(absent) or any(Fraction(pg.rows_len(s["rows"])) % pg.bptF(bpt) != 0 for s in inp)

    def variants(inp, bpt):
        f = pg.bptF(bpt)
        sub = [s["name"] for s in inp if Fraction(pg.rows_len(s["rows"])) < f]
        rounding_sets = list(itertools.product(("floor", "ceil"), repeat=len(inp))) if len(inp) <= 2 else [tuple(rng.choice(("floor", "ceil")) for _ in inp) for _ in range(2)]
        for roundings in rounding_sets:
            absents = [()]
            if sub:
                absents = [tuple(c) for r in range(len(sub) + 1) for c in itertools.combinations(sub, r)] if len(sub) <= 2 else [(), tuple(sub), tuple(rng.sample(sub, len(sub) // 2))]
            for absent in absents:
                for painted in (False, True):
                    yield roundings, absent, painted

    # (a) single scaffolds, exhaustive over the shape set
    idx = 0
    for lt, sp, g in shapes((1, 2, 7, 40, 150), 2):
        for bpt in pg.BPTS:
            idx += 1
            sc = pg.make_scaffold("scaffold_1", lt, sp, [g] * (len(lt) - 1), namings[idx % 3], tag="1")
            if not in_domain([sc], bpt):
                stats["skipped_outside_domain"] += 1
                continue
            for roundings, absent, painted in variants([sc], bpt):
                case = null_map([sc], bpt, roundings, absent, painted, via=pg.pick_via([sc], idx))
                one(case, "single", inexact([sc], bpt, absent))
        if col.full:
            break
    # (b) ordered pairs of a reduced shape set (all of them in the thorough tier, a seeded third in the quick tier)
    red = shapes((1, 7, 40), 2)
    for (a, b) in itertools.product(red, repeat=2):
        if col.full:
            break
        if quick and rng.random() > 0.12:
            continue
        for bpt in ((rng.choice(pg.BPTS),) if quick else pg.BPTS):
            idx += 1
            inp = [
                pg.make_scaffold("scaffold_1", a[0], a[1], [a[2]] * (len(a[0]) - 1), namings[idx % 3], tag="1"),
                pg.make_scaffold("scaffold_2", b[0], b[1], [b[2]] * (len(b[0]) - 1), namings[(idx // 3) % 3], tag="2"),
            ]
            if not in_domain(inp, bpt):
                stats["skipped_outside_domain"] += 1
                continue
            vs = list(variants(inp, bpt))
            for roundings, absent, painted in (vs if not quick else rng.sample(vs, min(2, len(vs)))):
                one(null_map(inp, bpt, roundings, absent, painted, via=pg.pick_via(inp, idx)), "pairs", inexact(inp, bpt, absent))
    # (c) seeded larger inputs
    for _ in range(1500 if quick else 40000):
        if col.full:
            break
        bpt = rng.choice(pg.BPTS)
        k = rng.choice((2, 3, 3, 4, 5, 12))
        inp = []
        for si in range(k):
            nc = rng.randint(1, 4)
            lt = [rng.choice(pg.LENGTHS[: 5 if k > 5 else 6]) for _ in range(nc)]
            if sum(lt) >= bpt and lt[-1] < bpt:
                lt[-1] = rng.choice([x for x in pg.LENGTHS if x >= bpt][:2])
            gaps = [rng.choice(pg.GAP_CHOICES) for _ in range(nc - 1)]
            sp = [rng.choice((1, -1)) for _ in range(nc)]
            inp.append(pg.make_scaffold(f"scaffold_{si + 1}", lt, sp, gaps, rng.choice(namings), tag=str(si + 1)))
        if not in_domain(inp, bpt):
            stats["skipped_outside_domain"] += 1
            continue
        idx += 1
        prefix = rng.choice(("SUPER_", "SUPER_", "chr", "CHR_"))
        for roundings, absent, painted in variants(inp, bpt):
            one(null_map(inp, bpt, roundings, absent, painted, prefix=prefix, via=pg.pick_via(inp, idx)), "random", inexact(inp, bpt, absent))
    # (d) runs of gap rows between contigs, terminal gap rows: enumerated geometries, alone or next to a sub-texel scaffold
    for si, (lens, runs, lead, trail) in enumerate(gap_run_specs(tier)):
        if col.full:
            break
        k = len(lens)
        sp = pg.strand_patterns(k)[si % (2 if k == 1 else 4)]
        for bi, bpt in enumerate(pg.BPTS):
            idx += 1
            inp = [run_scaffold("scaffold_1", lens, sp, runs, lead, trail, namings[idx % 3], "1")]
            if (si + bi) % 3 == 0:
                inp.append(pg.make_scaffold("scaffold_2", (2, 2) if bpt > 7 else (1,), None, [C1] if bpt > 7 else None, "own", tag="2"))
            elif (si + bi) % 3 == 1 and not quick:
                inp.append(run_scaffold("scaffold_2", (40, 40), (1, -1), [(S3, C1)], (), (C1,), "own", "2"))
            elif bpt > 7:
                # a scaffold shorter than a texel with a run of gap rows (absent from the map in half of the variants)
                inp.append(run_scaffold("scaffold_2", (1, 2, 1), (1, -1, 1), [((C1, S3), (S1, C1, S1))[idx % 2], ()], (), (), namings[(idx + 1) % 3], "2"))
            if not in_domain(inp, bpt):
                stats["skipped_outside_domain"] += 1
                continue
            for roundings, absent, painted in variants(inp, bpt):
                one(null_map(inp, bpt, roundings, absent, painted, prefix=("SUPER_", "chr")[idx % 2], via=pg.pick_via(inp, idx)), "gapruns", inexact(inp, bpt, absent))
    # (e) seeded inputs with runs of gap rows
    for _ in range(150 if quick else 8000):
        if col.full:
            break
        bpt = rng.choice(pg.BPTS)
        inp = []
        for si in range(rng.choice((1, 2, 2, 3, 4))):
            nc = rng.randint(1, 4)
            lt = [rng.choice((1, 2, 7, 40, 150)) for _ in range(nc)]
            if sum(lt) >= bpt and lt[-1] < bpt:
                lt[-1] = rng.choice((40, 150))
            runs = [tuple(rng.choice(GAP_KINDS) for _ in range(rng.choice((0, 1, 2, 2, 2, 3)))) for _ in range(nc - 1)]
            lead = tuple(rng.choice(GAP_KINDS) for _ in range(rng.choice((0, 0, 0, 1, 2))))
            trail = tuple(rng.choice(GAP_KINDS) for _ in range(rng.choice((0, 0, 0, 1, 2))))
            sp = [rng.choice((1, -1)) for _ in range(nc)]
            inp.append(run_scaffold(f"scaffold_{si + 1}", lt, sp, runs, lead, trail, rng.choice(namings), str(si + 1)))
        if not in_domain(inp, bpt):
            stats["skipped_outside_domain"] += 1
            continue
        idx += 1
        prefix = rng.choice(("SUPER_", "SUPER_", "chr", "CHR_"))
        for roundings, absent, painted in variants(inp, bpt):
            one(null_map(inp, bpt, roundings, absent, painted, prefix=prefix, via=pg.pick_via(inp, idx)), "random_gapruns", inexact(inp, bpt, absent))
    # (f) name shapes: three scaffolds (two contigs with a gap, one contig, one shorter than a texel at the larger texel sizes)
    # all named after one shape, for every shape; scaffold names and contig names of the same or of different shapes
    n_shapes = len(NAME_SHAPES)
    for ti, shape in enumerate(NAME_SHAPES):
        if col.full:
            break
        for bi, bpt in enumerate(pg.BPTS):
            if quick and bi != (ti % 2) + 2:
                continue
            for ni, naming in enumerate(namings):
                if quick and ni != (ti // 2) % 3:
                    continue
                idx += 1
                base = [
                    pg.make_scaffold("scaffold_1", (40, 150), (1, -1), [S200], naming, tag="1"),
                    pg.make_scaffold("scaffold_2", (150,), None, None, naming, tag="2"),
                    pg.make_scaffold("scaffold_3", (2, 1), (-1, 1), [C1], naming, tag="3"),
                ]
                other = NAME_SHAPES[(ti + 7 * (1 + ni)) % n_shapes]
                for scaffold_shapes, contig_shapes in (([shape] * 3, [shape] * 3), ([shape] * 3, [other] * 3), ([other, shape, shape], [shape, other, shape])):
                    inp = renamed(base, scaffold_shapes, contig_shapes)
                    if not in_domain(inp, bpt):
                        stats["skipped_outside_domain"] += 1
                        continue
                    for roundings, absent, painted in variants(inp, bpt):
                        one(null_map(inp, bpt, roundings, absent, painted, prefix=PREFIXES[idx % 3], via=pg.pick_via(inp, idx)), "names", inexact(inp, bpt, absent))
    # (g) seeded inputs as in (c) and (e), every scaffold and its contigs named after seeded shapes (one shape for all / one per scaffold)
    for _ in range(120 if quick else 8000):
        if col.full:
            break
        bpt = rng.choice(pg.BPTS)
        k = rng.choice((2, 3, 3, 4, 5, 9))
        inp = []
        for si in range(k):
            nc = rng.randint(1, 4)
            lt = [rng.choice((1, 2, 7, 40, 150)) for _ in range(nc)]
            if sum(lt) >= bpt and lt[-1] < bpt:
                lt[-1] = rng.choice((40, 150))
            if rng.random() < 0.3:
                runs = [tuple(rng.choice(GAP_KINDS) for _ in range(rng.choice((0, 1, 2)))) for _ in range(nc - 1)]
                sc = run_scaffold(f"scaffold_{si + 1}", lt, [rng.choice((1, -1)) for _ in range(nc)], runs, (), (), rng.choice(namings), str(si + 1))
            else:
                gaps = [rng.choice(pg.GAP_CHOICES) for _ in range(nc - 1)]
                sc = pg.make_scaffold(f"scaffold_{si + 1}", lt, [rng.choice((1, -1)) for _ in range(nc)], gaps, rng.choice(namings), tag=str(si + 1))
            inp.append(sc)
        if rng.random() < 0.5:
            shape = rng.choice(NAME_SHAPES)
            scaffold_shapes = [shape] * k
            contig_shapes = [shape if rng.random() < 0.5 else rng.choice(NAME_SHAPES)] * k
        else:
            scaffold_shapes = rng.sample(NAME_SHAPES, k)
            contig_shapes = [rng.choice(NAME_SHAPES) for _ in range(k)]
        inp = renamed(inp, scaffold_shapes, contig_shapes)
        if not in_domain(inp, bpt):
            stats["skipped_outside_domain"] += 1
            continue
        idx += 1
        prefix = rng.choice(PREFIXES[:3])
        for roundings, absent, painted in variants(inp, bpt):
            one(null_map(inp, bpt, roundings, absent, painted, prefix=prefix, via=pg.pick_via(inp, idx)), "random_names", inexact(inp, bpt, absent))
    # (h) tags on input contigs: the three scaffolds of (f) (scaffold_3 is shorter than a texel at the two larger texel sizes)
    # and a second geometry with two sub-texel scaffolds, every tag set an earlier round can have left on a contig x where
    # the tagged contigs sit x both routes that carry tags (objects, AGP text with tag columns)
    tag_vias = ("agp+tags", "objects")
    for ti, tags in enumerate(INPUT_TAG_SETS):
        if col.full:
            break
        for pi, place in enumerate(TAG_PLACES):
            if quick and pi != ti % len(TAG_PLACES) and not (pi == 0 and ti < 2):
                continue
            for bi, bpt in enumerate(pg.BPTS):
                if quick and bi != 2 + (ti + pi) % 2:
                    continue
                for vi, via in enumerate(tag_vias):
                    if quick and vi != (ti + pi + bi) % 2 and not (pi == 0 and ti == 0):
                        continue
                    idx += 1
                    naming = namings[idx % 3]
                    bases = [
                        [
                            pg.make_scaffold("scaffold_1", (40, 150), (1, -1), [S200], naming, tag="1"),
                            pg.make_scaffold("scaffold_2", (150,), None, None, naming, tag="2"),
                            pg.make_scaffold("scaffold_3", (2, 1), (-1, 1), [C1], naming, tag="3"),
                        ]
                    ]
                    if not quick or (ti + pi) % 3 == 0:
                        bases.append(
                            [
                                pg.make_scaffold("scaffold_1", (150, 40), (-1, 1), [C10], naming, tag="1"),
                                pg.make_scaffold("scaffold_2", (1,) if bpt < 7 else (7,), None, None, naming, tag="2"),
                                pg.make_scaffold("scaffold_3", (1000,), (-1,), None, naming, tag="3"),
                                pg.make_scaffold("scaffold_4", (2, 2, 1), (1, 1, -1), [C1, None], naming, tag="4"),
                            ]
                        )
                    for base in bases:
                        inp = with_tags(base, place, tags, bpt)
                        if not in_domain(inp, bpt):
                            stats["skipped_outside_domain"] += 1
                            continue
                        for roundings, absent, painted in variants(inp, bpt):
                            one(null_map(inp, bpt, roundings, absent, painted, prefix=PREFIXES[idx % 3], via=via), "tags", inexact(inp, bpt, absent) and has_input_tags(inp))
    # (i) seeded inputs as in (c), a seeded share of the contigs carrying a seeded tag set
    for _ in range(100 if quick else 6000):
        if col.full:
            break
        bpt = rng.choice(pg.BPTS)
        k = rng.choice((2, 3, 3, 4, 5, 8))
        share = rng.choice((0.15, 0.4, 1.0))
        inp = []
        for si in range(k):
            nc = rng.randint(1, 4)
            lt = [rng.choice((1, 2, 7, 40, 150, 1000)) for _ in range(nc)]
            if rng.random() < 0.4:
                lt = [rng.choice((1, 2, 7)) for _ in range(rng.randint(1, 3))]  # candidates for being shorter than a texel
                nc = len(lt)
            if sum(lt) >= bpt and lt[-1] < bpt:
                lt[-1] = rng.choice([x for x in pg.LENGTHS if x >= bpt][:2])
            gaps = [rng.choice(pg.GAP_CHOICES) for _ in range(nc - 1)]
            sc = pg.make_scaffold(f"scaffold_{si + 1}", lt, [rng.choice((1, -1)) for _ in range(nc)], gaps, rng.choice(namings), tag=str(si + 1))
            choices = INPUT_TAG_SETS[:N_PLAIN_TAG_SETS] + (rng.choice(INPUT_TAG_SETS[N_PLAIN_TAG_SETS:]),) * 3
            for r in sc["rows"]:
                if r[0] == "F" and rng.random() < share:
                    r[5] = list(rng.choice(choices))
            inp.append(sc)
        if not in_domain(inp, bpt):
            stats["skipped_outside_domain"] += 1
            continue
        idx += 1
        prefix = rng.choice(PREFIXES[:3])
        for roundings, absent, painted in variants(inp, bpt):
            one(null_map(inp, bpt, roundings, absent, painted, prefix=prefix, via=tag_vias[idx % 2]), "random_tags", inexact(inp, bpt, absent) and has_input_tags(inp))
    return col.result(
        bounds=(
            f"name shapes: {n_shapes} shapes of scaffold / contig names (letters+digits+underscore+anything, haplotype-like first word, several underscores "
            "without a trailing number, empty parts, leading number, dots, upper / lower case; never <x>_<y>_<digits>) on 3 scaffolds (one shorter than a texel) "
            f"x {'one rotating' if quick else 'every'} (texel size, contig naming style) x same / other shape for the contigs, and seeded inputs of 2-9 scaffolds with seeded shapes; "
            "contig lengths {1,2,7,40,150,1000}, gaps none/1/10/20/25/200, both strands, texel sizes {1,2.5,10,33.3}; "
            "single scaffolds of <= 2 contigs: all; pairs of scaffolds over lengths {1,7,40}: all (thorough) / seeded 12 % (quick); "
            "seeded inputs of 2-12 scaffolds x <= 4 contigs; floor/ceil per scaffold, every subset of <= 2 sub-texel scaffolds "
            "absent; prefixes SUPER_/chr/CHR_; gap-run families: 2-3 contigs with runs of 2-3 gap rows between them (every ordered pair of "
            "3 (quick) / 6 (thorough) gap kinds), runs of 1-3 gap rows in front of the first / behind the last contig, seeded inputs of 1-4 scaffolds x <= 4 "
            "contigs with runs of 0-3 gap rows, x 4 texel sizes x floor/ceil x painted/unpainted; every 7th all-painted case asked twice for its output, "
            f"{stats['cli']} all-painted cases run twice through the command line with --autosome-prefix chr/SUPER_/CHR_/Super; "
            f"tags on input contigs: {len(INPUT_TAG_SETS)} tag sets (Cut alone, Cut + Unloc / Haplotig / Contaminant / FalseDuplicate / Singleton, these words alone, Cut + a chromosome name tag) on the first / every contig of "
            "the sub-texel scaffolds, the last contig of the placed ones, every contig, the first of each scaffold, of two enumerated inputs and of seeded inputs of 2-8 scaffolds, "
            f"input given as objects or as AGP text with tag columns, {stats['cli_unpainted']} unpainted cases of them also through the command line; " + ", ".join(f"{k}={v}" for k, v in stats.items())
        ),
        exhaustive=False,
    )
