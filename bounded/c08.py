"""
C08 bounded tier: an unedited Pretext map (every input scaffold whole, uncut, unpainted, untagged; scaffold ends
rounded to floor or ceil texels; sub-texel scaffolds present or absent) reproduces the input assembly exactly in the
primary output, no other output assembly appears and cuts = breaks = joins = haplotig removals = 0; painting every
scaffold changes only names (prefix + rank by size) and order.

Side conditions taken from the statement: every scaffold of at least one texel has a last contig of at least one
texel; scaffolds begin and end with a contig (an input with terminal gap rows cannot be reproduced "with the same
gaps" without contradicting C07); input names lie outside the generated namespaces and are listed in numeric-aware
order, so that "same order" can be judged literally.
"""

import itertools
import random
from fractions import Fraction

from . import pipeline_gen as pg
from .common import Collector


def in_domain(inp, bpt):
    f = pg.bptF(bpt)
    for s in inp:
        rows = s["rows"]
        if rows[0][0] != "F" or rows[-1][0] != "F":
            return False
        if Fraction(pg.rows_len(rows)) >= f and Fraction(pg.row_len(rows[-1])) < f:
            return False
    return True


def null_map(inp, bpt, roundings, absent, painted, prefix="SUPER_", via="objects"):
    scs = []
    for s, rounding in zip(inp, roundings, strict=True):
        if s["name"] in absent:
            continue
        pcs = pg.pieces_of(s, bpt, rounding, ())
        if pcs:
            scs.append([[*pcs[0], 1, ["Painted"] if painted else []]])
    return {"input": inp, "map": {"bpt": bpt, "scaffolds": scs}, "prefix": prefix, "via": via}


def rows_of(rows):
    return [tuple(r[:5]) if r[0] == "F" else tuple(r) for r in rows]


def problems_of(case, run):
    inp = case["input"]
    out = run.out
    problems = []
    extra = [k for k in out if k is not None]
    if extra:
        problems.append(f"output assemblies other than the primary were produced: {extra!r}")
    if (run.cuts, run.breaks, run.joins) != (0, 0, 0):
        problems.append(f"statistics report cuts={run.cuts} breaks={run.breaks} joins={run.joins}, expected 0/0/0")
    hap_removals = pg.info_yaml(run).get("manual_haplotig_removals") if case.get("yaml") else len(out.get("Haplotig", {"scaffolds": []})["scaffolds"])
    if hap_removals != 0:
        problems.append(f"{hap_removals} haplotig removals reported, expected 0")
    prim = out.get(None)
    if prim is None:
        problems.append("no primary assembly")
        return problems
    got = [(sc["name"], rows_of(sc["rows"])) for sc in prim["scaffolds"]]
    painted_src = {sc[0][0] for sc in case["map"]["scaffolds"] if "Painted" in sc[0][4]}
    if not painted_src:
        want = [(s["name"], rows_of(s["rows"])) for s in inp]
        if got != want:
            if sorted(got) == sorted(want):
                problems.append(f"primary output has the input scaffolds in another order: {[n for n, _ in got]}")
            else:
                for (gn, gr), (wn, wr) in itertools.zip_longest(got, want, fillvalue=(None, None)):
                    if (gn, gr) != (wn, wr):
                        problems.append(f"primary output differs from the input: got scaffold {gn!r} rows {gr}, input has {wn!r} rows {wr}")
                        break
        return problems
    # painted null map: same content, names = prefix + rank by sequence length; unpainted (absent) ones unchanged
    prefix = case["prefix"]
    want_rows = {s["name"]: rows_of(s["rows"]) for s in inp}
    unplaced_want = sorted((n, r) for n, r in want_rows.items() if n not in painted_src)
    chrom = [(n, r) for n, r in got if n.startswith(prefix)]
    unplaced_got = sorted((n, r) for n, r in got if not n.startswith(prefix))
    if unplaced_got != unplaced_want:
        problems.append(f"unpainted scaffolds changed: got {unplaced_got}, expected {unplaced_want}")
    numbers = []
    for n, r in chrom:
        tail = n[len(prefix) :]
        if not tail.isdigit():
            problems.append(f"painted scaffold named {n!r}, expected {prefix}<number>")
            continue
        numbers.append((int(tail), pg.seq_len(r), r))
    numbers.sort(key=lambda x: x[0])
    if [x[0] for x in numbers] != list(range(1, len(painted_src) + 1)):
        problems.append(f"painted scaffolds are numbered {[x[0] for x in numbers]}, expected 1..{len(painted_src)}")
    sizes = [x[1] for x in numbers]
    if sizes != sorted(sizes, reverse=True):
        problems.append(f"chromosome numbers do not follow size: sequence lengths in number order {sizes}")
    if sorted(x[2] for x in numbers) != sorted(want_rows[n] for n in painted_src):
        problems.append("painting changed the content of a scaffold: " + f"got {[x[2] for x in numbers]}, input {[want_rows[n] for n in sorted(painted_src)]}")
    return problems


def check(case, col):
    run = pg.run_case(case)
    if run.error is not None:
        col.fail(f"remapping of an unedited map did not complete ({run.stage}): {run.error_text}", case)
        return
    problems = problems_of(case, run)
    if problems:
        col.fail("; ".join(problems[:3]), case)


def replay(inp):
    col = Collector("replay")
    check(inp, col)
    return col.failures[0]["message"] if col.failures else None


GAPS = (None, (1, "contig"), (10, "scaffold"), (200, "scaffold"))


def shapes(lengths, max_contigs):
    """every scaffold shape: contig lengths x one gap choice x every strand assignment"""
    out = []
    for k in range(1, max_contigs + 1):
        for lt in itertools.product(lengths, repeat=k):
            for g in GAPS if k > 1 else (None,):
                for sp in itertools.product((1, -1), repeat=k):
                    out.append((lt, sp, g))
    return out


def run(tier, seed, **opts):
    rng = random.Random(seed)
    col = Collector(
        "null maps: every input scaffold presented whole at floor or ceil texels, sub-texel scaffolds present or absent, "
        "all unpainted/untagged or all painted; (a) every single-scaffold input of <= 2 contigs over the length set x 4 "
        "texel sizes x floor/ceil x absent/present x painted/unpainted inside the side condition, (b) every ordered pair "
        "of a reduced shape set, (c) seeded inputs of 2-12 scaffolds x <= 4 contigs; three contig naming styles, input via "
        "objects/AGP/TPF; oracle: row-by-row identity with the input; non-trivial = distinct case in which at least one "
        "scaffold's texel rounding is not exact or a scaffold is absent"
    )
    quick = tier == "quick"
    namings = ("own", "fasta", "offset")
    n = 0
    stats = {"single": 0, "pairs": 0, "random": 0, "skipped_outside_domain": 0}

    def one(case, fam, nontrivial):
        nonlocal n
        n += 1
        case["yaml"] = n % 53 == 0
        check(case, col)
        stats[fam] += 1
        col.case(pg.case_key(case), nontrivial=nontrivial, sample={"family": fam, **case} if n % 2999 == 0 else None)

    def inexact(inp, bpt, absent):
        return bool(absent) or any(Fraction(pg.rows_len(s["rows"])) % pg.bptF(bpt) != 0 for s in inp)

    def variants(inp, bpt):
        f = pg.bptF(bpt)
        sub = [s["name"] for s in inp if Fraction(pg.rows_len(s["rows"])) < f]
        rounding_sets = list(itertools.product(("floor", "ceil"), repeat=len(inp))) if len(inp) <= 2 else [tuple(rng.choice(("floor", "ceil")) for _ in inp) for _ in range(2)]
        for roundings in rounding_sets:
            absents = [()]
            if sub:
                absents = [tuple(c) for r in range(len(sub) + 1) for c in itertools.combinations(sub, r)] if len(sub) <= 2 else [(), tuple(sub), tuple(rng.sample(sub, len(sub) // 2))]
            for absent in absents:
                for painted in (False, True):
                    yield roundings, absent, painted

    # (a) single scaffolds, exhaustive over the shape set
    idx = 0
    for lt, sp, g in shapes((1, 2, 7, 40, 150), 2):
        for bpt in pg.BPTS:
            idx += 1
            sc = pg.make_scaffold("scaffold_1", lt, sp, [g] * (len(lt) - 1), namings[idx % 3], tag="1")
            if not in_domain([sc], bpt):
                stats["skipped_outside_domain"] += 1
                continue
            for roundings, absent, painted in variants([sc], bpt):
                case = null_map([sc], bpt, roundings, absent, painted, via=pg.pick_via([sc], idx))
                one(case, "single", inexact([sc], bpt, absent))
        if col.full:
            break
    # (b) ordered pairs of a reduced shape set (all of them in the thorough tier, a seeded third in the quick tier)
    red = shapes((1, 7, 40), 2)
    for (a, b) in itertools.product(red, repeat=2):
        if col.full:
            break
        if quick and rng.random() > 0.12:
            continue
        for bpt in ((rng.choice(pg.BPTS),) if quick else pg.BPTS):
            idx += 1
            inp = [
                pg.make_scaffold("scaffold_1", a[0], a[1], [a[2]] * (len(a[0]) - 1), namings[idx % 3], tag="1"),
                pg.make_scaffold("scaffold_2", b[0], b[1], [b[2]] * (len(b[0]) - 1), namings[(idx // 3) % 3], tag="2"),
            ]
            if not in_domain(inp, bpt):
                stats["skipped_outside_domain"] += 1
                continue
            vs = list(variants(inp, bpt))
            for roundings, absent, painted in (vs if not quick else rng.sample(vs, min(2, len(vs)))):
                one(null_map(inp, bpt, roundings, absent, painted, via=pg.pick_via(inp, idx)), "pairs", inexact(inp, bpt, absent))
    # (c) seeded larger inputs
    for _ in range(1500 if quick else 40000):
        if col.full:
            break
        bpt = rng.choice(pg.BPTS)
        k = rng.choice((2, 3, 3, 4, 5, 12))
        inp = []
        for si in range(k):
            nc = rng.randint(1, 4)
            lt = [rng.choice(pg.LENGTHS[: 5 if k > 5 else 6]) for _ in range(nc)]
            if sum(lt) >= bpt and lt[-1] < bpt:
                lt[-1] = rng.choice([x for x in pg.LENGTHS if x >= bpt][:2])
            gaps = [rng.choice(pg.GAP_CHOICES) for _ in range(nc - 1)]
            sp = [rng.choice((1, -1)) for _ in range(nc)]
            inp.append(pg.make_scaffold(f"scaffold_{si + 1}", lt, sp, gaps, rng.choice(namings), tag=str(si + 1)))
        if not in_domain(inp, bpt):
            stats["skipped_outside_domain"] += 1
            continue
        idx += 1
        prefix = rng.choice(("SUPER_", "SUPER_", "chr", "CHR_"))
        for roundings, absent, painted in variants(inp, bpt):
            one(null_map(inp, bpt, roundings, absent, painted, prefix=prefix, via=pg.pick_via(inp, idx)), "random", inexact(inp, bpt, absent))
    return col.result(
        bounds=(
            "contig lengths {1,2,7,40,150,1000}, gaps none/1/10/20/25/200, both strands, texel sizes {1,2.5,10,33.3}; "
            "single scaffolds of <= 2 contigs: all; pairs of scaffolds over lengths {1,7,40}: all (thorough) / seeded 12 % (quick); "
            "seeded inputs of 2-12 scaffolds x <= 4 contigs; floor/ceil per scaffold, every subset of <= 2 sub-texel scaffolds "
            "absent; prefixes SUPER_/chr/CHR_; " + ", ".join(f"{k}={v}" for k, v in stats.items())
        ),
        exhaustive=False,
    )
