"""
C19 bounded tier: the interval predicates exhaustively over a coordinate range, the all-vs-all scan
and the asm-format --qc-overlaps report against a brute-force oracle written from the statement.

The command line is driven through every way it can be handed an assembly: one file argument, several
file arguments (each its own assembly), STDIN; AGP and TPF input (format from the extension, from
-i, in either case); output to STDOUT or to a file, in each output format; with and without -n; the
flag before or after the other arguments; in process (click's CliRunner) and as a real child process
with a pipe on its standard input.  Whatever the route, the pairs reported on STDERR must be exactly
the brute-force overlapping pairs of each assembly.

The number of pairs is not bounded by the statement, so a few assemblies with many overlapping pairs
(100, 101, 105, 150, 1001, 1035 ...; n mutually overlapping or identical intervals give n(n-1)/2 pairs,
groups on several contigs add up to any count, spread over scaffolds, next to abutting and other-contig
decoys) go through the same routes and through find_overlapping_fragments, against the same oracle:
every pair is named, however many there are.

"For all assemblies" has no clause about an assembly never having been scanned before: an Assembly object is
scanned, edited through the data model (Scaffold.add_row, rows[i] = ..., del rows[i], rows = [...], append_scaffold,
reverse, asm.scaffolds.append / del / = [...], add_scaffold, smart_sort_scaffolds; built with add_scaffold, from the
constructor's list, or in the parser's order: empty scaffold first, rows afterwards) and scanned again, and EVERY scan
must report exactly the overlapping pairs of the rows the assembly holds at that moment (kind "rescan").
"""

import collections
import contextlib
import itertools
import json
import os
import pathlib
import random
import re
import subprocess
import sys
import tempfile

from click.testing import CliRunner

from tola.assembly.assembly import Assembly
from tola.assembly.fragment import Fragment
from tola.assembly.gap import Gap
from tola.assembly.scaffold import Scaffold

from .common import Collector, agp_text


def bases(f):
    return set(range(f.start, f.end + 1))


def check_pair(a, b, col, inp):
    same = a.name == b.name
    common = bases(a) & bases(b) if same else set()
    want_ov = bool(common)
    if a.overlaps(b) is not want_ov:
        col.fail(f"overlaps({a}, {b}) = {a.overlaps(b)}, intervals share {len(common)} bases", inp)
    if a.overlaps(b) != b.overlaps(a):
        col.fail(f"overlaps not symmetric for {a}, {b}", inp)
    want_len = len(common) if common else None
    if a.overlap_length(b) != want_len:
        col.fail(f"overlap_length({a}, {b}) = {a.overlap_length(b)}, intersection has {want_len}", inp)
    if same and not common:
        lo, hi = (a, b) if a.end < b.start else (b, a)
        gap = hi.start - lo.end - 1
    else:
        gap = None
    if a.gap_between(b) != gap:
        col.fail(f"gap_between({a}, {b}) = {a.gap_between(b)}, bases between = {gap}", inp)
    want_abut = same and gap == 0
    if a.abuts(b) is not want_abut:
        col.fail(f"abuts({a}, {b}) = {a.abuts(b)}, expected {want_abut}", inp)
    if same:
        flags = [bool(a.overlaps(b)), bool(a.abuts(b)), bool(a.gap_between(b))]
        if sum(flags) != 1:
            col.fail(f"not exactly one of overlap/abut/positive gap for {a}, {b}: {flags}", inp)


def replay(inp):
    col = Collector("replay")
    if inp["kind"] == "pair":
        a = Fragment(*inp["a"])
        b = Fragment(*inp["b"])
        check_pair(a, b, col, inp)
    elif inp["kind"] == "cli":
        check_cli(inp, col)
    elif inp["kind"] == "rescan":
        check_rescan(inp, col)
    else:
        check_scan(inp["scaffolds"], col, inp, cli=inp.get("cli", False))
    return col.failures[0]["message"] if col.failures else None


def check_scan(scaffolds, col, inp, cli=False):
    asm = Assembly("qc")
    frags = []
    for si, rows in enumerate(scaffolds):
        sc = Scaffold(f"s{si}", [Fragment(*r) for r in rows])
        asm.add_scaffold(sc)
        frags.extend(sc.rows)
    want = set()
    for i, j in itertools.combinations(range(len(frags)), 2):
        if frags[i].name == frags[j].name and bases(frags[i]) & bases(frags[j]):
            want.add((i, j))
    got_pairs = asm.find_overlapping_fragments()
    ident = {id(f): k for k, f in enumerate(frags)}
    got = []
    for p in got_pairs or []:
        i, j = ident[id(p[0][0])], ident[id(p[1][0])]
        got.append((min(i, j), max(i, j)))
    if (got_pairs is None) != (not want):
        col.fail(f"find_overlapping_fragments returned {got_pairs!r} but {len(want)} pairs overlap", inp)
    elif sorted(got) != sorted(want):
        if len(want) <= 12:
            col.fail(f"scan reported pairs {sorted(got)} expected {sorted(want)} (each unordered pair once)", inp)
        else:
            gc, wc = collections.Counter(got), collections.Counter(want)
            name = lambda pr: " / ".join("%s:%d-%d" % tuple(frags[k].key_tuple[:3]) + f" (fragment {k})" for k in pr)  # noqa: E731
            col.fail(
                f"scan reported {len(got)} pairs, {len(want)} pairs of same-contig fragments share a base (each unordered "
                f"pair once); missing e.g. {[name(pr) for pr in sorted((wc - gc))[:3]]}, not expected e.g. "
                f"{[name(pr) for pr in sorted((gc - wc))[:3]]}",
                inp,
            )
    if cli:
        # recorded inputs of the earlier shape: the same assembly as one AGP file argument
        check_cli(cli_input([{"scaffolds": scaffolds, "fmt": "AGP", "ext": ".agp"}], "args"), col)


# ---------------------------------------------------------------------------------------------
# asm-format --qc-overlaps, every input route
#
# An input is {"kind": "cli", "files": [{"scaffolds": [[(contig, start, end, strand), ...], ...],
#   "fmt": "AGP"|"TPF", "ext": ".agp"|".tpf"|".txt"|..., "gaps": bool}, ...],
#   "source": "args"|"stdin", "input_format": None|"AGP"|"tpf"|..., "out": None|"o.agp"|...,
#   "format": None|"AGP"|"TPF"|"STR"|"REPR", "name": None|str, "flag": "first"|"last",
#   "runner": "click"|"process"}
# The text of each file is written here, line by line, from the AGP / TPF layouts (not with the
# package's formatters), and the expected pairs are computed from the same tuples.

AGP_STRAND = {1: "+", -1: "-", 0: "?"}
TPF_STRAND = {1: "PLUS", -1: "MINUS"}


def sc_name(fi, si):
    # unique over all files of one invocation, so that a reported pair identifies its assembly
    return f"f{fi}s{si}"


def file_text(fi, spec):
    lines = []
    if spec.get("gaps"):
        lines.append("# overlap QC input")
    for si, rows in enumerate(spec["scaffolds"]):
        sc, pos, n = sc_name(fi, si), 0, 0
        for ri, (name, s, e, strand) in enumerate(rows):
            if spec.get("gaps") and ri:
                if spec["fmt"] == "AGP":
                    n += 1
                    lines.append(f"{sc}\t{pos + 1}\t{pos + 200}\t{n}\tU\t200\tscaffold\tyes\tproximity_ligation")
                    pos += 200
                else:
                    lines.append("GAP\tTYPE-2\t200")
            if spec["fmt"] == "AGP":
                n += 1
                ln = e - s + 1
                lines.append(f"{sc}\t{pos + 1}\t{pos + ln}\t{n}\tW\t{name}\t{s}\t{e}\t{AGP_STRAND[strand]}")
                pos += ln
            else:
                lines.append(f"?\t{name}:{s}-{e}\t{sc}\t{TPF_STRAND[strand]}")
    return "".join(ln + "\n" for ln in lines)


def expected_pairs(files):
    """multiset of unordered pairs ((scaffold, contig, start, end), (...)): same contig name and at
    least one shared base, both fragments in the same assembly (= the same input file)"""
    want = collections.Counter()
    for fi, spec in enumerate(files):
        frags = [
            (sc_name(fi, si), r[0], r[1], r[2])
            for si, rows in enumerate(spec["scaffolds"])
            for r in rows
        ]
        for x, y in itertools.combinations(frags, 2):
            if x[1] == y[1] and set(range(x[2], x[3] + 1)) & set(range(y[2], y[3] + 1)):
                want[tuple(sorted((x, y)))] += 1
    return want


REPORT_LINE = re.compile(r"(\S+) (.+):(\d+)-(\d+)\(.\)")


def reported_pairs(stderr):
    """(number of 'Overlap:' blocks, multiset of pairs or None if a block could not be read)"""
    n = len(re.findall(r"^Overlap:$", stderr, flags=re.M))
    got = collections.Counter()
    blocks = re.findall(r"^Overlap:\n(.+)\n(.+)$", stderr, flags=re.M)
    if len(blocks) != n:
        return n, None
    for l1, l2 in blocks:
        m1, m2 = REPORT_LINE.match(l1), REPORT_LINE.match(l2)
        if not (m1 and m2):
            return n, None
        pr = [(m.group(1), m.group(2), int(m.group(3)), int(m.group(4))) for m in (m1, m2)]
        got[tuple(sorted(pr))] += 1
    return n, got


def cli_input(files, source, input_format=None, out=None, fmt=None, name=None, flag="first", runner="click"):
    return {
        "kind": "cli",
        "files": files,
        "source": source,
        "input_format": input_format,
        "out": out,
        "format": fmt,
        "name": name,
        "flag": flag,
        "runner": runner,
    }


def src_dir():
    import tola.assembly.scripts.asm_format as m

    return str(pathlib.Path(m.__file__).resolve().parents[3])


WORKDIR = None  # run() sets one temporary directory for all its cases (one per case costs as much as the case)


def check_cli(inp, col):
    from tola.assembly.scripts.asm_format import cli as asm_cli

    files = inp["files"]
    want = expected_pairs(files)
    with tempfile.TemporaryDirectory(dir=WORKDIR) if WORKDIR is None else contextlib.nullcontext(WORKDIR) as d:
        d = pathlib.Path(d)
        opts = []
        if inp.get("input_format"):
            opts += ["-i", inp["input_format"]]
        if inp.get("out"):
            opts += ["-o", str(d / inp["out"])]
        if inp.get("format"):
            opts += ["-f", inp["format"]]
        if inp.get("name"):
            opts += ["-n", inp["name"]]
        paths, stdin_text = [], None
        if inp["source"] == "stdin":
            stdin_text = file_text(0, files[0])
        else:
            for fi, spec in enumerate(files):
                pth = d / f"in{fi}{spec['ext']}"
                pth.write_text(file_text(fi, spec))
                paths.append(str(pth))
        args = ["--qc-overlaps", *opts, *paths] if inp.get("flag", "first") == "first" else [*opts, *paths, "--qc-overlaps"]
        shown = " ".join(a.replace(str(d) + "/", "") for a in args)
        how = (
            f"{files[0]['fmt']} on STDIN"
            if stdin_text is not None
            else "file arguments " + ", ".join(f"{s['fmt']} in{fi}{s['ext']}" for fi, s in enumerate(files))
        )
        how += ", child process" if inp.get("runner") == "process" else ""
        if inp.get("runner") == "process":
            env = dict(os.environ)
            env["PYTHONPATH"] = os.pathsep.join([src_dir()] + [p for p in env.get("PYTHONPATH", "").split(os.pathsep) if p])
            res = subprocess.run(
                [sys.executable, "-m", "tola.assembly.scripts.asm_format", *args],
                input=stdin_text if stdin_text is not None else "",
                capture_output=True,
                text=True,
                cwd=d,
                env=env,
                timeout=120,
            )
            code, err, exc = res.returncode, res.stderr, res.stderr[-300:]
        else:
            from click.testing import CliRunner

            res = CliRunner().invoke(asm_cli, args, input=stdin_text)
            code, err, exc = res.exit_code, res.stderr, repr(res.exception)
        if WORKDIR is not None:
            for pth in d.iterdir():
                pth.unlink()
    if code != 0:
        col.fail(f"asm-format {shown} ({how}) failed with status {code}: {exc}", inp)
        return
    n, got = reported_pairs(err)
    n_want = sum(want.values())
    if n != n_want:
        tail = [ln for ln in err.splitlines() if ln.strip()]
        named = set(got or ())
        lost = collections.Counter({k: v for k, v in want.items() if k not in named})
        col.fail(
            f"asm-format {shown} ({how}) reported {n} overlaps on STDERR, {n_want} pairs of same-contig fragments "
            "share a base within an assembly"
            + (f": {fmt_pairs(want)}" if len(want) <= 6 else "")
            + (f"; never named: {fmt_pairs(lost)}" if got is not None and lost and len(want) > 6 else "")
            + (f"; STDERR ends with {tail[-1]!r}" if tail and len(want) > 6 else ""),
            inp,
        )
    elif got is not None and got != want:
        col.fail(
            f"asm-format {shown} ({how}) reported the wrong pairs: missing {fmt_pairs(want - got)}, "
            f"not overlapping (or not in one assembly) {fmt_pairs(got - want)}",
            inp,
        )


def fmt_pairs(counter):
    return "[" + "; ".join(
        f"{a[0]} {a[1]}:{a[2]}-{a[3]} / {b[0]} {b[1]}:{b[2]}-{b[3]}" + (f" x{k}" if k > 1 else "")
        for (a, b), k in sorted(counter.items())[:6]
    ) + ("; ..." if len(counter) > 6 else "") + "]"


# ---------------------------------------------------------------------------------------------
# scans repeated on ONE Assembly object, with edits in between
#
# An input is {"kind": "rescan", "scaffolds": [[row, ...], ...], "build": "add"|"ctor"|"parser",
#   "scans": "every"|"ends"|"last", "steps": [step, ...]}; a row is [contig, start, end, strand] or ["GAP", length];
# a step is one edit through the public data model (indices refer to the assembly as it is at that step):
#   ["scan"]                          no edit (scanning twice gives the same answer)
#   ["add_row", si, row]              asm.scaffolds[si].add_row(row)
#   ["set_row", si, ri, row]          asm.scaffolds[si].rows[ri] = row
#   ["insert_row", si, ri, row]       asm.scaffolds[si].rows.insert(ri, row)
#   ["del_row", si, ri]               del asm.scaffolds[si].rows[ri]
#   ["assign_rows", si, rows]         asm.scaffolds[si].rows = [rows]
#   ["list_append", rows]             asm.scaffolds.append(Scaffold(new name, rows))
#   ["add_scaffold", rows]            asm.add_scaffold(Scaffold(new name, rows))
#   ["list_del", si]                  del asm.scaffolds[si]
#   ["list_assign", [si, ...]]        asm.scaffolds = [asm.scaffolds[si], ...]
#   ["sort"]                          asm.smart_sort_scaffolds()
#   ["reverse", si]                   asm.scaffolds[si] = asm.scaffolds[si].reverse()
#   ["join", si, sj, gap, keep]       asm.scaffolds[si].append_scaffold(asm.scaffolds[sj], gap); del asm.scaffolds[sj] unless keep
# "scans": a scan after the build and after every step / after the build and after the last step / after the last step only.
# The expected pairs are read off the rows the Scaffold objects of asm.scaffolds hold when the scan is made
# (placements = (Fragment object, Scaffold object); same contig name and at least one common base).


def row_obj(row):
    return Gap(row[1], "scaffold") if row[0] == "GAP" else Fragment(*row)


def show_step(step):
    def rw(r):
        return f"Gap:{r[1]}" if r[0] == "GAP" else f"{r[0]}:{r[1]}-{r[2]}({'.+-'[r[3]]})"

    op, a = step[0], step[1:]
    if op == "scan":
        return "no edit"
    if op == "add_row":
        return f"scaffolds[{a[0]}].add_row({rw(a[1])})"
    if op == "set_row":
        return f"scaffolds[{a[0]}].rows[{a[1]}] = {rw(a[2])}"
    if op == "insert_row":
        return f"scaffolds[{a[0]}].rows.insert({a[1]}, {rw(a[2])})"
    if op == "del_row":
        return f"del scaffolds[{a[0]}].rows[{a[1]}]"
    if op == "assign_rows":
        return f"scaffolds[{a[0]}].rows = [{', '.join(rw(r) for r in a[1])}]"
    if op in ("list_append", "add_scaffold"):
        call = "asm.scaffolds.append" if op == "list_append" else "asm.add_scaffold"
        return f"{call}(Scaffold([{', '.join(rw(r) for r in a[0])}]))"
    if op == "list_del":
        return f"del asm.scaffolds[{a[0]}]"
    if op == "list_assign":
        return f"asm.scaffolds = [scaffolds[i] for i in {a[0]}]"
    if op == "sort":
        return "asm.smart_sort_scaffolds()"
    if op == "reverse":
        return f"scaffolds[{a[0]}] = scaffolds[{a[0]}].reverse()"
    if op == "join":
        return f"scaffolds[{a[0]}].append_scaffold(scaffolds[{a[1]}]{', gap' if a[2] else ''})" + ("" if a[3] else f"; del asm.scaffolds[{a[1]}]")
    raise ValueError(op)


def apply_step(asm, step, fresh):
    """one edit on the real objects; `fresh` hands out names for new scaffolds"""
    op, a = step[0], step[1:]
    scs = asm.scaffolds
    if op == "scan":
        pass
    elif op == "add_row":
        scs[a[0]].add_row(row_obj(a[1]))
    elif op == "set_row":
        scs[a[0]].rows[a[1]] = row_obj(a[2])
    elif op == "insert_row":
        scs[a[0]].rows.insert(a[1], row_obj(a[2]))
    elif op == "del_row":
        del scs[a[0]].rows[a[1]]
    elif op == "assign_rows":
        scs[a[0]].rows = [row_obj(r) for r in a[1]]
    elif op == "list_append":
        scs.append(Scaffold(next(fresh), [row_obj(r) for r in a[0]]))
    elif op == "add_scaffold":
        asm.add_scaffold(Scaffold(next(fresh), [row_obj(r) for r in a[0]]))
    elif op == "list_del":
        del scs[a[0]]
    elif op == "list_assign":
        asm.scaffolds = [scs[i] for i in a[0]]
    elif op == "sort":
        asm.smart_sort_scaffolds()
    elif op == "reverse":
        scs[a[0]] = scs[a[0]].reverse()
    elif op == "join":
        scs[a[0]].append_scaffold(scs[a[1]], Gap(200, "scaffold") if a[2] else None)
        if not a[3]:
            del scs[a[1]]
    else:
        raise ValueError(op)


def model_start(scaffolds):
    """plain model of an assembly: ([[scaffold name, rows], ...], number of scaffolds made by edits so far)"""
    return [[f"s{si:02d}", list(rows)] for si, rows in enumerate(scaffolds)], 0


def model_rows(state):
    return [rows for _, rows in state[0]]


def model_step(state, step):
    """the same edit on the plain model (only used by the generators, to keep indices valid)"""
    op, a = step[0], step[1:]
    st = [[nm, list(rows)] for nm, rows in state[0]]
    fresh = state[1]
    if op == "add_row":
        st[a[0]][1].append(a[1])
    elif op == "set_row":
        st[a[0]][1][a[1]] = a[2]
    elif op == "insert_row":
        st[a[0]][1].insert(a[1], a[2])
    elif op == "del_row":
        del st[a[0]][1][a[1]]
    elif op == "assign_rows":
        st[a[0]][1] = list(a[1])
    elif op in ("list_append", "add_scaffold"):
        st.append([f"n{fresh:02d}", list(a[0])])
        fresh += 1
    elif op == "list_del":
        del st[a[0]]
    elif op == "list_assign":
        st = [st[i] for i in a[0]]
    elif op == "sort":
        st.sort(key=lambda sc: sc[0])  # stable, all ranks equal; the names are made so that every natural order agrees
    elif op == "reverse":
        st[a[0]][1] = [r if r[0] == "GAP" else [r[0], r[1], r[2], -r[3]] for r in reversed(st[a[0]][1])]
    elif op == "join":
        st[a[0]][1] = st[a[0]][1] + ([["GAP", 200]] if a[2] and st[a[0]][1] else []) + st[a[1]][1]
        if not a[3]:
            del st[a[1]]
    return st, fresh


def build_assembly(scaffolds, build):
    scs = [Scaffold(f"s{si:02d}", [row_obj(r) for r in rows]) for si, rows in enumerate(scaffolds)]
    if build == "ctor":
        return Assembly("qc", scaffolds=scs)
    asm = Assembly("qc")
    if build == "parser":  # parse_agp / parse_tpf register a scaffold when its first line is met and fill it afterwards
        for sc in scs:
            rows, sc.rows = sc.rows, []
            asm.add_scaffold(sc)
            for r in rows:
                sc.add_row(r)
    else:
        for sc in scs:
            asm.add_scaffold(sc)
    return asm


def scan_now(asm):
    """(problem text or None, number of overlapping pairs) of one scan against the rows held at this moment"""
    placed = [(f, sc) for sc in asm.scaffolds for f in sc.rows if isinstance(f, Fragment)]
    key = lambda v: (id(v[0]), id(v[1]))  # noqa: E731
    label = {}
    for f, sc in placed:
        label[key((f, sc))] = f"{sc.name} {f.name}:{f.start}-{f.end}"
    want = collections.Counter()
    for x, y in itertools.combinations(placed, 2):
        if x[0].name == y[0].name and bases(x[0]) & bases(y[0]):
            want[tuple(sorted((key(x), key(y))))] += 1
    got_pairs = asm.find_overlapping_fragments()
    got = collections.Counter()
    gone = []
    for v1, v2 in got_pairs or []:
        for v in (v1, v2):
            if key(v) not in label:
                label[key(v)] = f"{v[1].name} {v[0].name}:{v[0].start}-{v[0].end}"
                gone.append(label[key(v)])
        got[tuple(sorted((key(v1), key(v2))))] += 1
    n_want = sum(want.values())

    def show(counter):
        prs = sorted(" / ".join(sorted((label[a], label[b]))) + (f" x{k}" if k > 1 else "") for (a, b), k in counter.items())
        return "[" + "; ".join(prs[:6]) + ("; ..." if len(prs) > 6 else "") + "]"

    if (got_pairs is None) != (not want) or got != want:
        txt = (
            f"find_overlapping_fragments returned {'None' if got_pairs is None else str(sum(got.values())) + ' pairs'}, the rows "
            f"the assembly holds at that moment have {n_want} pairs of same-contig fragments sharing a base: missing "
            f"{show(want - got)}, reported but not overlapping rows of the assembly {show(got - want)}"
        )
        if gone:
            txt += f" ({len(gone)} reported fragments are no rows of the assembly (any more), e.g. {gone[0]})"
        return txt, n_want
    return None, n_want


def check_rescan(inp, col):
    """-> list of the numbers of overlapping pairs at each scan"""
    fresh = (f"n{k:02d}" for k in itertools.count())
    asm = build_assembly(inp["scaffolds"], inp.get("build", "add"))
    steps = inp["steps"]
    scans = inp.get("scans", "every")
    counts = []
    n_scan = 0
    done = "the build"
    for k in range(len(steps) + 1):
        if k:
            apply_step(asm, steps[k - 1], fresh)
            done = "; ".join(show_step(s) for s in steps[:k])
        if k == len(steps) or scans == "every" or (scans == "ends" and k == 0):
            n_scan += 1
            problem, n = scan_now(asm)
            counts.append(n)
            if problem:
                col.fail(
                    f"scan {n_scan} of one Assembly object (built by {inp.get('build', 'add')}; before this scan: {done}; "
                    f"{n_scan - 1} earlier scans of the object): {problem}",
                    inp,
                )
                break
    return counts


# rows used by the edits: one that overlaps most of the pool's c intervals, one beyond all of them, another contig
ROW_HIT = ["c", 4, 5, 1]
ROW_FAR = ["c", 8, 9, -1]
ROW_D = ["d", 2, 2, 0]
ROW_GAP = ["GAP", 10]


def step_menu(state, full):
    """edits applicable to `state` (plain rows per scaffold): every kind of edit, at the first and the last scaffold"""
    n = len(state)
    ends = sorted({0, n - 1}) if n else []
    menu = [["scan"], ["list_append", [ROW_HIT]], ["add_scaffold", [ROW_HIT]], ["add_scaffold", []]]
    if full:
        menu += [["list_append", [ROW_FAR, ROW_D]], ["list_append", []], ["add_scaffold", [ROW_FAR]]]
    for si in ends:
        rows = state[si]
        menu.append(["add_row", si, ROW_HIT])
        if full or si == 0:
            menu.append(["add_row", si, ROW_FAR])
        fi = [i for i, r in enumerate(rows) if r[0] != "GAP"]
        if fi:
            menu.append(["set_row", si, fi[0], ROW_HIT])
            menu.append(["set_row", si, fi[-1], ROW_FAR])
            menu.append(["del_row", si, fi[-1]])
            if full:
                menu.append(["del_row", si, fi[0]])
                menu.append(["set_row", si, fi[-1], ROW_D])
        if full:
            menu.append(["add_row", si, ROW_D])
    if n:
        menu += [["add_row", 0, ROW_GAP], ["insert_row", 0, 0, ROW_HIT], ["assign_rows", n - 1, [ROW_HIT, ROW_FAR]]]
        menu += [["assign_rows", 0, []], ["list_del", 0], ["list_assign", list(range(n - 1, -1, -1))], ["list_assign", [0]]]
        menu += [["sort"], ["reverse", 0]]
        if full:
            menu += [["reverse", n - 1], ["list_del", n - 1], ["list_assign", []], ["insert_row", n - 1, len(state[n - 1]), ROW_FAR]]
    if n > 1:
        menu += [["join", 0, n - 1, True, False], ["join", n - 1, 0, False, True]]
        if full:
            menu += [["join", 0, n - 1, False, False], ["join", 0, 1, True, True]]
    out, seen = [], set()
    for st in menu:
        k = json.dumps(st)
        if k not in seen:
            seen.add(k)
            out.append(st)
    return out


RESCAN_BASES = (
    [[["c", 1, 4, 1], ["GAP", 10], ["d", 1, 4, 1]], [["c", 5, 6, -1], ["c", 7, 7, 1]]],  # no pair
    [[["c", 1, 4, 1], ["c", 4, 6, -1], ["d", 1, 4, 1]], [["d", 2, 3, 1], ["c", 7, 7, 1]]],  # two pairs (ASM_TWO)
    [[["c", 1, 4, 1]], [["c", 1, 4, 1], ["c", 1, 7, -1]]],  # identical intervals (ASM_DUP)
    [[["c", 2, 3, 0]]],
    [],
)


def rescan_sequences(state, depth, full):
    """every sequence of 1..depth edits from the menus (each menu taken at the state its predecessors lead to), shortest first"""
    level = [([], model_start(state))]
    for _ in range(depth):
        nxt = []
        for steps, st in level:
            for step in step_menu(model_rows(st), full):
                yield [*steps, step]
                nxt.append(([*steps, step], model_step(st, step)))
        level = nxt


def rescan_cases(tier, rng):
    quick = tier == "quick"
    bases_ = RESCAN_BASES[:3] if quick else RESCAN_BASES
    for bi, base in enumerate(bases_):
        for build in ("add", "ctor", "parser"):
            if quick and build != ("add", "ctor", "parser")[bi % 3] and bi != 1:
                continue
            for steps in rescan_sequences(base, 2, full=not quick):
                for scans in ("every", "ends", "last") if len(steps) > 1 else ("every", "last"):
                    if quick and scans != "every" and (build != "add" or bi != 1):
                        continue
                    yield {"kind": "rescan", "scaffolds": base, "build": build, "scans": scans, "steps": steps}
    if quick:
        return
    # three edits in a row: the reduced menu on two assemblies
    for base in RESCAN_BASES[1:3]:
        for build in ("add", "ctor"):
            for steps in rescan_sequences(base, 3, full=False):
                if len(steps) == 3:
                    yield {"kind": "rescan", "scaffolds": base, "build": build, "scans": "every", "steps": steps}
    # long seeded edit histories on assemblies with many overlapping pairs
    for ci in range(400):
        base = big_assembly(rng.randint(3, 60), rng.randint(1, 4), ci % 3 == 0, rng)
        model, steps = model_start(base), []
        names = sorted({r[0] for rows in base for r in rows})
        for _ in range(rng.randint(3, 12)):
            state = model_rows(model)
            n = len(state)
            nm = rng.choice(names)
            a = rng.randint(1, 70)
            row = [nm, a, a + rng.randint(0, 30), rng.choice((1, -1, 0))]
            si = rng.randrange(n) if n else 0
            cands = [["scan"], ["list_append", [row]], ["add_scaffold", [row]], ["add_scaffold", []], ["sort"]]
            if n:
                cands += [["add_row", si, row], ["add_row", si, row], ["reverse", si], ["list_del", si], ["assign_rows", si, [row]]]
                cands += [["list_assign", rng.sample(range(n), rng.randint(0, n))]]
                if state[si]:
                    ri = rng.randrange(len(state[si]))
                    cands += [["set_row", si, ri, row], ["set_row", si, ri, row], ["del_row", si, ri], ["insert_row", si, ri, row]]
            if n > 1:
                sj = rng.choice([j for j in range(n) if j != si])
                cands += [["join", si, sj, rng.random() < 0.5, False]]
            st = rng.choice(cands)
            steps.append(st)
            model = model_step(model, st)
        yield {"kind": "rescan", "scaffolds": base, "build": rng.choice(("add", "ctor", "parser")), "scans": rng.choice(("every", "every", "ends")), "steps": steps}


# fixed assemblies for the route product: no overlap at all (abutting, disjoint, same coordinates on
# another contig); a one-base overlap inside a scaffold plus a nested interval across scaffolds;
# identical intervals three times (three pairs); unknown strand (AGP only)
ASM_NONE = [[("c", 1, 4, 1), ("d", 1, 4, 1), ("c", 5, 6, -1)], [("c", 7, 7, 1)]]
ASM_TWO = [[("c", 1, 4, 1), ("c", 4, 6, -1), ("d", 1, 4, 1)], [("d", 2, 3, 1), ("c", 7, 7, 1)]]
ASM_DUP = [[("c", 1, 4, 1)], [("c", 1, 4, 1), ("c", 1, 7, -1)]]
ASM_UNK = [[("c", 1, 4, 0), ("c", 2, 3, 1), ("c", 5, 5, 0)]]

OUTS = (
    (None, None),
    ("o.agp", None),
    ("o.tpf", None),
    (None, "STR"),
    (None, "REPR"),
    (None, "TPF"),
    ("o.txt", "AGP"),
)


def big_assembly(n_pairs, n_scaffolds, identical, rng):
    """
    scaffolds whose fragments hold exactly n_pairs overlapping same-contig pairs: n_pairs is split into
    triangular numbers, each a group of n mutually overlapping intervals on its own contig (shifted by one
    base each, or n copies of one interval), plus per group two abutting same-contig intervals and the same
    coordinates on another contig (no pair); shuffled and dealt over the scaffolds
    """
    frags, left, g = [], n_pairs, 0
    while left > 0:
        n = 2
        while (n + 1) * n // 2 <= left:
            n += 1
        left -= n * (n - 1) // 2
        ln = n + 50
        for j in range(n):
            st = 10 if identical else 10 + j
            frags.append((f"k{g}", st, st + ln - 1, -1 if j % 3 == 0 else 1))
        hi = max(f[2] for f in frags if f[0] == f"k{g}")
        frags += [(f"k{g}", 1, 9, 1), (f"k{g}", hi + 1, hi + 5, -1), (f"z{g}", 10, ln + 9, 1)]
        g += 1
    rng.shuffle(frags)
    scaffolds = [frags[i::n_scaffolds] for i in range(n_scaffolds)]
    return [[list(f) for f in sc] for sc in scaffolds if sc]


def big_cases(tier, rng, routes):
    """(scaffolds, cli inputs) for assemblies with many overlapping pairs"""
    small = {"scaffolds": ASM_NONE, "fmt": "TPF", "ext": ".tpf"}

    def one(k, nsc, ident, source="args", fmt="AGP", ext=None, ifmt=None, out=None, ofmt=None, runner="click", more=()):
        scs = big_assembly(k, nsc, ident, rng)
        if sum(expected_pairs([{"scaffolds": scs}]).values()) != k:
            raise AssertionError(f"generator: assembly built for {k} overlapping pairs does not hold that many")
        files = [{"scaffolds": scs, "fmt": fmt, "ext": ("." + fmt.lower()) if ext is None else ext, "gaps": k % 2 == 1}, *more]
        return scs, cli_input(files, source, ifmt, out, ofmt, None, "first" if k % 2 else "last", runner)

    yield one(100, 3, False)
    yield one(101, 3, False)
    yield one(101, 1, True, source="stdin", ext="")
    yield one(101, 2, False, fmt="TPF", ext=".txt", ifmt="tpf")
    yield one(105, 2, True, out="o.agp")
    yield one(150, 4, True, fmt="TPF")
    yield one(1001, 5, False, source="stdin", fmt="TPF", ext="", ifmt="TPF")
    yield one(1035, 2, False, ofmt="STR")
    yield one(101, 2, False, more=(small,))
    yield one(150, 3, True, fmt="TPF", more=({"scaffolds": big_assembly(101, 2, False, rng), "fmt": "AGP", "ext": ".agp"},))
    yield one(120, 1, False, source="stdin", ext="", runner="process")
    if tier == "quick":
        return
    counts = [99, 102, 103, 199, 200, 201, 256, 257, 500, 501, 990, 999, 1000, 1002, 2000, 2001, 5050, 10001]
    counts += [rng.randint(101, 3000) for _ in range(20)]
    for ci, k in enumerate(counts):
        source, fmt, fext, ifmt, out, ofmt, _name, _flag = routes[(ci * 37) % len(routes)]
        yield one(k, 1 + ci % 5, ci % 3 == 0, source=source, fmt=fmt, ext=fext or "", ifmt=ifmt, out=out, ofmt=ofmt)
    yield one(300, 2, False, runner="process", more=(small,))


def single_routes():
    """every way of handing ONE assembly to the command: (source, fmt, ext, input_format, out, format, name, flag)"""
    routes = []
    for fmt in ("AGP", "TPF"):
        ext = "." + fmt.lower()
        # file argument: format from the extension, from -i (neutral or misleading extension), both
        other = ".tpf" if fmt == "AGP" else ".agp"
        via = [("args", ext, None), ("args", ".txt", fmt), ("args", ".txt", fmt.lower()), ("args", ext, fmt), ("args", other, fmt)]
        if fmt == "AGP":
            via.append(("args", ".txt", None))  # unknown extension defaults to AGP
            via.append(("stdin", None, None))  # STDIN defaults to AGP
        via += [("stdin", None, fmt), ("stdin", None, fmt.lower())]
        for (source, fext, ifmt), (out, ofmt), name, flag in itertools.product(via, OUTS, (None, "nm"), ("first", "last")):
            routes.append((source, fmt, fext, ifmt, out, ofmt, name, flag))
    return routes


def route_input(route, scaffolds, gaps=False, runner="click"):
    source, fmt, fext, ifmt, out, ofmt, name, flag = route
    files = [{"scaffolds": scaffolds, "fmt": fmt, "ext": fext or "", "gaps": gaps}]
    return cli_input(files, source, ifmt, out, ofmt, name, flag, runner)


def multi_inputs(tier):
    """several file arguments: each is its own assembly; formats mixed (by extension) or forced by -i"""
    combos2 = [(ASM_NONE, ASM_TWO), (ASM_TWO, ASM_NONE), (ASM_TWO, ASM_DUP), (ASM_TWO, ASM_TWO)]
    combos3 = [(ASM_TWO, ASM_NONE, ASM_DUP), (ASM_NONE, ASM_NONE, ASM_TWO), (ASM_DUP, ASM_TWO, ASM_TWO)]
    outs = OUTS if tier != "quick" else OUTS[:2] + OUTS[3:4]
    for combo in combos2 + combos3:
        for fmts in itertools.product(("AGP", "TPF"), repeat=len(combo)):
            for oi, ((out, ofmt), flag) in enumerate(itertools.product(outs, ("first", "last"))):
                if tier == "quick" and oi % 2 != len(combo) % 2:
                    continue
                files = [{"scaffolds": a, "fmt": f, "ext": "." + f.lower(), "gaps": fi % 2 == 1} for fi, (a, f) in enumerate(zip(combo, fmts))]
                yield cli_input(files, "args", None, out, ofmt, None, flag)
                if len(set(fmts)) == 1:
                    files = [dict(f, ext=".txt") for f in files]
                    yield cli_input(files, "args", fmts[0], out, ofmt, "nm", flag)


def cli_case(inp, col, sample=False):
    check_cli(inp, col)
    n_pairs = sum(expected_pairs(inp["files"]).values())
    col.case(("cli", json.dumps(inp, sort_keys=True)), nontrivial=n_pairs > 0, sample=inp if sample else None)


def run(tier, seed, **opts):
    global WORKDIR
    with tempfile.TemporaryDirectory() as d:
        WORKDIR = d
        try:
            return run_in(tier, seed, **opts)
        finally:
            WORKDIR = None


def run_in(tier, seed, **opts):
    rng = random.Random(seed)
    N = 6 if tier == "quick" else 9
    col = Collector(
        f"all pairs of intervals within 1..{N} (same and different name, strands +/-/?), and all-vs-all scans of "
        "small assemblies with duplicate/nested/abutting/disjoint intervals; asm-format --qc-overlaps over the "
        "product of input routes (file argument / several files / STDIN, AGP / TPF by extension or -i, output to "
        "STDOUT or a file in each format, -n, flag position; in process and as a child process) on fixed assemblies "
        "with 0, 2 and 3 overlapping pairs, and on every k-th enumerated assembly with the routes taken in rotation; "
        "a few assemblies with many overlapping pairs (100, 101, 105, 150, 1001, 1035; thorough: up to 10001 and random "
        "counts) built from groups of mutually overlapping or identical intervals, through the scan and the command line; "
        "scans repeated on one Assembly object with edits in between (every sequence of <= 2 edits from a menu of every kind "
        "of edit the data model offers, on assemblies with 0, 2 and 3 pairs built with add_scaffold / the constructor / in "
        "parser order; thorough: fuller menu, 3 edits, long seeded histories), each scan judged against the rows held at "
        "that moment; "
        "non-trivial = distinct (input) tuples (for the command line: at least one overlapping pair expected; for repeated "
        "scans: the number of overlapping pairs differs between two scans)",
        max_samples=8,
    )
    ivs = [(s, e) for s in range(1, N + 1) for e in range(s, N + 1)]
    for (s1, e1), (s2, e2) in itertools.product(ivs, ivs):
        for n2, st1, st2 in (("c", 1, 1), ("c", 1, -1), ("d", 1, 1), ("c", 0, -1)):
            a, b = ("c", s1, e1, st1), (n2, s2, e2, st2)
            inp = {"kind": "pair", "a": a, "b": b}
            check_pair(Fragment(*a), Fragment(*b), col, inp)
            col.case((a, b), sample=inp if (s1, e1, s2, e2) == (2, 4, 3, 5) else None)
    # scans
    pool = [("c", 1, 4, 1), ("c", 2, 3, 1), ("c", 4, 6, -1), ("c", 5, 6, 1), ("c", 1, 4, 1), ("d", 1, 4, 1), ("c", 7, 7, 1), ("c", 1, 7, -1)]
    max_n = 4 if tier == "quick" else 5
    count = 0
    # the command line: every single-assembly route on the fixed assemblies
    routes = single_routes()
    for ri, route in enumerate(routes):
        asms = (ASM_TWO, ASM_NONE, ASM_DUP) + ((ASM_UNK,) if route[1] == "AGP" else ())
        if tier == "quick":  # every route sees overlapping pairs; the other assemblies in rotation
            asms = (ASM_TWO, asms[1 + ri % (len(asms) - 1)])
        for ai, scs in enumerate(asms):
            cli_case(route_input(route, scs, gaps=(ri + ai) % 2 == 1), col, sample=(ri == 40 and ai == 0))
    for mi, inp in enumerate(multi_inputs(tier)):
        cli_case(inp, col, sample=mi == 7)
    # ... and as a real child process with a pipe on STDIN (a few in quick, a spread of routes in thorough)
    proc_routes = [r for r in routes if r[4:] == (None, None, None, "first") and r[2] in (None, ".agp", ".tpf") and r[3] in (None, "TPF")]
    if tier != "quick":
        proc_routes += routes[7::23]
    for route in proc_routes:
        cli_case(route_input(route, ASM_TWO, runner="process"), col)
    two = [{"scaffolds": ASM_NONE, "fmt": "AGP", "ext": ".agp"}, {"scaffolds": ASM_DUP, "fmt": "TPF", "ext": ".tpf"}]
    cli_case(cli_input(two, "args", runner="process"), col)
    # many overlapping pairs: through the scan and through the command line
    for bi, (scs, inp) in enumerate(big_cases(tier, rng, routes)):
        sinp = {"kind": "scan", "scaffolds": scs, "cli": False}
        check_scan(scs, col, sinp)
        col.case(("scan", tuple(tuple(map(tuple, s)) for s in scs)))
        cli_case(inp, col, sample=False)
        if col.full:
            break
    every = 41 if tier == "quick" else 13
    rot = 0
    for n in range(1, max_n + 1):
        for combo in itertools.product(range(len(pool)), repeat=n):
            rows = [pool[i] for i in combo]
            for split in range(0, n + 1, max(1, n // 2)):
                scs = [rows[:split], rows[split:]] if 0 < split < n else [rows]
                scs = [s for s in scs if s]
                inp = {"kind": "scan", "scaffolds": scs, "cli": False}
                check_scan(scs, col, inp)
                col.case(("scan", tuple(map(tuple, scs))), nontrivial=n > 1, sample=inp if count == 500 else None)
                if count % every == 0:
                    # the same assembly through the command line, routes in rotation (stride coprime to their number)
                    cli_case(route_input(routes[(rot * 37) % len(routes)], [list(map(list, s)) for s in scs], gaps=rot % 3 == 0), col)
                    rot += 1
                count += 1
            if col.full:
                break
    # scans repeated on one Assembly object, edits in between
    for ri, inp in enumerate(rescan_cases(tier, rng) if not col.full else ()):
        counts = check_rescan(inp, col)
        col.case(("rescan", json.dumps(inp, sort_keys=True)), nontrivial=len(set(counts)) > 1, sample=inp if ri == 333 else None)
        if col.full:
            break
    return col.result(
        bounds=f"coordinates 1..{N}; assemblies of <= {max_n} fragments from a pool of {len(pool)}; repeated scans: <= "
        f"{2 if tier == 'quick' else 3} edits from the menu (thorough: seeded histories of <= 12 edits)",
        exhaustive=True,
    )
