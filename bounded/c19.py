"""
C19 bounded tier: the interval predicates exhaustively over a coordinate range, the all-vs-all scan
and the asm-format --qc-overlaps report against a brute-force oracle written from the statement.
"""

import itertools
import random
import re

from click.testing import CliRunner

from tola.assembly.assembly import Assembly
from tola.assembly.fragment import Fragment
from tola.assembly.scaffold import Scaffold

from .common import Collector, agp_text


def bases(f):
    return set(range(f.start, f.end + 1))


def check_pair(a, b, col, inp):
    same = a.name == b.name
    common = bases(a) & bases(b) if same else set()
    want_ov = bool(common)
    if a.overlaps(b) is not want_ov:
        col.fail(f"overlaps({a}, {b}) = {a.overlaps(b)}, intervals share {len(common)} bases", inp)
    if a.overlaps(b) != b.overlaps(a):
        col.fail(f"overlaps not symmetric for {a}, {b}", inp)
    want_len = len(common) if common else None
    if a.overlap_length(b) != want_len:
        col.fail(f"overlap_length({a}, {b}) = {a.overlap_length(b)}, intersection has {want_len}", inp)
    if same and not common:
        lo, hi = (a, b) if a.end < b.start else (b, a)
        gap = hi.start - lo.end - 1
    else:
        gap = None
    if a.gap_between(b) != gap:
        col.fail(f"gap_between({a}, {b}) = {a.gap_between(b)}, bases between = {gap}", inp)
    want_abut = same and gap == 0
    if a.abuts(b) is not want_abut:
        col.fail(f"abuts({a}, {b}) = {a.abuts(b)}, expected {want_abut}", inp)
    if same:
        flags = [bool(a.overlaps(b)), bool(a.abuts(b)), bool(a.gap_between(b))]
        if sum(flags) != 1:
            col.fail(f"not exactly one of overlap/abut/positive gap for {a}, {b}: {flags}", inp)


def replay(inp):
    col = Collector("replay")
    if inp["kind"] == "pair":
        a = Fragment(*inp["a"])
        b = Fragment(*inp["b"])
        check_pair(a, b, col, inp)
    else:
        check_scan(inp["scaffolds"], col, inp, cli=inp.get("cli", False))
    return col.failures[0]["message"] if col.failures else None


def check_scan(scaffolds, col, inp, cli=False):
    asm = Assembly("qc")
    frags = []
    for si, rows in enumerate(scaffolds):
        sc = Scaffold(f"s{si}", [Fragment(*r) for r in rows])
        asm.add_scaffold(sc)
        frags.extend(sc.rows)
    want = set()
    for i, j in itertools.combinations(range(len(frags)), 2):
        if frags[i].name == frags[j].name and bases(frags[i]) & bases(frags[j]):
            want.add((i, j))
    got_pairs = asm.find_overlapping_fragments()
    ident = {id(f): k for k, f in enumerate(frags)}
    got = []
    for p in got_pairs or []:
        i, j = ident[id(p[0][0])], ident[id(p[1][0])]
        got.append((min(i, j), max(i, j)))
    if (got_pairs is None) != (not want):
        col.fail(f"find_overlapping_fragments returned {got_pairs!r} but {len(want)} pairs overlap", inp)
    elif sorted(got) != sorted(want):
        col.fail(f"scan reported pairs {sorted(got)} expected {sorted(want)} (each unordered pair once)", inp)
    if cli:
        from tola.assembly.scripts.asm_format import cli as asm_cli
        import tempfile, pathlib

        with tempfile.TemporaryDirectory() as d:
            pth = pathlib.Path(d) / "in.agp"
            pth.write_text(agp_text(asm))
            res = CliRunner().invoke(asm_cli, ["--qc-overlaps", str(pth)])
            if res.exit_code != 0:
                col.fail(f"asm-format --qc-overlaps failed: {res.exception!r}", inp)
                return
            n_reported = len(re.findall(r"^Overlap:$", res.stderr, flags=re.M))
            if n_reported != len(want):
                col.fail(f"asm-format --qc-overlaps reported {n_reported} overlaps, {len(want)} pairs overlap", inp)


def run(tier, seed, **opts):
    rng = random.Random(seed)
    N = 6 if tier == "quick" else 9
    col = Collector(
        f"all pairs of intervals within 1..{N} (same and different name, strands +/-/?), and all-vs-all scans of "
        "small assemblies with duplicate/nested/abutting/disjoint intervals; non-trivial = distinct (input) tuples"
    )
    ivs = [(s, e) for s in range(1, N + 1) for e in range(s, N + 1)]
    for (s1, e1), (s2, e2) in itertools.product(ivs, ivs):
        for n2, st1, st2 in (("c", 1, 1), ("c", 1, -1), ("d", 1, 1), ("c", 0, -1)):
            a, b = ("c", s1, e1, st1), (n2, s2, e2, st2)
            inp = {"kind": "pair", "a": a, "b": b}
            check_pair(Fragment(*a), Fragment(*b), col, inp)
            col.case((a, b), sample=inp if (s1, e1, s2, e2) == (2, 4, 3, 5) else None)
    # scans
    pool = [("c", 1, 4, 1), ("c", 2, 3, 1), ("c", 4, 6, -1), ("c", 5, 6, 1), ("c", 1, 4, 1), ("d", 1, 4, 1), ("c", 7, 7, 1), ("c", 1, 7, -1)]
    max_n = 4 if tier == "quick" else 5
    count = 0
    for n in range(1, max_n + 1):
        for combo in itertools.product(range(len(pool)), repeat=n):
            rows = [pool[i] for i in combo]
            for split in range(0, n + 1, max(1, n // 2)):
                scs = [rows[:split], rows[split:]] if 0 < split < n else [rows]
                scs = [s for s in scs if s]
                inp = {"kind": "scan", "scaffolds": scs, "cli": count % 97 == 0}
                check_scan(scs, col, inp, cli=inp["cli"])
                col.case(("scan", tuple(map(tuple, scs))), nontrivial=n > 1, sample=inp if count == 500 else None)
                count += 1
            if col.full:
                break
    return col.result(bounds=f"coordinates 1..{N}; assemblies of <= {max_n} fragments from a pool of {len(pool)}", exhaustive=True)
