"""
C12 bounded tier: IndexedAssembly.find_overlaps against a literal scan of the scaffold.

Oracle (from the statement): lay the rows out base by base on scaffold coordinates 1..total, keep the rows
whose span shares at least one base with the query [a, b], drop gap rows from both ends of that run;
nothing left -> None, else (rows, span start of the first kept row, span end of the last kept row).

The statement quantifies over ALL scaffolds and Python coordinates are unbounded, so besides the small-scope
enumeration there is a family of scaffolds with huge coordinates, built from a handful of rows whose lengths sit
around the widths of machine integers and of the float mantissa (2**31, 2**32, 2**53, 2**63, 2**64, 10**30); the
oracle for those is the interval form of the same scan (pure arithmetic on the row spans, no base is enumerated).
A scaffold that cannot even be indexed is a failure: no query on it can be answered.
"""

import itertools
import random

from tola.assembly.fragment import Fragment
from tola.assembly.gap import Gap
from tola.assembly.indexed_assembly import IndexedAssembly
from tola.assembly.scaffold import Scaffold

from .common import Collector

# row kinds: ("G", length) or ("F", length)
ROW_KINDS = [("G", 1), ("G", 2), ("G", 3), ("F", 1), ("F", 2), ("F", 3)]


# row lengths around the limits of fixed-width number representations (signed/unsigned 32 and 64 bit, the 53-bit
# float mantissa, well beyond any machine word)
HUGE = sorted(
    {2**k + d for k in (31, 32, 53, 63, 64) for d in (-1, 0, 1)} | {2**40, 5 * 10**9, 2**62 + 12345, 2**100 + 7, 10**30 + 1}
)


def huge_shapes(L):
    """a handful of scaffolds around one huge row length L (totals just below / at / above L, 2L, ...)"""
    return [
        (("F", L),),
        (("G", L),),
        (("F", L - 1), ("F", 1)),
        (("F", 1), ("F", L - 1), ("F", 1)),
        (("F", 1), ("G", L), ("F", 2)),
        (("G", 2), ("F", L), ("G", 1)),
        (("F", L), ("F", L)),
        (("F", 1), ("G", 1), ("F", L), ("G", L), ("F", 3), ("G", 2)),
    ]


def boundary_points(spans):
    total = spans[-1][1]
    pts = {1, 2, total, total + 1, total + 2}
    for s, e in spans:
        pts.update(v + d for v in (s, e) for d in (-1, 0, 1))
        pts.add((s + e) // 2)
    return sorted(p for p in pts if p >= 1)


def try_build(kinds):
    """build(kinds), or (None, message) when the scaffold cannot be built or indexed"""
    try:
        return build(kinds), None
    except Exception as e:
        return None, (
            f"indexing a scaffold with rows {kinds} (total length {sum(n for _, n in kinds)}) raised "
            f"{type(e).__name__}: {e} - no query on this scaffold can be answered"
        )


def build(kinds):
    """list of (kind, length) -> (Scaffold, [is_gap,...], [(span_start, span_end), ...], IndexedAssembly)"""
    rows = []
    for i, (k, n) in enumerate(kinds):
        if k == "G":
            rows.append(Gap(n, "scaffold" if i % 2 else "contig"))
        else:
            # distinct contig names, contig coordinates unrelated to scaffold coordinates
            rows.append(Fragment(f"c{i}", 10 * i + 5, 10 * i + 4 + n, (1, -1, 0)[i % 3]))
    spans = []
    p = 0
    for k, n in kinds:
        spans.append((p + 1, p + n))
        p += n
    scf = Scaffold("scf", rows)
    return scf, [k == "G" for k, _ in kinds], spans, IndexedAssembly("asm", scaffolds=[scf])


def expected(is_gap, spans, a, b):
    if spans[-1][1] <= 1000:
        q = set(range(a, b + 1))
        hit = [i for i, (s, e) in enumerate(spans) if q & set(range(s, e + 1))]
    else:  # long rows (random part of the thorough tier): interval form of the same thing
        hit = [i for i, (s, e) in enumerate(spans) if s <= b and a <= e]
    while hit and is_gap[hit[0]]:
        hit.pop(0)
    while hit and is_gap[hit[-1]]:
        hit.pop()
    if not hit:
        return None
    return hit, spans[hit[0]][0], spans[hit[-1]][1]


def check(kinds, a, b, col, inp, built=None):
    if built is None:
        built, err = try_build(kinds)
        if err:
            col.fail(err, inp)
            return
    scf, is_gap, spans, asm = built
    want = expected(is_gap, spans, a, b)
    try:
        got = asm.find_overlaps(Fragment("scf", a, b, 1))
    except Exception as e:  # the property says the lookup never fails on such queries
        col.fail(f"find_overlaps({a}-{b}) on rows {kinds} raised {type(e).__name__}: {e}", inp)
        return
    if want is None:
        if got is not None:
            col.fail(
                f"find_overlaps({a}-{b}) on rows {kinds}: no contig row intersects the query but got "
                f"{len(got.rows)} rows, start={got.start} end={got.end}",
                inp,
            )
        return
    if got is None:
        col.fail(f"find_overlaps({a}-{b}) on rows {kinds} returned None, expected rows {want[0]}", inp)
        return
    idx, s, e = want
    got_rows = list(got.rows)
    same = len(got_rows) == len(idx) and all(g is scf.rows[i] for g, i in zip(got_rows, idx))
    if not same:
        pos = {id(r): i for i, r in enumerate(scf.rows) if not isinstance(r, Gap)}
        shown = [pos.get(id(r), str(r)) for r in got_rows]
        col.fail(f"find_overlaps({a}-{b}) on rows {kinds}: rows {shown}, expected source rows {idx} (same objects, same order)", inp)
    if (got.start, got.end) != (s, e):
        col.fail(f"find_overlaps({a}-{b}) on rows {kinds}: start/end {got.start}-{got.end}, expected {s}-{e}", inp)
    if got.bait is None or (got.bait.start, got.bait.end) != (a, b):
        col.fail(f"find_overlaps({a}-{b}) on rows {kinds}: result does not carry the bait", inp)


def replay(inp):
    col = Collector("replay")
    kinds = [tuple(k) for k in inp["rows"]]
    check(kinds, inp["a"], inp["b"], col, inp)
    return col.failures[0]["message"] if col.failures else None


def run(tier, seed, **opts):
    rng = random.Random(seed)
    max_rows = 4 if tier == "quick" else 5
    col = Collector(
        f"every scaffold of 1..{max_rows} rows, each row a gap of length 1..3 or a fragment of length 1..3 (strands "
        "+,-,? by position), x every query 1 <= a <= b <= total+2; plus scaffolds of 1..6 rows with one or two rows of "
        "huge length (2**31-1 .. 10**30+1: cumulative coordinates beyond every machine-integer and float-mantissa "
        "width) x every pair of query points at row boundaries +-1, row middles and past the end; non-trivial = "
        "distinct (rows, a, b) where the query intersects at least one row"
    )
    n_sc = 0
    for n in range(1, max_rows + 1):
        for kinds in itertools.product(ROW_KINDS, repeat=n):
            built = build(kinds)
            spans = built[2]
            total = spans[-1][1]
            n_sc += 1
            for a in range(1, total + 3):
                for b in range(a, total + 3):
                    inp = {"rows": [list(k) for k in kinds], "a": a, "b": b}
                    check(kinds, a, b, col, inp, built=built)
                    col.case(
                        (kinds, a, b),
                        nontrivial=a <= total,
                        sample=inp if (n_sc, a, b) in ((40, 2, 4), (200, 1, 9), (700, 3, 3)) else None,
                    )
            if col.full:
                break
    # scaffolds with huge coordinates (a few rows each), every pair of query points taken from the row boundaries
    # +-1, the middle of each row, 1, 2 and total..total+2
    n_huge = 0
    for L in HUGE:
        for kinds in huge_shapes(L):
            n_huge += 1
            built, err = try_build(kinds)
            if err:
                total = sum(n for _, n in kinds)
                inp = {"rows": [list(k) for k in kinds], "a": 1, "b": total}
                col.fail(err, inp)
                col.case((kinds, 1, total))
                continue
            pts = boundary_points(built[2])
            total = built[2][-1][1]
            for a, b in itertools.combinations_with_replacement(pts, 2):
                inp = {"rows": [list(k) for k in kinds], "a": a, "b": b}
                check(kinds, a, b, col, inp, built=built)
                col.case((kinds, a, b), nontrivial=a <= total, sample=inp if (n_huge, a) == (29, 2) and b > total else None)
    exhaustive = True
    if tier != "quick":
        # random larger scaffolds: long rows, many rows, queries sampled at row boundaries +-1
        for _ in range(3000):
            n = rng.randint(6, 14)
            kinds = tuple((rng.choice("GGF" if rng.random() < 0.5 else "GFF"), rng.choice((1, 2, 3, 7, 100, 10**6))) for _ in range(n))
            built = build(kinds)
            spans = built[2]
            total = spans[-1][1]
            pts = sorted({1, total, total + 1, total + 2} | {max(1, v + d) for s, e in spans for v in (s, e) for d in (-1, 0, 1)})
            for _ in range(40):
                a, b = sorted((rng.choice(pts), rng.choice(pts)))
                inp = {"rows": [list(k) for k in kinds], "a": a, "b": b}
                check(kinds, a, b, col, inp, built=built)
                col.case((kinds, a, b), nontrivial=a <= total)
        # the same with huge row lengths mixed in (cumulative coordinates cross several word widths in one scaffold)
        lengths = (1, 2, 3, 7, 100, 10**6) + tuple(HUGE)
        for _ in range(1500):
            n = rng.randint(1, 10)
            kinds = tuple((rng.choice("GGF" if rng.random() < 0.5 else "GFF"), rng.choice(lengths)) for _ in range(n))
            built, err = try_build(kinds)
            total = sum(v for _, v in kinds)
            if err:
                col.fail(err, {"rows": [list(k) for k in kinds], "a": 1, "b": total})
                col.case((kinds, 1, total))
                continue
            pts = boundary_points(built[2])
            for _ in range(40):
                a, b = sorted((rng.choice(pts), rng.choice(pts)))
                inp = {"rows": [list(k) for k in kinds], "a": a, "b": b}
                check(kinds, a, b, col, inp, built=built)
                col.case((kinds, a, b), nontrivial=a <= total)
    return col.result(
        bounds=f"scaffolds of <= {max_rows} rows over {len(ROW_KINDS)} row kinds ({n_sc} scaffolds), all queries up to total+2"
        f"; plus {n_huge} scaffolds of 1..6 rows around {len(HUGE)} huge row lengths (2**31-1 .. 10**30+1), all pairs of "
        "boundary/middle query points"
        + (
            ""
            if tier == "quick"
            else "; plus 3000 random scaffolds of 6..14 rows with row lengths up to 10**6 and 1500 random scaffolds of "
            "1..10 rows with huge row lengths mixed in, boundary queries"
        ),
        exhaustive=exhaustive,
    )
